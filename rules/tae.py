"""T — table abstract evaluator.  Reads svgbob's literal character tables from the syntax tree
(srcfacts), folds every point/unit term to exact rationals with the MIR constant folder (so the grid
constants come from the current source), and evaluates behaviour entries for a *given neighbourhood
of characters* by deciding each condition atom from the neighbour character's signature table.
This is constant propagation over data: no CellBuffer, merge or render step is modelled."""
from fractions import Fraction

from .common import find_nodes, src_file
from .fold import Folder, Unfoldable, frac

DIRS = ["top_left", "top", "top_right", "left", "right", "bottom_left", "bottom", "bottom_right"]
DIR_OFF = {"top_left": (-1, -1), "top": (0, -1), "top_right": (1, -1), "left": (-1, 0), "right": (1, 0),
           "bottom_left": (-1, 1), "bottom": (0, 1), "bottom_right": (1, 1)}
SIGNALS = {"Faint": 1, "Weak": 2, "Medium": 3, "Strong": 4}
REQUIRED = {"line_overlap": 3, "line_strongly_overlap": 4, "line_weakly_overlap": 2}
FRAG_FNS = {"line", "broken_line", "arc", "arc_with_sweep", "circle", "polygon", "rect", "rounded_rect"}
TAGS = {"ArrowBottom", "ArrowBottomLeft", "ArrowBottomRight", "ArrowLeft", "ArrowRight", "ArrowTop", "ArrowTopLeft",
        "ArrowTopRight", "DiamondBullet", "Circle", "OpenCircle", "BigOpenCircle"}


class TableError(Exception):
    pass


def pt_key(p):
    """Point ordering of svgbob: y first, then x"""
    return (p[2], p[1])


def mk_line(a, b, broken):
    if pt_key(a) > pt_key(b):
        a, b = b, a
    return ("line", a, b, bool(broken))


def mk_arc(a, b, r, sweep=False):
    if pt_key(a) > pt_key(b):
        a, b = b, a
        sweep = not sweep
    return ("arc", a, b, r, bool(sweep))


def on_segment(seg_a, seg_b, p):
    ax, ay, bx, by, px, py = seg_a[1], seg_a[2], seg_b[1], seg_b[2], p[1], p[2]
    cross = (bx - ax) * (py - ay) - (by - ay) * (px - ax)
    if cross != 0:
        return False
    return min(ax, bx) <= px <= max(ax, bx) and min(ay, by) <= py <= max(ay, by)


class Tables:
    def __init__(self, run):
        self.run = run
        self.prog = run.prog
        self.folder = Folder(run.prog)
        self.ascii = {}
        self.unicode = {}
        self.ascii_file = None
        self.unicode_file = None
        self._load_ascii()
        self._load_unicode()

    # ------------------------------------------------------------ expression evaluation over srcfacts
    def _fn(self, suffix):
        p = self.folder.resolve(suffix)
        if p is None:
            raise TableError("cannot resolve function " + suffix)
        return p

    def ev(self, e, env):
        k = e.get("k")
        if k == "lit":
            if e["ty"] in ("int", "float"):
                return Fraction(e["v"])
            if e["ty"] == "bool":
                return bool(e["v"])
            if e["ty"] == "char":
                return ("char", e["v"])
            if e["ty"] == "str":
                return ("str", e["v"])
            raise TableError("literal " + e["ty"])
        if k == "path":
            n = e["path"]
            if n in env:
                return env[n]
            short = n.split("::")[-1]
            if short in SIGNALS:
                return ("signal", SIGNALS[short])
            if short in TAGS:
                return ("tag", short)
            raise TableError("unknown name %s (line %d)" % (n, e["pos"][0]))
        if k == "unary":
            v = self.ev(e["e"], env)
            if e["op"] == "-":
                return -v
            if e["op"] == "!":
                return ("not", v) if isinstance(v, tuple) else (not v)
            if e["op"] == "*":
                return v
            raise TableError("unary " + e["op"])
        if k == "binary":
            op = e["op"]
            if op in ("&&", "||"):
                a = self.cond(e["l"], env)
                b = self.cond(e["r"], env)
                return ("and" if op == "&&" else "or", a, b)
            a = self.ev(e["l"], env)
            b = self.ev(e["r"], env)
            if op in ("==", "!="):
                # `left.ch == '-'` is `left.is('-')`
                for x, y in ((a, b), (b, a)):
                    if isinstance(x, tuple) and x and x[0] == "nbch" and isinstance(y, tuple) and y and y[0] == "char":
                        at = ("atom", x[1], "is", (y,))
                        return at if op == "==" else ("not", at)
                raise TableError("comparison %s of %r and %r (line %d)" % (op, a, b, e["pos"][0]))
            try:
                if op == "+":
                    return a + b
                if op == "-":
                    return a - b
                if op == "*":
                    return a * b
                if op == "/":
                    return a / b
            except TypeError:
                raise TableError("arithmetic on non-numbers (line %d)" % e["pos"][0])
            raise TableError("operator " + op)
        if k == "field":
            base = self.ev(e["base"], env)
            if isinstance(base, tuple) and base and base[0] == "nb" and e.get("member") == "ch":
                return ("nbch", base[1])
            if isinstance(base, tuple) and base and base[0] == "tuple" and str(e.get("member", "")).isdigit():
                return base[1][int(e["member"])]
            raise TableError("field .%s of %r (line %d)" % (e.get("member"), base, e["pos"][0]))
        if k == "macro" and e["name"].split("::")[-1] == "matches" and "matches" in e:
            mm = e["matches"]
            subj = self.ev(mm["expr"], env)
            if not (isinstance(subj, tuple) and subj and subj[0] == "nbch"):
                raise TableError("matches! on something else than a neighbour's character (line %d)" % e["pos"][0])
            def alts(p_):
                if p_.get("pk") == "or":
                    out = []
                    for c_ in p_.get("cases", []):
                        out.extend(alts(c_))
                    return out
                if p_.get("pk") == "lit" and p_["lit"].get("ty") == "char":
                    return [p_["lit"]["v"]]
                raise TableError("matches! pattern %s (line %d)" % (p_.get("pk"), e["pos"][0]))
            chars = alts(mm["pat"])
            c = None
            for ch_ in chars:
                a_ = ("atom", subj[1], "is", (("char", ch_),))
                c = a_ if c is None else ("or", c, a_)
            if c is None:
                c = ("false",)
            if mm.get("guard"):
                c = ("and", c, self.cond(mm["guard"], env))
            return c
        if k == "cast":
            return self.ev(e["e"], env)
        if k == "ref":
            return self.ev(e["e"], env)
        if k == "tuple":
            return ("tuple", tuple(self.ev(x, env) for x in e["elems"]))
        if k == "macro" and e["name"].split("::")[-1] == "vec":
            if "args" in e:
                return ("list", [self.ev(x, env) for x in e["args"]])
            raise TableError("vec! with repeat form")
        if k == "array":
            return ("list", [self.ev(x, env) for x in e["elems"]])
        if k == "call":
            f = e["func"]
            if f.get("k") != "path":
                raise TableError("indirect call")
            name = f["path"]
            short = name.split("::")[-1]
            args = [self.ev(a, env) for a in e["args"]]
            if name in env and isinstance(env[name], tuple) and env[name] and env[name][0] == "closure":
                # a local factory / helper closure (`let round_letter = move |radius| -> Behavior { .. }`)
                return self.apply_closure(env[name], args, e)
            if name in ("Vec::new", "Vec::with_capacity", "std::vec::Vec::new", "std::vec::Vec::with_capacity", "vec::Vec::new", "vec::Vec::with_capacity"):
                return ("list", [])
            if name in ("std::iter::once", "iter::once", "core::iter::once", "once") and len(args) == 1:
                return ("list", [args[0]])
            if short in FRAG_FNS and "::" not in name.replace("fragment::", ""):
                return self.mk_frag(short, args, e)
            if name in ("Arc::new", "std::sync::Arc::new", "sync::Arc::new"):
                return args[0]
            try:
                return self.folder.call(self._fn(name), args)
            except Unfoldable as ex:
                raise TableError("cannot fold %s: %s" % (name, ex))
        if k == "method":
            recv = self.ev(e["recv"], env)
            args = [self.ev(a, env) for a in e["args"]]
            m = e["method"]
            if isinstance(recv, tuple) and recv and recv[0] == "nb":
                return ("atom", recv[1], m, tuple(args))
            if isinstance(recv, tuple) and recv and recv[0] == "pt":
                fn = "point::Point::" + m
            elif isinstance(recv, tuple) and recv and recv[0] == "cell":
                fn = "cell::Cell::" + m
            elif m in ("clone", "to_owned", "iter", "into_iter", "cloned", "copied", "collect", "to_vec", "into_boxed_slice") and not args:
                return recv   # lists are values here: iterating, cloning and collecting them change nothing
            elif m == "map" and isinstance(recv, tuple) and recv and recv[0] == "list" and len(args) == 1 and isinstance(args[0], tuple) and args[0][0] == "closure":
                return ("list", [self.apply_closure(args[0], [x], e) for x in recv[1]])
            elif m == "chain" and isinstance(recv, tuple) and recv and recv[0] == "list" and len(args) == 1 and isinstance(args[0], tuple) and args[0][0] == "list":
                return ("list", list(recv[1]) + list(args[0][1]))
            elif m == "zip" and isinstance(recv, tuple) and recv and recv[0] == "list" and len(args) == 1 and isinstance(args[0], tuple) and args[0][0] == "list":
                if len(recv[1]) != len(args[0][1]):
                    raise TableError("zip of lists of different length (line %d)" % e["pos"][0])
                return ("list", [("tuple", (a_, b_)) for a_, b_ in zip(recv[1], args[0][1])])
            elif m == "enumerate" and isinstance(recv, tuple) and recv and recv[0] == "list" and not args:
                return ("list", [("tuple", (Fraction(i_), x_)) for i_, x_ in enumerate(recv[1])])
            elif m == "filter" and isinstance(recv, tuple) and recv and recv[0] == "list":
                raise TableError("filter over a rule list (line %d)" % e["pos"][0])
            else:
                raise TableError("method %s on %r (line %d)" % (m, recv, e["pos"][0]))
            try:
                return self.folder.call(self._fn(fn), [recv] + args)
            except Unfoldable as ex:
                raise TableError("cannot fold %s: %s" % (fn, ex))
        if k == "if":
            c = self.ev(e["cond"], env)
            a = self.ev(e["then"], env)
            b = self.ev(e["else"], env) if e.get("else") else None
            if c is True:
                return a
            if c is False:
                return b
            # a choice that depends on the neighbours: kept symbolic; a rule `(cond, if c { A } else { B })` is later split
            # into `(cond && c, A)` and `(cond && !c, B)`
            return ("choice", self.as_cond(c), a, b)
        if k == "closure":
            return ("closure", e, dict(env))
        if k == "block":
            env2 = dict(env)
            val = None
            for st in e["stmts"]:
                if st["k"] == "const" and st.get("name") and "e" in st:
                    env2[st["name"]] = self.ev(st["e"], env2)
                elif st["k"] == "let":
                    if "init" not in st:
                        raise TableError("unsupported let (line %d)" % st["pos"][0])
                    self.bind(st["pat"], self.ev(st["init"], env2), env2, st["pos"][0])
                elif st["k"] == "expr_stmt" and not st["semi"]:
                    val = self.ev(st["expr"], env2)
                elif st["k"] == "expr_stmt" and st["expr"].get("k") == "method" and st["expr"]["method"] in ("push", "extend") and \
                        st["expr"]["recv"].get("k") == "path" and isinstance(env2.get(st["expr"]["recv"]["path"]), tuple) and \
                        env2[st["expr"]["recv"]["path"]][0] == "list" and len(st["expr"]["args"]) == 1:
                    # `rules.push((cond, frags));` on a list built in this block (straight-line code only)
                    tgt = st["expr"]["recv"]["path"]
                    item = self.ev(st["expr"]["args"][0], env2)
                    cur = list(env2[tgt][1])
                    if st["expr"]["method"] == "push":
                        cur.append(item)
                    elif isinstance(item, tuple) and item and item[0] == "list":
                        cur.extend(item[1])
                    else:
                        raise TableError("extend with a non-list (line %d)" % st["pos"][0])
                    env2[tgt] = ("list", cur)
                else:
                    raise TableError("unsupported statement %s (line %d)" % (st["k"], st["pos"][0]))
            return val
        raise TableError("unsupported syntax %s (line %s)" % (k, e.get("pos", ["?"])[0]))

    def bind(self, pat, val, env, line):
        """bind the names of a pattern (identifier, tuple, reference, typed, wildcard) to the parts of a value"""
        pk = pat.get("pk")
        if pk is None and pat.get("name"):
            pk = "ident"
        if pk == "ident":
            env[pat["name"]] = val
        elif pk == "wild":
            pass
        elif pk in ("ref", "typed"):
            self.bind(pat["inner"], val, env, line)
        elif pk == "tuple":
            if not (isinstance(val, tuple) and val and val[0] == "tuple" and len(val[1]) == len(pat["elems"])):
                raise TableError("tuple pattern against %r (line %d)" % (val, line))
            for sub, v in zip(pat["elems"], val[1]):
                self.bind(sub, v, env, line)
        else:
            raise TableError("pattern %s (line %d)" % (pk, line))

    def apply_closure(self, cl, args, e):
        _, ce, cenv = cl
        if len(ce["params"]) != len(args):
            raise TableError("closure called with %d arguments, takes %d (line %d)" % (len(args), len(ce["params"]), e["pos"][0]))
        env2 = dict(cenv)
        for p_, a_ in zip(ce["params"], args):
            self.bind(p_, a_, env2, ce["pos"][0])
        return self.ev(ce["body"], env2)

    def cond(self, e, env):
        v = self.ev(e, env)
        return self.as_cond(v)

    def as_cond(self, v):
        if v is True:
            return ("true",)
        if v is False:
            return ("false",)
        if isinstance(v, tuple) and v and v[0] in ("and", "or", "atom", "true", "false"):
            return v
        if isinstance(v, tuple) and v and v[0] == "not":
            return ("not", self.as_cond(v[1]))
        raise TableError("not a condition: %r" % (v,))

    def mk_frag(self, name, args, e):
        line = e["pos"][0]
        try:
            if name == "line":
                return mk_line(args[0], args[1], False) + (line,)
            if name == "broken_line":
                return mk_line(args[0], args[1], True) + (line,)
            if name == "arc":
                return mk_arc(args[0], args[1], frac(args[2])) + (line,)
            if name == "arc_with_sweep":
                return mk_arc(args[0], args[1], frac(args[2]), args[3]) + (line,)
            if name == "circle":
                return ("circle", args[0], frac(args[1]), bool(args[2]), line)
            if name == "polygon":
                pts = args[0][1] if args[0][0] == "list" else None
                tags = [t[1] for t in args[2][1]] if args[2][0] == "list" else []
                return ("polygon", tuple(pts), bool(args[1]), tuple(tags), line)
            if name == "rect":
                return ("rect", args[0], args[1], bool(args[2]), bool(args[3]), None, line)
            if name == "rounded_rect":
                return ("rect", args[0], args[1], bool(args[2]), bool(args[4]), frac(args[3]), line)
        except (IndexError, TypeError, KeyError):
            pass
        raise TableError("malformed %s(..) at line %d" % (name, line))

    # ------------------------------------------------------------ loading
    def _static_closure(self, file_suffix, static_name):
        f, v = src_file(self.run, file_suffix)
        if v is None:
            raise TableError("file %s not found" % file_suffix)
        for it in v["items"]:
            if it.get("k") == "static" and it.get("name") == static_name:
                e = it["e"]
                if e.get("k") == "call" and e["args"] and e["args"][0].get("k") == "closure":
                    return f, it, e["args"][0]["body"]
        raise TableError("static %s not found in %s" % (static_name, file_suffix))

    def _prelude(self, body, stop_at):
        """evaluate the `let name = ..;` prelude of the initialiser up to the table binding"""
        env = {}
        table = None
        for st in body["stmts"]:
            if st["k"] == "const" and st.get("name") and "e" in st:
                env[st["name"]] = self.ev(st["e"], env)   # `const OFFSETS: [(f32, f32); 4] = [..];` inside the initialiser
                continue
            if st["k"] != "let":
                continue
            pat = st["pat"]
            name = pat.get("name") or (pat.get("inner") or {}).get("name")
            if name == stop_at:
                table = st["init"]
                break
            if name is None or "init" not in st:
                continue
            env[name] = self.ev(st["init"], env)
        if table is None:
            raise TableError("table binding `%s` not found" % stop_at)
        return env, table

    def _load_ascii(self):
        f, item, body = self._static_closure("svgbob/src/map/ascii_map.rs", "ASCII_PROPERTIES")
        self.ascii_file = f
        env, table = self._prelude(body, "map")
        self.env = env
        if not (table.get("k") == "macro" and "args" in table):
            raise TableError("ascii table is not a vec![..] literal")
        for ent in table["args"]:
            if ent.get("k") != "tuple" or len(ent["elems"]) != 3:
                raise TableError("ascii table entry is not a 3-tuple (line %d)" % ent["pos"][0])
            chl, sig, beh = ent["elems"]
            if chl.get("ty") != "char":
                raise TableError("entry key is not a char literal (line %d)" % ent["pos"][0])
            ch = chl["v"]
            sigv = self.ev(sig, env)
            signature = []
            for t in sigv[1]:
                s, frs = t[1]
                signature.append((s[1], list(frs[1])))
            # Arc::new(move |8 neighbours| { vec![(cond, vec![..]), ..] })
            # evaluated as a value: the closure itself, a shared closure bound by a `let` (`x.clone()`), or the result of a
            # local factory (`round_letter(unit2)`)
            clv = self.ev(beh, env)
            if not (isinstance(clv, tuple) and clv and clv[0] == "closure" and len(clv[1]["params"]) == 8):
                raise TableError("behaviour of %r is not an 8-parameter closure (line %d)" % (ch, ent["pos"][0]))
            bv = self.apply_closure(clv, [("nb", d) for d in DIRS], beh)
            if not (isinstance(bv, tuple) and bv[0] == "list"):
                raise TableError("behaviour of %r does not evaluate to a vec![..]" % ch)
            behaviour = []
            flat = []
            for t in bv[1]:
                c, frs = t[1]
                if isinstance(frs, tuple) and frs and frs[0] == "choice":
                    cc = self.as_cond(c)
                    flat.append((("and", cc, frs[1]), frs[2]))
                    flat.append((("and", cc, ("not", frs[1])), frs[3] if frs[3] is not None else ("list", [])))
                else:
                    flat.append((c, frs))
            for i, (c, frs) in enumerate(flat):
                if not (isinstance(frs, tuple) and frs and frs[0] == "list"):
                    raise TableError("fragments of a rule of %r are not a list (line %d)" % (ch, ent["pos"][0]))
                behaviour.append({"cond": self.as_cond(c), "frags": list(frs[1]), "index": i,
                                  "line": (frs[1][0][-1] if frs[1] else ent["pos"][0])})
            if ch in self.ascii:
                raise TableError("duplicate table entry for %r" % ch)
            self.ascii[ch] = {"line": ent["pos"][0], "signature": signature, "behaviour": behaviour}

    def _load_unicode(self):
        f, item, body = self._static_closure("svgbob/src/map/unicode_map.rs", "UNICODE_FRAGMENTS")
        self.unicode_file = f
        env, table = self._prelude(body, "map")
        if not (table.get("k") == "macro" and "args" in table):
            raise TableError("unicode table is not a vec![..] literal")
        self.unicode_entries = 0
        for ent in table["args"]:
            if ent.get("k") != "tuple" or len(ent["elems"]) != 2:
                raise TableError("unicode table entry is not a 2-tuple (line %d)" % ent["pos"][0])
            chl, frs = ent["elems"]
            ch = chl["v"]
            v = self.ev(frs, env)
            self.unicode_entries += 1
            # later entries overwrite earlier ones in the BTreeMap
            self.unicode[ch] = {"line": ent["pos"][0], "frags": list(v[1])}

    # ------------------------------------------------------------ neighbour model
    def signature_of(self, ch):
        """[(signal, [frags])] of the Property that PropertyBuffer holds for this character; None = no property"""
        if ch is None:
            return None
        if ch in self.ascii:
            return self.ascii[ch]["signature"]
        if ch in self.unicode:
            return [(4, self.unicode[ch]["frags"])]
        return None

    def has_property(self, ch):
        return ch is not None and (ch in self.ascii or ch in self.unicode)

    def atom(self, a, nbs):
        _, d, method, args = a
        ch = nbs.get(d)
        sig = self.signature_of(ch)
        if method == "is":
            prop_ch = ch if sig is not None else " "
            return prop_ch == args[0][1]
        if sig is None:
            sig = []
        if method in REQUIRED:
            req = REQUIRED[method]
            p, q = args
            for s, frs in sig:
                if s < req:
                    continue
                for fr in frs:
                    if fr[0] == "line" and on_segment(fr[1], fr[2], p) and on_segment(fr[1], fr[2], q):
                        return True
            return False
        if method == "arcs_to":
            want = mk_arc(args[0], args[1], Fraction(1))
            for s, frs in sig:
                for fr in frs:
                    if fr[0] == "arc" and fr[1] == want[1] and fr[2] == want[2] and fr[4] == want[4]:
                        return True
            return False
        raise TableError("unknown neighbour predicate " + method)

    def holds(self, c, nbs):
        k = c[0]
        if k == "true":
            return True
        if k == "false":
            return False
        if k == "and":
            return self.holds(c[1], nbs) and self.holds(c[2], nbs)
        if k == "or":
            return self.holds(c[1], nbs) or self.holds(c[2], nbs)
        if k == "not":
            return not self.holds(c[1], nbs)
        if k == "atom":
            return self.atom(c, nbs)
        raise TableError("condition node " + k)

    def fragments(self, ch, nbs):
        """fragments the behaviour of `ch` yields for the neighbourhood nbs: {dir: char|None}"""
        ent = self.ascii.get(ch)
        out = []
        if ent is None:
            return out
        for b in ent["behaviour"]:
            if "dirs" not in b:
                b["dirs"] = sorted({a[1] for a in self.atoms_of(b["cond"])})
                b["memo"] = {}
            key = tuple(nbs.get(d) for d in b["dirs"])
            v = b["memo"].get(key)
            if v is None:
                v = self.holds(b["cond"], nbs)
                b["memo"][key] = v
            if v:
                out.extend(b["frags"])
        return out

    def atoms_of(self, c, out=None):
        out = out if out is not None else []
        if c[0] == "atom":
            out.append(c)
        elif c[0] in ("and", "or"):
            self.atoms_of(c[1], out)
            self.atoms_of(c[2], out)
        elif c[0] == "not":
            self.atoms_of(c[1], out)
        return out


def frag_points(fr):
    k = fr[0]
    if k in ("line", "arc"):
        return [fr[1], fr[2]]
    if k == "circle":
        return [fr[1]]
    if k == "polygon":
        return list(fr[1])
    if k == "rect":
        return [fr[1], fr[2]]
    return []


def frag_bbox(fr):
    """bounding box in cell coordinates (arcs: chord box grown by the sagitta; circles by radius)"""
    k = fr[0]
    pts = frag_points(fr)
    xs = [p[1] for p in pts]
    ys = [p[2] for p in pts]
    x0, x1, y0, y1 = min(xs), max(xs), min(ys), max(ys)
    if k == "circle":
        r = fr[2]
        return x0 - r, y0 - r, x1 + r, y1 + r
    return x0, y0, x1, y1


def strip_line(fr):
    return fr[:-1]


def arc_geometry(fr):
    """SVG semantics of `M start A r,r 0,0,sweep end` (minor arc): centre, start/end angles and exact
    bounding box (floats).  Returns None if the radius is too small for the chord (SVG then scales it)."""
    import math
    x1, y1 = float(fr[1][1]), float(fr[1][2])
    x2, y2 = float(fr[2][1]), float(fr[2][2])
    r = float(fr[3])
    sweep = bool(fr[4])
    hx, hy = (x1 - x2) / 2, (y1 - y2) / 2
    h2 = hx * hx + hy * hy
    if h2 == 0:
        return None
    if r * r < h2:
        r = math.sqrt(h2)
    coef = math.sqrt(max(r * r - h2, 0.0) / h2)
    if not sweep:
        coef = -coef
    cx = coef * hy + (x1 + x2) / 2
    cy = -coef * hx + (y1 + y2) / 2
    t1 = math.atan2(y1 - cy, x1 - cx)
    t2 = math.atan2(y2 - cy, x2 - cx)
    d = t2 - t1
    if sweep and d < 0:
        d += 2 * math.pi
    if not sweep and d > 0:
        d -= 2 * math.pi
    xs, ys = [x1, x2], [y1, y2]
    for k in range(-4, 5):
        a = k * math.pi / 2
        # is a within [t1, t1+d] (direction of d)?
        rel = a - t1
        if d >= 0:
            while rel < 0:
                rel += 2 * math.pi
            while rel >= 2 * math.pi:
                rel -= 2 * math.pi
            inside = rel <= d + 1e-12
        else:
            while rel > 0:
                rel -= 2 * math.pi
            while rel <= -2 * math.pi:
                rel += 2 * math.pi
            inside = rel >= d - 1e-12
        if inside:
            xs.append(cx + r * math.cos(a))
            ys.append(cy + r * math.sin(a))
    return {"center": (cx, cy), "radius": r, "t1": t1, "delta": d, "box": (min(xs), min(ys), max(xs), max(ys))}
