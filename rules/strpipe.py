"""A small evaluator for string-preparation code (srcfacts syntax trees): the few lines that normalise a text
before it is handed to a grammar (`input.chars().filter(|c| *c != '\\r').collect()`, per-line trimming, joins).
It evaluates the *model* of that code on witness strings; constructs outside the enumerated subset raise
Unknown, and the calling rule fails closed."""
from .charset import Unknown

WS = set(" \t\n\r\x0b\x0c\x85\xa0     　") | {chr(c) for c in range(0x2000, 0x200b)}


class Done(Exception):
    """the pipeline handed its result to the next stage"""

    def __init__(self, fn, value):
        self.fn = fn
        self.value = value


class Closure:
    def __init__(self, node, env, ev):
        self.node, self.env, self.ev = node, env, ev

    def __call__(self, *args):
        env = dict(self.env)
        ps = self.node["params"]
        if len(ps) != len(args):
            raise Unknown("closure arity")
        for p, a in zip(ps, args):
            self.ev.bind(p, a, env)
        return self.ev.eval(self.node["body"], env)


def _pred(p):
    """a Rust Pattern argument: char, &str, closure, array/slice of chars"""
    if callable(p):
        return lambda c: bool(p(c))
    if isinstance(p, str) and len(p) == 1:
        return lambda c: c == p
    if isinstance(p, list) and all(isinstance(x, str) and len(x) == 1 for x in p):
        return lambda c: c in p
    raise Unknown("pattern argument")


class StrEval:
    def __init__(self, sinks=()):
        self.sinks = set(sinks)  # function names that end the pipeline: their first argument is the result

    def bind(self, pat, val, env):
        pk = pat.get("pk")
        if pk == "typed":
            ty = (pat.get("ty") or "").replace(" ", "")
            if ty in ("String", "&str") and isinstance(val, list):
                val = "".join(val)
            return self.bind(pat["inner"], val, env)
        if pk == "ident":
            env[pat["name"]] = val
            return
        if pk == "wild":
            return
        if pk == "ref":
            return self.bind(pat["inner"], val, env)
        raise Unknown("pattern %s" % pk)

    def block(self, blk, env):
        env = dict(env)
        last = None
        for st in blk["stmts"]:
            k = st["k"]
            if k == "let":
                if st.get("init") is None:
                    raise Unknown("let without init")
                self.bind(st["pat"], self.eval(st["init"], env), env)
                last = None
            elif k == "expr_stmt":
                v = self.eval(st["expr"], env)
                last = None if st.get("semi") else v
            else:
                raise Unknown("statement %s" % k)
        return last

    def eval(self, e, env):
        k = e.get("k")
        if k == "path":
            if e["path"] in env:
                return env[e["path"]]
            raise Unknown("name %s" % e["path"])
        if k == "lit":
            if e.get("ty") in ("char", "str"):
                return e["v"]
            if e.get("ty") == "bool":
                return bool(e["v"])
            if e.get("ty") == "int":
                return int(e["v"])
            raise Unknown("literal")
        if k in ("paren", "group"):
            return self.eval(e["e"], env)
        if k == "ref":
            return self.eval(e["e"], env)
        if k == "unary":
            v = self.eval(e["e"], env)
            if e["op"] == "*":
                return v
            if e["op"] == "!":
                return not v
            raise Unknown("unary")
        if k == "binary":
            op = e["op"]
            if op == "||":
                return self.eval(e["l"], env) or self.eval(e["r"], env)
            if op == "&&":
                return self.eval(e["l"], env) and self.eval(e["r"], env)
            l, r = self.eval(e["l"], env), self.eval(e["r"], env)
            if op == "==":
                return l == r
            if op == "!=":
                return l != r
            if op in ("<", "<=", ">", ">=") and type(l) is type(r):
                return {"<": l < r, "<=": l <= r, ">": l > r, ">=": l >= r}[op]
            raise Unknown("binary %s" % op)
        if k == "block":
            return self.block(e, env)
        if k == "closure":
            return Closure(e, env, self)
        if k == "array":
            return [self.eval(x, env) for x in e.get("elems", [])]
        if k == "macro" and e["name"].endswith("matches") and "matches" in e:
            m = e["matches"]
            v = self.eval(m["expr"], env)
            return self.pat_match(m["pat"], v) and (not m.get("guard") or self.eval(m["guard"], env))
        if k == "call":
            f = e["func"]
            name = f.get("path", "") if f.get("k") == "path" else ""
            short = name.split("::")[-1]
            args = [self.eval(a, env) for a in e["args"]]
            if short in self.sinks:
                raise Done(short, args[0])
            if name in ("String::from", "String::from_iter", "Vec::from_iter") and len(args) == 1:
                return "".join(args[0]) if isinstance(args[0], list) and name.startswith("String") else args[0]
            raise Unknown("call %s" % name)
        if k == "method":
            recv = self.eval(e["recv"], env)
            args = [self.eval(a, env) for a in e["args"]]
            return self.method(e, e["method"], recv, args)
        if k == "return":
            raise Unknown("return")
        raise Unknown("expr kind %s" % k)

    def pat_match(self, p, v):
        pk = p.get("pk")
        if pk == "lit":
            return p["lit"].get("v") == v
        if pk == "or":
            return any(self.pat_match(c, v) for c in p["cases"])
        if pk == "range":
            lo = p["lo"]["v"] if p.get("lo") else "\0"
            hi = p["hi"]["v"] if p.get("hi") else chr(0x10FFFF)
            return lo <= v <= hi if p.get("inclusive") else lo <= v < hi
        if pk in ("wild", "ident"):
            return True
        raise Unknown("pattern %s" % pk)

    def method(self, e, m, recv, args):
        is_s = isinstance(recv, str)
        is_l = isinstance(recv, list)
        if m in ("to_string", "to_owned", "into", "as_str", "clone", "iter", "into_iter", "copied", "cloned", "as_ref", "borrow", "deref", "by_ref") and not args:
            return recv
        if is_s and m == "chars" and not args:
            return list(recv)
        if is_s and m == "split" and len(args) == 1 and isinstance(args[0], str):
            return recv.split(args[0])
        if is_s and m == "lines" and not args:
            parts = recv.split("\n")
            if parts and parts[-1] == "":
                parts.pop()
            return [p[:-1] if p.endswith("\r") else p for p in parts]
        if is_s and m in ("trim_end_matches", "trim_start_matches", "trim_matches") and len(args) == 1:
            pr = _pred(args[0]) if not (isinstance(args[0], str) and len(args[0]) != 1) else None
            if pr is None:
                raise Unknown("string pattern")
            s = recv
            if m in ("trim_end_matches", "trim_matches"):
                while s and pr(s[-1]):
                    s = s[:-1]
            if m in ("trim_start_matches", "trim_matches"):
                while s and pr(s[0]):
                    s = s[1:]
            return s
        if is_s and m in ("trim_end", "trim_start", "trim") and not args:
            s = recv
            if m in ("trim_end", "trim"):
                while s and s[-1] in WS:
                    s = s[:-1]
            if m in ("trim_start", "trim"):
                while s and s[0] in WS:
                    s = s[1:]
            return s
        if is_s and m == "replace" and len(args) == 2 and isinstance(args[1], str):
            if isinstance(args[0], str):
                return recv.replace(args[0], args[1])
            pr = _pred(args[0])
            return "".join(args[1] if pr(c) else c for c in recv)
        if is_l and m == "filter" and len(args) == 1 and callable(args[0]):
            return [x for x in recv if args[0](x)]
        if is_l and m == "map" and len(args) == 1 and callable(args[0]):
            return [args[0](x) for x in recv]
        if is_l and m == "flat_map" and len(args) == 1 and callable(args[0]):
            out = []
            for x in recv:
                r = args[0](x)
                out.extend(list(r))
            return out
        if is_l and m == "collect" and not args:
            tf = (e.get("turbofish") or "").replace(" ", "")
            if tf.startswith("String"):
                return "".join(recv)
            return recv
        if is_l and m in ("join", "concat") and len(args) <= 1:
            sep = args[0] if args else ""
            if not all(isinstance(x, str) for x in recv) or not isinstance(sep, str):
                raise Unknown("join")
            return sep.join(recv)
        if is_s and m in ("is_whitespace",) and not args and len(recv) == 1:
            return recv in WS
        raise Unknown("method %s on %s" % (m, type(recv).__name__))

    def run_fn(self, fn_item, arg):
        """evaluate fn(arg) until a sink is called; returns (sink name, normalised text)"""
        ins = fn_item["sig"]["inputs"]
        if len(ins) != 1 or "pat" not in ins[0]:
            raise Unknown("signature")
        env = {}
        self.bind(ins[0]["pat"], arg, env)
        try:
            self.block(fn_item["body"], env)
        except Done as d:
            v = d.value
            if isinstance(v, list):
                v = "".join(v)
            if not isinstance(v, str):
                raise Unknown("sink argument")
            return d.fn, v
        raise Unknown("no sink reached")
