"""A small evaluator for string-preparation code (srcfacts syntax trees): the few lines that normalise a text
before it is handed to a grammar (`input.chars().filter(|c| *c != '\\r').collect()`, per-line trimming, joins).
It evaluates the *model* of that code on witness strings; constructs outside the enumerated subset raise
Unknown, and the calling rule fails closed."""
from .charset import Unknown

WS = set(" \t\n\r\x0b\x0c\x85\xa0     　") | {chr(c) for c in range(0x2000, 0x200b)}


class Done(Exception):
    """the pipeline handed its result to the next stage"""

    def __init__(self, fn, value):
        self.fn = fn
        self.value = value


class Return(Exception):
    def __init__(self, value):
        self.value = value


class Break(Exception):
    pass


class Continue(Exception):
    pass


class Box:
    """a mutable local (`let mut`)"""

    def __init__(self, v):
        self.v = v


class Closure:
    def __init__(self, node, env, ev):
        self.node, self.env, self.ev = node, env, ev

    def __call__(self, *args):
        env = dict(self.env)
        ps = self.node["params"]
        if len(ps) != len(args):
            raise Unknown("closure arity")
        for p, a in zip(ps, args):
            self.ev.bind(p, a, env)
        return self.ev.eval(self.node["body"], env)


def _pred(p):
    """a Rust Pattern argument: char, &str, closure, array/slice of chars"""
    if callable(p):
        return lambda c: bool(p(c))
    if isinstance(p, str) and len(p) == 1:
        return lambda c: c == p
    if isinstance(p, list) and all(isinstance(x, str) and len(x) == 1 for x in p):
        return lambda c: c in p
    raise Unknown("pattern argument")


class StrEval:
    def __init__(self, sinks=(), fns=None):
        self.sinks = set(sinks)  # function names that end the pipeline: their first argument is the result
        self.fns = fns or {}     # other functions of the module (srcfacts fn items), interpreted on call
        self.consts = {}         # module-level constants: name -> expression
        self.steps = 0

    def bind(self, pat, val, env):
        pk = pat.get("pk")
        if pk == "typed":
            ty = (pat.get("ty") or "").replace(" ", "")
            if ty in ("String", "&str") and isinstance(val, list):
                val = "".join(val)
            return self.bind(pat["inner"], val, env)
        if pk == "ident":
            env[pat["name"]] = Box(val) if pat.get("mut") else val
            return
        if pk == "tuple":
            vals = list(val)
            if len(vals) != len(pat["elems"]):
                raise Unknown("tuple pattern arity")
            for p_, v_ in zip(pat["elems"], vals):
                self.bind(p_, v_, env)
            return
        if pk == "wild":
            return
        if pk == "ref":
            return self.bind(pat["inner"], val, env)
        raise Unknown("pattern %s" % pk)

    def block(self, blk, env):
        env = dict(env)
        last = None
        for st in blk["stmts"]:
            k = st["k"]
            if k == "let":
                if st.get("init") is None:
                    raise Unknown("let without init")
                self.bind(st["pat"], self.eval(st["init"], env), env)
                last = None
            elif k == "expr_stmt":
                v = self.eval(st["expr"], env)
                last = None if st.get("semi") else v
            elif k == "const" and st.get("name") and st.get("e"):
                env[st["name"]] = self.eval(st["e"], env)
            elif k == "fn" and st.get("name"):
                self.fns = dict(self.fns)
                self.fns[st["name"]] = st
            elif k in ("use", "other_item", "fn", "const"):
                continue
            else:
                raise Unknown("statement %s" % k)
        return last

    def eval(self, e, env):
        k = e.get("k")
        self.steps += 1
        if self.steps > 2000000:
            raise Unknown("evaluation budget exceeded")
        if k == "path":
            if e["path"] in env:
                v = env[e["path"]]
                return v.v if isinstance(v, Box) else v
            if e["path"].split("::")[-1] in self.fns:
                return ("fn", e["path"].split("::")[-1])
            if e["path"] in ("None", "Option::None"):
                return ("None",)
            if e["path"].split("::")[-1] in self.consts:
                return self.eval(self.consts[e["path"].split("::")[-1]], {})
            raise Unknown("name %s" % e["path"])
        if k == "if":
            c = e["cond"]
            if c.get("k") == "let_cond":
                v = self.eval(c["e"], env)
                env2 = dict(env)
                if self.match_bind(c["pat"], v, env2):
                    return self.block(e["then"], env2)
                if e.get("else"):
                    return self.eval(e["else"], env)
                return None
            if self.eval(c, env):
                return self.block(e["then"], env)
            if e.get("else"):
                return self.eval(e["else"], env)
            return None
        if k == "match":
            v = self.eval(e["e"], env)
            for arm in e["arms"]:
                env2 = dict(env)
                if self.match_bind(arm["pat"], v, env2) and (not arm.get("guard") or self.eval(arm["guard"], env2)):
                    return self.eval(arm["body"], env2)
            raise Unknown("no match arm applies")
        if k == "for":
            it = self.eval(e["iter"], env)
            if isinstance(it, str):
                raise Unknown("for over a string")
            for item in list(it):
                env2 = dict(env)
                self.bind(e["pat"], item, env2)
                try:
                    self.block_shared(e["body"], env2)
                except Continue:
                    continue
                except Break:
                    break
            return None
        if k == "assign":
            l = e["l"]
            if l.get("k") == "path" and isinstance(env.get(l["path"]), Box):
                env[l["path"]].v = self.eval(e["r"], env)
                return None
            raise Unknown("assignment target")
        if k == "return":
            raise Return(self.eval(e["e"], env) if e.get("e") else None)
        if k == "break":
            raise Break()
        if k == "continue":
            raise Continue()
        if k == "tuple":
            return tuple(self.eval(x, env) for x in e["elems"])
        if k == "cast":
            return self.eval(e["e"], env)
        if k == "range":
            lo = self.eval(e["lo"], env) if e.get("lo") else 0
            if not e.get("hi"):
                raise Unknown("open range")
            hi = self.eval(e["hi"], env)
            return list(range(lo, hi + (1 if e.get("inclusive") else 0)))
        if k == "lit":
            if e.get("ty") in ("char", "str"):
                return e["v"]
            if e.get("ty") == "bool":
                return bool(e["v"])
            if e.get("ty") == "int":
                return int(e["v"])
            raise Unknown("literal")
        if k in ("paren", "group"):
            return self.eval(e["e"], env)
        if k == "ref":
            return self.eval(e["e"], env)
        if k == "unary":
            v = self.eval(e["e"], env)
            if e["op"] == "*":
                return v
            if e["op"] == "!":
                return not v
            raise Unknown("unary")
        if k == "binary" and e["op"] in ("+=", "-="):
            l = e["l"]
            if l.get("k") == "path" and isinstance(env.get(l["path"]), Box):
                r = self.eval(e["r"], env)
                cur = env[l["path"]].v
                if e["op"] == "+=":
                    env[l["path"]].v = (cur + r) if not isinstance(cur, list) else cur + list(r)
                else:
                    env[l["path"]].v = cur - r
                return None
            raise Unknown("compound assignment target")
        if k == "binary" and e["op"] in ("+", "-", "*") :
            l, r = self.eval(e["l"], env), self.eval(e["r"], env)
            if isinstance(l, int) and isinstance(r, int) and not isinstance(l, bool):
                return {"+": l + r, "-": l - r, "*": l * r}[e["op"]]
            if e["op"] == "+" and isinstance(l, str) and isinstance(r, str):
                return l + r
            raise Unknown("arithmetic")
        if k == "binary":
            op = e["op"]
            if op == "||":
                return self.eval(e["l"], env) or self.eval(e["r"], env)
            if op == "&&":
                return self.eval(e["l"], env) and self.eval(e["r"], env)
            l, r = self.eval(e["l"], env), self.eval(e["r"], env)
            if op == "==":
                return l == r
            if op == "!=":
                return l != r
            if op in ("<", "<=", ">", ">=") and type(l) is type(r):
                return {"<": l < r, "<=": l <= r, ">": l > r, ">=": l >= r}[op]
            raise Unknown("binary %s" % op)
        if k == "block":
            return self.block(e, env)
        if k == "closure":
            return Closure(e, env, self)
        if k == "array":
            return [self.eval(x, env) for x in e.get("elems", [])]
        if k == "macro" and e["name"].endswith("matches") and "matches" in e:
            m = e["matches"]
            v = self.eval(m["expr"], env)
            return self.pat_match(m["pat"], v) and (not m.get("guard") or self.eval(m["guard"], env))
        if k == "call":
            f = e["func"]
            name = f.get("path", "") if f.get("k") == "path" else ""
            short = name.split("::")[-1]
            args = [self.eval(a, env) for a in e["args"]]
            if short in self.sinks:
                raise Done(short, args[0])
            if short in self.fns and name.count("::") <= 1:
                return self.call_fn(self.fns[short], args)
            if name in ("Vec::new", "String::new") and not args:
                return [] if name.startswith("Vec") else ""
            if name in ("Vec::with_capacity", "String::with_capacity") and len(args) == 1:
                return [] if name.startswith("Vec") else ""
            if name in ("Some", "Option::Some") and len(args) == 1:
                return ("Some", args[0])
            if name in ("Ok", "Result::Ok") and len(args) == 1:
                return ("Ok", args[0])
            if name in ("Err", "Result::Err") and len(args) == 1:
                return ("Err", args[0])
            if name in ("String::from", "String::from_iter", "Vec::from_iter") and len(args) == 1:
                return "".join(args[0]) if isinstance(args[0], list) and name.startswith("String") else args[0]
            raise Unknown("call %s" % name)
        if k == "method":
            r0 = e["recv"]
            if e["method"] in ("push", "push_str", "extend", "clear", "extend_from_slice") and r0.get("k") == "path" and isinstance(env.get(r0["path"]), Box):
                box = env[r0["path"]]
                args = [self.eval(a, env) for a in e["args"]]
                m = e["method"]
                if m == "clear":
                    box.v = [] if isinstance(box.v, list) else ""
                elif isinstance(box.v, list):
                    box.v = box.v + ([args[0]] if m == "push" else list(args[0]))
                elif isinstance(box.v, str):
                    a0 = args[0]
                    box.v = box.v + (a0 if isinstance(a0, str) else "".join(a0))
                else:
                    raise Unknown("push on %s" % type(box.v).__name__)
                return None
            recv = self.eval(e["recv"], env)
            args = [self.eval(a, env) for a in e["args"]]
            return self.method(e, e["method"], recv, args)
        if k == "return":
            raise Unknown("return")
        raise Unknown("expr kind %s" % k)

    def match_bind(self, p, v, env):
        """refutable pattern: True and bindings added to env, or False"""
        pk = p.get("pk")
        if pk == "tuple_struct":
            name = p.get("path", "").split("::")[-1]
            if isinstance(v, tuple) and v and v[0] == name and len(p["elems"]) == len(v) - 1:
                return all(self.match_bind(q, x, env) for q, x in zip(p["elems"], v[1:]))
            return False
        if pk == "path" or (pk == "ident" and p.get("name") in ("None",)):
            name = (p.get("path") or p.get("name") or "").split("::")[-1]
            return isinstance(v, tuple) and v == (name,)
        if pk == "ident":
            if p.get("name") and p["name"][:1].isupper() and isinstance(v, tuple) and len(v) == 1:
                return v == (p["name"],)
            env[p["name"]] = Box(v) if p.get("mut") else v
            return True
        if pk == "wild":
            return True
        if pk == "tuple":
            return isinstance(v, (tuple, list)) and len(v) == len(p["elems"]) and all(self.match_bind(q, x, env) for q, x in zip(p["elems"], v))
        if pk == "ref":
            return self.match_bind(p["inner"], v, env)
        if pk in ("lit", "or", "range"):
            if pk == "or":
                return any(self.match_bind(c, v, env) for c in p["cases"])
            return self.pat_match(p, v)
        raise Unknown("pattern %s" % pk)

    def pat_match(self, p, v):
        pk = p.get("pk")
        if pk == "lit":
            return p["lit"].get("v") == v
        if pk == "or":
            return any(self.pat_match(c, v) for c in p["cases"])
        if pk == "range":
            lo = p["lo"]["v"] if p.get("lo") else "\0"
            hi = p["hi"]["v"] if p.get("hi") else chr(0x10FFFF)
            return lo <= v <= hi if p.get("inclusive") else lo <= v < hi
        if pk in ("wild", "ident"):
            return True
        raise Unknown("pattern %s" % pk)

    def method(self, e, m, recv, args):
        is_s = isinstance(recv, str)
        is_l = isinstance(recv, list)
        args = [(lambda *a, _n=x[1]: self.call_fn(self.fns[_n], list(a))) if isinstance(x, tuple) and len(x) == 2 and x[0] == "fn" else x for x in args]
        if is_l and m == "enumerate" and not args:
            return [(i, x) for i, x in enumerate(recv)]
        if (is_l or is_s) and m == "len" and not args:
            return len(recv) if is_l else len(recv.encode("utf-8"))
        if (is_l or is_s) and m == "is_empty" and not args:
            return len(recv) == 0
        if is_l and m == "rev" and not args:
            return list(reversed(recv))
        if is_s and m in ("ends_with", "starts_with") and len(args) == 1 and isinstance(args[0], str):
            return recv.endswith(args[0]) if m == "ends_with" else recv.startswith(args[0])
        if is_s and m in ("strip_suffix", "strip_prefix") and len(args) == 1 and isinstance(args[0], str):
            raise Unknown("option-returning strip")
        if m in ("to_string", "to_owned", "into", "as_str", "clone", "iter", "into_iter", "copied", "cloned", "as_ref", "borrow", "deref", "by_ref") and not args:
            return recv
        if is_s and m == "chars" and not args:
            return list(recv)
        if is_s and m == "split" and len(args) == 1 and isinstance(args[0], str):
            return recv.split(args[0])
        if is_s and m == "lines" and not args:
            parts = recv.split("\n")
            if parts and parts[-1] == "":
                parts.pop()
            return [p[:-1] if p.endswith("\r") else p for p in parts]
        if is_s and m in ("trim_end_matches", "trim_start_matches", "trim_matches") and len(args) == 1:
            pr = _pred(args[0]) if not (isinstance(args[0], str) and len(args[0]) != 1) else None
            if pr is None:
                raise Unknown("string pattern")
            s = recv
            if m in ("trim_end_matches", "trim_matches"):
                while s and pr(s[-1]):
                    s = s[:-1]
            if m in ("trim_start_matches", "trim_matches"):
                while s and pr(s[0]):
                    s = s[1:]
            return s
        if is_s and m in ("trim_end", "trim_start", "trim") and not args:
            s = recv
            if m in ("trim_end", "trim"):
                while s and s[-1] in WS:
                    s = s[:-1]
            if m in ("trim_start", "trim"):
                while s and s[0] in WS:
                    s = s[1:]
            return s
        if is_s and m == "replace" and len(args) == 2 and isinstance(args[1], str):
            if isinstance(args[0], str):
                return recv.replace(args[0], args[1])
            pr = _pred(args[0])
            return "".join(args[1] if pr(c) else c for c in recv)
        if is_l and m == "filter" and len(args) == 1 and callable(args[0]):
            return [x for x in recv if args[0](x)]
        if is_l and m == "map" and len(args) == 1 and callable(args[0]):
            return [args[0](x) for x in recv]
        if is_l and m == "flat_map" and len(args) == 1 and callable(args[0]):
            out = []
            for x in recv:
                r = args[0](x)
                out.extend(list(r))
            return out
        if is_l and m == "collect" and not args:
            tf = (e.get("turbofish") or "").replace(" ", "")
            if tf.startswith("String"):
                return "".join(recv)
            return recv
        if is_l and m in ("join", "concat") and len(args) <= 1:
            sep = args[0] if args else ""
            if not all(isinstance(x, str) for x in recv) or not isinstance(sep, str):
                raise Unknown("join")
            return sep.join(recv)
        if is_s and m in ("is_whitespace",) and not args and len(recv) == 1:
            return recv in WS
        raise Unknown("method %s on %s" % (m, type(recv).__name__))

    def block_shared(self, blk, env):
        """a loop body: runs in the given environment (mutations of outer `let mut` locals are visible through Box)"""
        return self.block(blk, env)

    def call_fn(self, fn_item, args):
        ins = fn_item["sig"]["inputs"]
        if len(ins) != len(args) or any("pat" not in i for i in ins):
            raise Unknown("call of %s" % fn_item.get("name"))
        env = {}
        for i, a in zip(ins, args):
            self.bind(i["pat"], a, env)
        try:
            return self.block(fn_item["body"], env)
        except Return as r:
            return r.value

    def run_fn(self, fn_item, arg):
        """evaluate fn(arg) until a sink is called; returns (sink name, normalised text)"""
        ins = fn_item["sig"]["inputs"]
        if len(ins) != 1 or "pat" not in ins[0]:
            raise Unknown("signature")
        env = {}
        self.bind(ins[0]["pat"], arg, env)
        try:
            try:
                self.block(fn_item["body"], env)
            except Return:
                pass
        except Done as d:
            v = d.value
            if isinstance(v, list):
                v = "".join(v)
            if not isinstance(v, str):
                raise Unknown("sink argument")
            return d.fn, v
        raise Unknown("no sink reached")
