"""K — exact character-set interpreter: interval sets over Unicode scalar values and an evaluator for
`fn(char) -> bool` predicates and `match ch {..}` tables taken from the syntax tree (srcfacts)."""

MAXC = 0x10FFFF
SUR_LO, SUR_HI = 0xD800, 0xDFFF


class CS:
    """sorted disjoint closed intervals of scalar values (surrogates never included)"""
    __slots__ = ("iv",)

    def __init__(self, iv=()):
        self.iv = self._norm(iv)

    @staticmethod
    def _norm(iv):
        out = []
        for lo, hi in sorted(iv):
            # cut the surrogate gap
            parts = []
            if hi < SUR_LO or lo > SUR_HI:
                parts.append((lo, hi))
            else:
                if lo < SUR_LO:
                    parts.append((lo, SUR_LO - 1))
                if hi > SUR_HI:
                    parts.append((SUR_HI + 1, hi))
            for a, b in parts:
                if a > b:
                    continue
                if out and a <= out[-1][1] + 1:
                    out[-1] = (out[-1][0], max(out[-1][1], b))
                else:
                    out.append((a, b))
        # merge across the surrogate gap is not done: D7FF and E000 stay separate intervals
        return tuple(out)

    @classmethod
    def of(cls, *chars):
        return cls([(ord(c) if isinstance(c, str) else c,) * 2 for c in chars])

    @classmethod
    def rng(cls, lo, hi):
        return cls([(lo, hi)])

    @classmethod
    def all(cls):
        return cls([(0, MAXC)])

    def __or__(self, o):
        return CS(self.iv + o.iv)

    def __and__(self, o):
        out = []
        i = j = 0
        a, b = self.iv, o.iv
        while i < len(a) and j < len(b):
            lo = max(a[i][0], b[j][0])
            hi = min(a[i][1], b[j][1])
            if lo <= hi:
                out.append((lo, hi))
            if a[i][1] < b[j][1]:
                i += 1
            else:
                j += 1
        return CS(out)

    def __invert__(self):
        out = []
        prev = 0
        for lo, hi in self.iv:
            if lo > prev:
                out.append((prev, lo - 1))
            prev = hi + 1
        if prev <= MAXC:
            out.append((prev, MAXC))
        return CS(out)

    def __sub__(self, o):
        return self & ~o

    def __bool__(self):
        return bool(self.iv)

    def __eq__(self, o):
        return isinstance(o, CS) and self.iv == o.iv

    def __hash__(self):
        return hash(self.iv)

    def __contains__(self, c):
        import bisect
        c = ord(c) if isinstance(c, str) else c
        i = bisect.bisect_right(self.iv, (c, MAXC + 1)) - 1
        return i >= 0 and self.iv[i][0] <= c <= self.iv[i][1]

    def count(self):
        return sum(hi - lo + 1 for lo, hi in self.iv)

    def sample(self, n=6):
        out = []
        for lo, hi in self.iv:
            out.append(lo)
            if len(out) >= n:
                break
        return ["U+%04X" % c for c in out]

    def describe(self, n=8):
        parts = []
        for lo, hi in self.iv[:n]:
            parts.append("U+%04X" % lo if lo == hi else "U+%04X-U+%04X" % (lo, hi))
        if len(self.iv) > n:
            parts.append("… (%d intervals)" % len(self.iv))
        return "{" + ", ".join(parts) + "}"


def low_byte_preimage(bytes_set):
    """{c | (c as u8) in bytes_set}: `as u8` truncates to the low byte"""
    iv = []
    runs = []
    s = sorted(bytes_set)
    for b in s:
        if runs and b == runs[-1][1] + 1:
            runs[-1] = (runs[-1][0], b)
        else:
            runs.append((b, b))
    for base in range(0, MAXC + 1, 256):
        for lo, hi in runs:
            iv.append((base + lo, min(base + hi, MAXC)))
    return CS(iv)


ALPHA8 = set(range(ord("a"), ord("z") + 1)) | set(range(ord("A"), ord("Z") + 1))
DIGIT8 = set(range(ord("0"), ord("9") + 1))
POM_CLASS = {
    "alpha": ALPHA8,
    "digit": DIGIT8,
    "alphanum": ALPHA8 | DIGIT8,
    "hex_digit": DIGIT8 | set(range(ord("a"), ord("f") + 1)) | set(range(ord("A"), ord("F") + 1)),
    "oct_digit": set(range(ord("0"), ord("8"))),
    "space": {ord(" "), ord("\t")},
    "multispace": {ord(" "), ord("\t"), ord("\n"), ord("\r")},
}

XML_CHAR = CS([(0x9, 0xA), (0xD, 0xD), (0x20, 0xD7FF), (0xE000, 0xFFFD), (0x10000, 0x10FFFF)])
NON_XML = ~XML_CHAR
# White_Space property (char::is_whitespace)
WHITESPACE = CS([(0x9, 0xD), (0x20, 0x20), (0x85, 0x85), (0xA0, 0xA0), (0x1680, 0x1680), (0x2000, 0x200A),
                 (0x2028, 0x2029), (0x202F, 0x202F), (0x205F, 0x205F), (0x3000, 0x3000)])


class Unknown(Exception):
    pass


class PredEval:
    """evaluates boolean expressions over one char variable to the exact set of chars that satisfy them.
    `fns` maps local function names to their srcfacts fn items (single char parameter, bool result)."""

    def __init__(self, fns):
        self.fns = fns

    def fn_set(self, name, depth=0):
        f = self.fns.get(name)
        if f is None:
            raise Unknown("unknown predicate fn " + name)
        inputs = f["sig"]["inputs"]
        if len(inputs) != 1 or "pat" not in inputs[0]:
            raise Unknown("predicate %s does not take one char" % name)
        var = inputs[0]["pat"].get("name")
        stmts = f["body"]["stmts"]
        if len(stmts) != 1 or stmts[0]["k"] != "expr_stmt" or stmts[0]["semi"]:
            raise Unknown("predicate %s is not a single expression" % name)
        return self.eval(stmts[0]["expr"], var, depth + 1)

    def is_var(self, e, var):
        return e.get("k") == "path" and e.get("path") == var

    def eval(self, e, var, depth=0):
        if depth > 20:
            raise Unknown("too deep")
        k = e.get("k")
        if k == "binary":
            op = e["op"]
            if op == "||":
                return self.eval(e["l"], var, depth + 1) | self.eval(e["r"], var, depth + 1)
            if op == "&&":
                return self.eval(e["l"], var, depth + 1) & self.eval(e["r"], var, depth + 1)
            if op in ("==", "!=", "<", "<=", ">", ">="):
                l, r = e["l"], e["r"]
                if self.is_var(r, var) and l.get("k") == "lit":
                    l, r = r, l
                    op = {"<": ">", "<=": ">=", ">": "<", ">=": "<="}.get(op, op)
                if self.is_var(l, var) and r.get("k") == "lit" and r.get("ty") == "char":
                    c = r["cp"]
                    if op == "==":
                        return CS.of(c)
                    if op == "!=":
                        return ~CS.of(c)
                    if op == "<":
                        return CS.rng(0, c - 1)
                    if op == "<=":
                        return CS.rng(0, c)
                    if op == ">":
                        return CS.rng(c + 1, MAXC)
                    if op == ">=":
                        return CS.rng(c, MAXC)
            raise Unknown("binary " + op)
        if k == "unary" and e["op"] == "!":
            return ~self.eval(e["e"], var, depth + 1)
        if k == "lit" and e.get("ty") == "bool":
            return CS.all() if e["v"] else CS()
        if k == "macro" and e["name"].endswith("matches") and "matches" in e:
            m = e["matches"]
            if not self.is_var(m["expr"], var):
                raise Unknown("matches! on something else")
            s = self.pat_set(m["pat"])
            if m.get("guard"):
                s = s & self.eval(m["guard"], var, depth + 1)
            return s
        if k == "call":
            f = e["func"]
            if f.get("k") == "path":
                name = f["path"]
                args = e["args"]
                short = name.split("::")[-1]
                if "char_class" in name and short in POM_CLASS and len(args) == 1:
                    a = args[0]
                    if a.get("k") == "cast" and a["ty"].replace(" ", "") == "u8" and self.is_var(a["e"], var):
                        return low_byte_preimage(POM_CLASS[short])
                    raise Unknown("char_class argument")
                if len(args) == 1 and self.is_var(args[0], var) and short in self.fns:
                    return self.fn_set(short, depth + 1)
            raise Unknown("call")
        if k == "method" and self.is_var(e["recv"], var) and not e["args"]:
            m = e["method"]
            if m == "is_whitespace":
                return WHITESPACE
            if m == "is_ascii_digit":
                return CS.rng(0x30, 0x39)
            if m == "is_ascii_alphabetic":
                return CS([(0x41, 0x5A), (0x61, 0x7A)])
            if m == "is_ascii_alphanumeric":
                return CS([(0x30, 0x39), (0x41, 0x5A), (0x61, 0x7A)])
            if m == "is_ascii":
                return CS.rng(0, 0x7F)
            if m == "is_ascii_control":
                return CS([(0, 0x1F), (0x7F, 0x7F)])
            if m == "is_control":
                return CS([(0, 0x1F), (0x7F, 0x9F)])
            raise Unknown("method " + m)
        if k == "block" and len(e["stmts"]) == 1 and e["stmts"][0]["k"] == "expr_stmt":
            return self.eval(e["stmts"][0]["expr"], var, depth + 1)
        raise Unknown("expr kind %s" % k)

    def pat_set(self, p):
        pk = p.get("pk")
        if pk == "lit" and p["lit"].get("ty") == "char":
            return CS.of(p["lit"]["cp"])
        if pk == "range":
            lo = p["lo"]["cp"] if p.get("lo") else 0
            hi = p["hi"]["cp"] if p.get("hi") else MAXC
            if not p.get("inclusive"):
                hi -= 1
            return CS.rng(lo, hi)
        if pk == "or":
            s = CS()
            for c in p["cases"]:
                s = s | self.pat_set(c)
            return s
        if pk in ("wild", "ident"):
            return CS.all()
        raise Unknown("pattern " + str(pk))


ENTITIES = {"&lt;": "<", "&gt;": ">", "&amp;": "&", "&quot;": '"', "&apos;": "'"}


def decode_entity(s):
    """the single character an XML entity/char reference denotes, else None"""
    if s in ENTITIES:
        return ENTITIES[s]
    if s.startswith("&#") and s.endswith(";"):
        body = s[2:-1]
        try:
            cp = int(body[1:], 16) if body[:1] in ("x",) else int(body)
            return chr(cp)
        except (ValueError, OverflowError):
            return None
    return None
