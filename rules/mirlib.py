"""Program model over the mirfacts JSON: bodies, call graph, reachability, dominators,
control dependence, flow-insensitive dependence slices, field read/write census."""
import re
from collections import defaultdict, deque


class Program:
    def __init__(self, crates):
        self.crates = crates
        self.bodies = {}
        self.promoted = {}  # `<fn path>::promoted[i]` -> body of the promoted constant
        self.statics = {}
        self.adts = {}
        self.impls = []
        self.loops = []
        self.unsafe_blocks = []
        self.unsafe_items = []
        for cname, c in crates.items():
            for p, b in c["bodies"].items():
                b["path"] = p
                b["crate"] = cname
                self.bodies[p] = b
            for p, b in c.get("promoted", {}).items():
                b["path"] = p
                b["crate"] = cname
                self.promoted[p] = b
            for p, s in c["statics"].items():
                s["crate"] = cname
                self.statics[p] = s
            for p, a in c["adts"].items():
                a["crate"] = cname
                self.adts[p] = a
            for i in c["impls"]:
                i["crate"] = cname
                self.impls.append(i)
            for l in c["loops"]:
                l["crate"] = cname
                self.loops.append(l)
            for u in c["unsafe_blocks"]:
                u["crate"] = cname
                self.unsafe_blocks.append(u)
            for u in c["unsafe_items"]:
                u["crate"] = cname
                self.unsafe_items.append(u)
        self._edges = None
        self._cfg = {}
        self._slicers = {}

    # ------------------------------------------------------------------ lookup helpers
    def find_bodies(self, regex):
        r = re.compile(regex)
        return [p for p in self.bodies if r.search(p)]

    def body(self, path):
        return self.bodies[path]

    def one(self, regex):
        """exactly one body whose path matches regex, else None"""
        m = self.find_bodies(regex)
        return m[0] if len(m) == 1 else None

    def methods(self, name, self_re=None, trait_re=None, closures=False):
        """bodies that are associated fns called `name` of an impl whose self type / trait match"""
        out = []
        for p, b in self.bodies.items():
            if b.get("assoc_name") != name:
                continue
            if self_re is not None and not re.search(self_re, b.get("impl_self") or ""):
                continue
            if trait_re is not None:
                if trait_re == "" and b.get("impl_trait"):
                    continue
                if trait_re != "" and not re.search(trait_re, b.get("impl_trait") or ""):
                    continue
            out.append(p)
        return out

    def method(self, name, self_re=None, trait_re=None):
        m = self.methods(name, self_re, trait_re)
        return m[0] if len(m) == 1 else None

    def closures_of(self, path):
        out = [p for p in self.bodies if p.startswith(path + "::{closure#")]
        for h in (self.bodies.get(path) or {}).get("inlined") or []:
            out += [p for p in self.bodies if p.startswith(h + "::{closure#")]
        return sorted(out)

    # ------------------------------------------------------------------ calls
    def calls(self, path):
        """yield (block_id, term) for call terminators of a body"""
        for blk in self.bodies[path]["blocks"]:
            t = blk["term"]
            if t["k"] in ("call", "tailcall"):
                yield blk["id"], t

    @staticmethod
    def callee_name(t):
        c = t["callee"]
        return c.get("resolved") or c.get("path") or ("<indirect:%s>" % c.get("indirect"))

    @staticmethod
    def callee_decl(t):
        return t["callee"].get("path")

    def all_operands(self, path):
        """every operand appearing in a body: yields (block_id, where, operand)"""
        for blk in self.bodies[path]["blocks"]:
            for st in blk["stmts"]:
                rv = st.get("rv")
                if rv:
                    for op in rv.get("ops", []):
                        yield blk["id"], st, op
            t = blk["term"]
            for op in t.get("args", []):
                yield blk["id"], t, op
            if t["k"] == "switch":
                yield blk["id"], t, t["on"]
            if t["k"] == "call" and "op" in t["callee"]:
                yield blk["id"], t, t["callee"]["op"]

    # ------------------------------------------------------------------ call graph
    def edges(self):
        if self._edges is not None:
            return self._edges
        E = defaultdict(set)
        for p, b in self.bodies.items():
            for blk in b["blocks"]:
                for st in blk["stmts"]:
                    rv = st.get("rv")
                    if not rv:
                        continue
                    if rv.get("k") == "agg" and rv.get("agg") in ("closure", "coroutine", "coroutine_closure"):
                        E[p].add(rv["closure"])
                t = blk["term"]
                if t["k"] in ("call", "tailcall"):
                    c = t["callee"]
                    for key in ("resolved", "path"):
                        if c.get(key):
                            E[p].add(c[key])
            for _, _, op in self.all_operands(p):
                if isinstance(op, dict) and "const" in op:
                    k = op["const"]
                    if k.get("fn"):
                        E[p].add(k["fn"])
                    if k.get("closure"):
                        E[p].add(k["closure"])
                    if k.get("static"):
                        E[p].add(k["static"])
        # calls into generic code of dependencies (std, itertools, sauron...) call back into the trait
        # impls of the workspace types they are instantiated with (Ord::cmp from sort, From::from
        # from Into::into, Display::fmt from to_string, ...): over-approximate by an edge to every
        # trait-impl method of every workspace ADT named in the callee's generic arguments.
        trait_impls = defaultdict(set)
        for p, b in self.bodies.items():
            if b.get("impl_trait") and b.get("impl_self"):
                head = b["impl_self"].split("<")[0].lstrip("&").strip()
                if head in self.adts:  # impls on foreign types (Vec<..>, Node<..>) are reached through From/Into only
                    trait_impls[head].add(p)
        from_impls = [p for p, b in self.bodies.items() if b.get("assoc_name") == "from" and (b.get("impl_trait") or "").startswith("core::convert::From<")]
        ws = set(self.crates)
        path_re = re.compile(r"[A-Za-z_][A-Za-z0-9_]*(?:::[A-Za-z_][A-Za-z0-9_]*)+")
        for p, b in self.bodies.items():
            for blk in b["blocks"]:
                t = blk["term"]
                if t["k"] not in ("call", "tailcall"):
                    continue
                c = t["callee"]
                tgt = c.get("resolved") or c.get("path")
                if tgt in self.bodies:
                    continue
                decl = c.get("path") or ""
                gens = c.get("generics") or []
                if decl in ("core::convert::Into::into", "core::convert::From::from") and len(gens) == 2:
                    # precise: Into<U> for T  ==>  <U as From<T>>::from
                    norm = lambda x: re.sub(r"'[a-z_]+ ?", "", x).replace(" ", "")
                    t_, u_ = (gens[0], gens[1]) if decl.endswith("into") else (gens[1], gens[0])
                    hit = False
                    for q in from_impls:
                        bq = self.bodies[q]
                        if norm(bq.get("impl_self") or "").split("<")[0] == norm(u_).split("<")[0] and \
                                norm(bq.get("impl_trait") or "") == norm("core::convert::From<%s>" % t_):
                            E[p].add(q)
                            hit = True
                    if hit:
                        continue
                fmt_like = re.search(r"fmt|to_string|format|panic|assert|print|write|Debug|Display", tgt or "") is not None or \
                    re.search(r"result::Result::<T, E>::(unwrap|expect)", tgt or "") is not None   # Option::unwrap/expect format nothing of T
                for g in (c.get("generics") or []) + [c.get("impl_self") or ""]:
                    for ty in path_re.findall(g):
                        if ty in trait_impls:
                            for q in trait_impls[ty]:
                                tr = self.bodies[q].get("impl_trait") or ""
                                if re.search(r"fmt::(Display|Debug)", tr) and not fmt_like:
                                    continue
                                E[p].add(q)
        self._edges = E
        return E

    def reachable(self, roots):
        E = self.edges()
        seen = set()
        dq = deque(r for r in roots)
        parent = {}
        while dq:
            x = dq.popleft()
            if x in seen:
                continue
            seen.add(x)
            for y in E.get(x, ()):  # only workspace bodies have out-edges
                if y not in seen:
                    parent.setdefault(y, x)
                    dq.append(y)
        self._parent = parent
        return seen

    def path_to(self, target, parent=None):
        parent = parent or getattr(self, "_parent", {})
        out = [target]
        while out[-1] in parent:
            out.append(parent[out[-1]])
            if len(out) > 50:
                break
        return list(reversed(out))

    def callers(self, target):
        out = []
        for p in self.bodies:
            for bid, t in self.calls(p):
                c = t["callee"]
                if c.get("resolved") == target or c.get("path") == target:
                    out.append((p, bid, t))
        return out

    # ------------------------------------------------------------------ CFG
    # ------------------------------------------------------------------ MIR-level inlining of single-use helpers
    def inline_single_use_helpers(self, root, skip=None, max_rounds=6, allow_option=False, same_file=False, skip_ret=None):
        """Splice into `root` the bodies of the crate-local, non-public functions that `root` calls and that have
        exactly one call site in the whole program (helpers extracted for readability), so that rules anchored in
        `root` see the same statements whether or not the code was split into helpers.  Functions returning
        Result/Option (error-propagating units), recursive ones and names matching `skip` are left alone.
        Returns the list of inlined paths (also stored in the body as `inlined`)."""
        import copy
        if root not in self.bodies:
            return []
        crate = self.bodies[root].get("crate")
        done = list(self.bodies[root].get("inlined") or [])
        for _ in range(max_rounds):
            body = self.bodies[root]
            # call-site census over the whole program
            count = {}
            for p in self.bodies:
                for _, t in self.calls(p):
                    n = self.callee_name(t)
                    count[n] = count.get(n, 0) + 1
            target = None
            for blk in body["blocks"]:
                t = blk["term"]
                if t["k"] != "call" or blk.get("cleanup"):
                    continue
                n = self.callee_name(t)
                k = self.bodies.get(n)
                if (k is None or n == root or k.get("crate") != crate or str(k.get("vis")) == "Public" or count.get(n) != 1
                        or (n.rsplit("::", 1)[0] != root.rsplit("::", 1)[0] and not (
                            same_file and (k.get("span") or {}).get("file") == (body.get("span") or {}).get("file")))  # helpers of the same impl (or file)
                        or "{closure" in n or (skip and re.search(skip, n)) or n in done or not t.get("targets")):
                    continue
                rty = k["locals"][0]["ty"]
                if not allow_option and (rty.startswith("core::result::Result") or rty.startswith("core::option::Option")):
                    continue
                if skip_ret and re.search(skip_ret, rty):
                    continue   # e.g. boolean predicates: better decided as functions (exprs.bool_function) than spliced
                if len(t["args"]) != k["argc"]:
                    continue
                if any(self.callee_name(tt) == n for _, tt in self.calls(n)):
                    continue
                target = (blk, t, n, k)
                break
            if target is None:
                break
            blk, t, n, k = target
            new = copy.deepcopy(body)
            loff = len(new["locals"])
            boff = len(new["blocks"])

            def remap(x):
                if isinstance(x, dict):
                    if "l" in x and "p" in x and isinstance(x["l"], int) and isinstance(x["p"], list):
                        return {"l": x["l"] + loff, "p": [({"i": pr["i"] + loff} if isinstance(pr, dict) and set(pr) == {"i"} else remap(pr)) for pr in x["p"]]}
                    return {kk: remap(vv) for kk, vv in x.items()}
                if isinstance(x, list):
                    return [remap(v) for v in x]
                return x

            for l in k["locals"]:
                nl = dict(l)
                nl["id"] = l["id"] + loff
                new["locals"].append(nl)
            nblk = next(b_ for b_ in new["blocks"] if b_["id"] == blk["id"])
            for i, a in enumerate(t["args"]):
                nblk["stmts"].append({"dst": {"l": loff + i + 1, "p": []}, "rv": {"k": "use", "ops": [a]}, "span": t.get("span")})
            ret_target = t["targets"][0]
            nblk["term"] = {"k": "goto", "targets": [boff]}
            for kb in k["blocks"]:
                cb = remap(copy.deepcopy(kb))
                cb["id"] = kb["id"] + boff
                tt = cb["term"]
                if tt.get("targets"):
                    tt["targets"] = [x + boff for x in tt["targets"]]
                if tt.get("unwind") is not None:
                    tt["unwind"] = tt["unwind"] + boff
                if tt["k"] == "return":
                    cb["stmts"].append({"dst": t["dst"], "rv": {"k": "use", "ops": [{"move": {"l": loff, "p": []}}]}, "span": t.get("span")})
                    cb["term"] = {"k": "goto", "targets": [ret_target]}
                elif tt["k"] == "resume" and t.get("unwind") is not None:
                    cb["term"] = {"k": "goto", "targets": [t["unwind"]]}
                new["blocks"].append(cb)
            done.append(n)
            new["inlined"] = list(done)
            self.bodies[root] = new
            # the helper had this single call site: its stand-alone body is dead now and must not be counted twice by
            # censuses over all bodies
            self.__dict__.setdefault("dead_bodies", {})[n] = self.bodies.pop(n)
            # the crate entry of the body lists must see the new body as well
            for c in self.crates.values() if isinstance(getattr(self, "crates", None), dict) else []:
                for key in ("bodies",):
                    if isinstance(c.get(key), dict) and root in c[key]:
                        c[key][root] = new
            self._edges = None
            self._cfg.pop(root, None)
            self._slicers.pop(root, None)
        return done

    def cfg(self, path):
        if path in self._cfg:
            return self._cfg[path]
        g = CFG(self.bodies[path] if path in self.bodies else self.promoted[path])
        self._cfg[path] = g
        return g

    def slicer(self, path):
        if path not in self._slicers:
            self._slicers[path] = Slicer(self, path)
        return self._slicers[path]


class CFG:
    """non-cleanup control-flow graph of a body with dominators and post-dominators"""

    def __init__(self, body):
        self.body = body
        blocks = body["blocks"]
        self.n = len(blocks)
        self.succ = {}
        self.cleanup = set()
        for blk in blocks:
            if blk["cleanup"]:
                self.cleanup.add(blk["id"])
        for blk in blocks:
            i = blk["id"]
            if i in self.cleanup:
                self.succ[i] = []
                continue
            t = blk["term"]
            self.succ[i] = [x for x in t.get("targets", []) if x not in self.cleanup]
        # `unreachable` blocks (the impossible third target of a switch on an Option/bool discriminant) are not exits:
        # an edge into them would make every block after a `for` loop control dependent on the loop header
        dead = {blk["id"] for blk in blocks if blk["term"]["k"] == "unreachable" and not blk["stmts"]}
        for i in self.succ:
            if dead and any(x in dead for x in self.succ[i]):
                self.succ[i] = [x for x in self.succ[i] if x not in dead]
        self.pred = defaultdict(list)
        for a, ss in self.succ.items():
            for s in ss:
                self.pred[s].append(a)
        self.EXIT = self.n
        self.reach = self._reach(0, self.succ)
        self.idom = self._dominators(0, self.succ, self.pred)
        # post-dominators on the reversed graph with a virtual exit joined from every block
        # without successors (return, unreachable, diverging calls)
        rsucc = defaultdict(list)
        rpred = defaultdict(list)
        for a in self.reach:
            ss = self.succ[a]
            if not ss:
                rsucc[self.EXIT].append(a)
                rpred[a].append(self.EXIT)
            for s in ss:
                rsucc[s].append(a)
                rpred[a].append(s)
        self.ipdom = self._dominators(self.EXIT, rsucc, rpred)

    @staticmethod
    def _reach(root, succ):
        seen = set()
        st = [root]
        while st:
            x = st.pop()
            if x in seen:
                continue
            seen.add(x)
            st.extend(succ.get(x, []))
        return seen

    @staticmethod
    def _dominators(root, succ, pred):
        # Cooper-Harvey-Kennedy
        order = []
        seen = set()

        def dfs(r):
            stack = [(r, iter(succ.get(r, [])))]
            seen.add(r)
            while stack:
                x, it = stack[-1]
                adv = False
                for y in it:
                    if y not in seen:
                        seen.add(y)
                        stack.append((y, iter(succ.get(y, []))))
                        adv = True
                        break
                if not adv:
                    order.append(x)
                    stack.pop()

        dfs(root)
        rpo = list(reversed(order))
        idx = {b: i for i, b in enumerate(rpo)}
        idom = {root: root}

        def inter(a, b):
            while a != b:
                while idx[a] > idx[b]:
                    a = idom[a]
                while idx[b] > idx[a]:
                    b = idom[b]
            return a

        changed = True
        while changed:
            changed = False
            for b in rpo[1:]:
                ps = [p for p in pred.get(b, []) if p in idom]
                if not ps:
                    continue
                new = ps[0]
                for p in ps[1:]:
                    new = inter(p, new)
                if idom.get(b) != new:
                    idom[b] = new
                    changed = True
        return idom

    def dominates(self, a, b):
        """a dominates b"""
        if b not in self.idom:
            return False
        x = b
        while True:
            if x == a:
                return True
            nx = self.idom.get(x)
            if nx is None or nx == x:
                return x == a
            x = nx

    def postdominates(self, a, b):
        """a post-dominates b"""
        if b not in self.ipdom:
            return False
        x = b
        while True:
            if x == a:
                return True
            nx = self.ipdom.get(x)
            if nx is None or nx == x:
                return x == a
            x = nx

    def control_deps(self, b):
        """set of (branch_block, successor) edges that block b is control dependent on (transitively
        closed: includes the controlling branches of the controlling branches)"""
        out = set()
        work = [b]
        seen = set()
        while work:
            x = work.pop()
            if x in seen:
                continue
            seen.add(x)
            for a in self.reach:
                ss = self.succ[a]
                if len(ss) < 2:
                    continue
                for s in ss:
                    if self.postdominates(x, s) and not (x != a and self.postdominates(x, a)):
                        if (a, s) not in out:
                            out.add((a, s))
                            work.append(a)
        return out

    def direct_control_deps(self, b):
        out = set()
        for a in self.reach:
            ss = self.succ[a]
            if len(ss) < 2:
                continue
            for s in ss:
                if self.postdominates(b, s) and not (b != a and self.postdominates(b, a)):
                    out.add((a, s))
        return out

    def reachable_from(self, start, removed=()):
        removed = set(removed)
        seen = set()
        st = [start]
        while st:
            x = st.pop()
            if x in seen or x in removed:
                continue
            seen.add(x)
            st.extend(self.succ.get(x, []))
        return seen

    def paths_avoid(self, start, goal, removed):
        """is goal reachable from start when blocks in `removed` are deleted?"""
        return goal in self.reachable_from(start, removed)


# ---------------------------------------------------------------------- places / operands
def op_place(op):
    if isinstance(op, dict):
        return op.get("copy") or op.get("move")
    return None


def op_const(op):
    if isinstance(op, dict):
        return op.get("const")
    return None


def place_fields(place):
    """names of the field projections of a place, outermost first"""
    out = []
    for pr in place["p"]:
        if isinstance(pr, dict) and "f" in pr:
            out.append(pr.get("name") if pr.get("name") is not None else str(pr["f"]))
    return out


def place_str(place):
    s = "_%d" % place["l"]
    for pr in place["p"]:
        if pr == "*":
            s = "(*%s)" % s
        elif isinstance(pr, dict) and "f" in pr:
            s += "." + (pr.get("name") or str(pr["f"]))
        elif isinstance(pr, dict) and "d" in pr:
            s += " as %s" % pr.get("name")
        elif isinstance(pr, dict) and "i" in pr:
            s += "[_%d]" % pr["i"]
        else:
            s += "[..]"
    return s


class Origin(tuple):
    """('param', i, fields) | ('const', repr) | ('call', callee, block) | ('static', path) |
    ('unknown', why)"""
    __slots__ = ()


class Slicer:
    """flow-insensitive backward dependence slices over one body"""

    def __init__(self, prog, path):
        self.prog = prog
        self.path = path
        self.body = prog.bodies[path] if path in prog.bodies else prog.promoted[path]
        self.argc = self.body["argc"]
        self.defs = defaultdict(list)  # local -> list of (kind, payload, block)
        self.mutref = defaultdict(set)  # local holding &mut -> base locals it may point to
        self.refof = defaultdict(set)  # local holding a ref -> (base local, place)
        self._build()
        self._memo = {}

    def _build(self):
        b = self.body
        for blk in b["blocks"]:
            if blk["cleanup"]:
                continue
            for st in blk["stmts"]:
                rv = st.get("rv")
                if not rv:
                    continue
                dst = st["dst"]
                self.defs[dst["l"]].append(("assign", st, blk["id"]))
                if rv["k"] in ("refmut", "rawptr"):
                    self.mutref[dst["l"]].add(rv["place"]["l"])
                if rv["k"] in ("ref", "refmut"):
                    self.refof[dst["l"]].add(rv["place"]["l"])
            t = blk["term"]
            if t["k"] == "call":
                self.defs[t["dst"]["l"]].append(("call", t, blk["id"]))
        # propagate &mut targets through plain moves/copies of references (and reborrows)
        changed = True
        it = 0
        while changed and it < 10:
            changed = False
            it += 1
            for l, ds in list(self.defs.items()):
                for kind, d, _ in ds:
                    if kind != "assign":
                        continue
                    rv = d["rv"]
                    srcs = []
                    if rv["k"] in ("use", "cast"):
                        for op in rv["ops"]:
                            pl = op_place(op)
                            if pl is not None:
                                srcs.append(pl["l"])
                    elif rv["k"] in ("refmut", "ref") and "*" in rv["place"]["p"]:
                        srcs.append(rv["place"]["l"])  # reborrow through another reference
                    for s in srcs:
                        if s in self.mutref and not self.mutref[s] <= self.mutref[l]:
                            self.mutref[l] |= self.mutref[s]
                            changed = True
        # a call that receives a &mut (or a reference to a local that is later read) defines the referent
        self.calldefs = defaultdict(list)
        for blk in b["blocks"]:
            if blk["cleanup"]:
                continue
            t = blk["term"]
            if t["k"] != "call":
                continue
            for op, ty in zip(t["args"], t.get("arg_tys", [])):
                pl = op_place(op)
                if pl is None:
                    continue
                if ty.startswith("&mut") or ty.startswith("*mut"):
                    targets = set(self.mutref.get(pl["l"], ()))
                    if "*" in pl["p"] or not targets:
                        targets.add(pl["l"])
                    for tg in targets:
                        self.calldefs[tg].append(("call", t, blk["id"]))
        for l, ds in self.calldefs.items():
            self.defs[l].extend(ds)

    # -------------------------------------------------------------- slices
    def slice_operand(self, op, fieldpath=None):
        c = op_const(op)
        if c is not None:
            if c.get("static"):
                return {("static", c["static"])}
            if c.get("fn"):
                return {("fnref", c["fn"])}
            return {("const", c.get("val"))}
        pl = op_place(op)
        if pl is None:
            return {("unknown", "operand")}
        return self.slice_place(pl)

    def slice_place(self, pl):
        out = set()
        fields = tuple(place_fields(pl))
        l = pl["l"]
        # index locals contribute too
        for pr in pl["p"]:
            if isinstance(pr, dict) and "i" in pr:
                out |= self.slice_local(pr["i"])
        if 1 <= l <= self.argc:
            out.add(("param", l, fields))
        out |= self.slice_local(l, fields)
        return out

    def slice_local(self, l, want_fields=()):
        key = (l, want_fields)
        if key in self._memo:
            return self._memo[key]
        self._memo[key] = set()  # cycle cut
        out = set()
        if 1 <= l <= self.argc:
            out.add(("param", l, tuple(want_fields)))
        for kind, d, bid in self.defs.get(l, ()):
            if kind == "assign":
                dst = d["dst"]
                rv = d["rv"]
                dfields = tuple(place_fields(dst))
                # field sensitivity: a write to a *different* field of the same local is irrelevant
                if want_fields and dfields:
                    n = min(len(want_fields), len(dfields))
                    if tuple(want_fields[:n]) != tuple(dfields[:n]):
                        continue
                k = rv["k"]
                if k == "agg" and want_fields and not dfields and rv.get("agg") in ("adt", "tuple"):
                    # pick the operand of the wanted field
                    names = rv.get("fields") if rv.get("agg") == "adt" else [str(i) for i in range(len(rv["ops"]))]
                    if names and want_fields[0] in names:
                        idx = names.index(want_fields[0])
                        if idx < len(rv["ops"]):
                            sub = self.slice_operand(rv["ops"][idx])
                            out |= sub
                            continue
                if k in ("ref", "refmut", "rawptr", "discr"):
                    out |= self.slice_place(rv["place"])
                elif k == "setdiscr":
                    pass
                else:
                    for op in rv.get("ops", []):
                        out |= self.slice_operand(op)
                    if k == "agg" and rv.get("agg") in ("closure", "coroutine"):
                        out.add(("closure", rv["closure"]))
            else:  # call
                t = d
                out.add(("call", Program.callee_name(t), bid))
                for op in t["args"]:
                    out |= self.slice_operand(op)
                if "op" in t["callee"]:
                    out |= self.slice_operand(t["callee"]["op"])
        self._memo[key] = out
        return out

    def forward_uses(self, l):
        """consumers of local l, following plain copies/moves/casts into temporaries:
        list of (stmt_or_term, operand_index_or_None)"""
        out = []
        seen = set()
        work = [l]
        prog, path = self.prog, self.path
        while work:
            x = work.pop()
            if x in seen:
                continue
            seen.add(x)
            for blk in self.body["blocks"]:
                if blk["cleanup"]:
                    continue
                for st in blk["stmts"]:
                    rv = st.get("rv")
                    if not rv:
                        continue
                    used = [i for i, op in enumerate(rv.get("ops", [])) if (op_place(op) or {}).get("l") == x]
                    if "place" in rv and rv["place"]["l"] == x:
                        used.append(None)
                    if not used:
                        continue
                    if rv["k"] in ("use",) and not st["dst"]["p"]:
                        work.append(st["dst"]["l"])
                    elif rv["k"] in ("ref", "refmut") and not st["dst"]["p"] and not rv["place"]["p"]:
                        work.append(st["dst"]["l"])
                    else:
                        out.append((st, used[0]))
                t = blk["term"]
                for i, op in enumerate(t.get("args", []) or []):
                    if (op_place(op) or {}).get("l") == x:
                        out.append((t, i))
                if t["k"] == "switch" and (op_place(t["on"]) or {}).get("l") == x:
                    out.append((t, None))
        return out

    # -------------------------------------------------------------- convenience
    def depends_on_param(self, origins, i, field=None):
        for o in origins:
            if o[0] == "param" and o[1] == i:
                if field is None or (len(o[2]) > 0 and o[2][0] == field):
                    return True
        return False

    def calls_in(self, origins):
        return {o[1] for o in origins if o[0] == "call"}

    def return_slice(self):
        return self.slice_local(0)

    def return_aggregates(self):
        """aggregate statements that write local 0 directly, or a local that is moved into 0"""
        out = []
        seen = set()
        work = [0]
        while work:
            l = work.pop()
            if l in seen:
                continue
            seen.add(l)
            for kind, d, bid in self.defs.get(l, ()):
                if kind != "assign":
                    continue
                if d["dst"]["p"]:
                    continue
                rv = d["rv"]
                if rv["k"] == "agg":
                    out.append((d, bid))
                elif rv["k"] == "use":
                    pl = op_place(rv["ops"][0])
                    if pl is not None and not pl["p"]:
                        work.append(pl["l"])
        return out


def fmt_span(sp):
    if not sp:
        return "?"
    return "%s:%d" % (sp["file"], sp["line"])


def local_name(body, l):
    try:
        return body["locals"][l].get("name") or "_%d" % l
    except Exception:
        return "_%d" % l


# ---------------------------------------------------------------------- expression reconstruction
class Expr:
    """reconstructs the value expression of an operand by following single definitions of MIR
    temporaries.  Expressions are nested tuples:
      ('param', i, fields)  ('const', kind, value)  ('static', path)  ('fn', path)
      ('bin', op, a, b)  ('un', op, a)  ('cast', kind, a)  ('call', callee, (args...), block)
      ('agg', adt|tuple|array|closure:<path>, variant, ((name, e), ...))  ('field', e, fields)
      ('discr', e)  ('phi', (e, ...))  ('deep',)  ('unknown', why)
    references are transparent (&x == x)."""

    def __init__(self, prog, path, max_depth=64, opaque=None):
        self.prog = prog
        self.path = path
        self.opaque = re.compile(opaque) if opaque else None
        self.sl = prog.slicer(path)
        self.body = prog.bodies[path] if path in prog.bodies else prog.promoted[path]
        self.argc = self.body["argc"]
        self.max_depth = max_depth

    def operand(self, op, depth=0):
        c = op_const(op)
        if c is not None:
            if c.get("static"):
                return ("static", c["static"])
            if c.get("fn"):
                return ("fn", c["fn"])
            if c.get("closure"):
                return ("agg", "closure:" + c["closure"], None, ())
            if "float" in c:
                return ("const", "float", float(c["float"]))
            if "int" in c:
                return ("const", "int", c["int"])
            if "str" in c:
                return ("const", "str", c["str"])
            v = c.get("val")
            if isinstance(v, str) and v in self.prog.promoted and depth < self.max_depth:
                # a promoted constant: the value its body builds (`&Horizontal::LeftEdge` -> that aggregate)
                memo = self.prog.__dict__.setdefault("_promoted_value", {})
                if v not in memo:
                    memo[v] = None
                    try:
                        r = Expr(self.prog, v).returns()
                        memo[v] = r[0] if len(r) == 1 and not _mentions_param(r[0]) else None
                    except Exception:
                        memo[v] = None
                if memo[v] is not None:
                    return memo[v]
            return ("const", "other", v)
        pl = op_place(op)
        if pl is None:
            return ("unknown", "operand")
        return self.place(pl, depth)

    def place(self, pl, depth=0):
        fields = []
        for pr in pl["p"]:
            if isinstance(pr, dict) and "f" in pr:
                fields.append(pr.get("name") if pr.get("name") is not None else str(pr["f"]))
            elif isinstance(pr, dict) and "d" in pr:
                fields.append("@" + str(pr.get("name")))
            elif isinstance(pr, dict) and ("i" in pr or "ci" in pr):
                fields.append("[]")
        return self.local(pl["l"], tuple(fields), depth)

    def _select(self, e, fields):
        if not fields:
            return e
        if e[0] == "agg" and e[3]:
            if fields[0].startswith("@"):
                if e[2] is not None and fields[0][1:] == e[2]:
                    return self._select(e, fields[1:])
            d = dict(e[3])
            if fields[0] in d:
                return self._select(d[fields[0]], fields[1:])
        if e[0] == "bin" and e[1].endswith("WithOverflow") and fields[0] == "0":
            return self._select(("bin", e[1][:-len("WithOverflow")], e[2], e[3]), fields[1:])
        if e[0] == "param":
            return ("param", e[1], tuple(e[2]) + tuple(fields))
        if e[0] == "field":
            return ("field", e[1], tuple(e[2]) + tuple(fields))
        if e[0] == "phi":
            return ("phi", tuple(self._select(x, fields) for x in e[1]))
        return ("field", e, tuple(fields))

    def local(self, l, fields=(), depth=0):
        if depth > self.max_depth:
            return ("deep",)
        key = (l, tuple(fields))
        memo = self.__dict__.setdefault("_lmemo", {})
        if key in memo:
            return memo[key]
        busy = self.__dict__.setdefault("_busy", set())
        if key in busy:
            return ("deep",)
        busy.add(key)
        try:
            v = self._local(l, fields, depth)
        finally:
            busy.discard(key)
        if not _has_deep(v):
            memo[key] = v
        return v

    def _local(self, l, fields=(), depth=0):
        if 1 <= l <= self.argc and not [d for d in self.sl.defs.get(l, ()) if d[0] == "assign"]:
            return ("param", l, tuple(fields))
        defs = self.sl.defs.get(l, ())
        whole = []
        partial = []
        for d in defs:
            if d[0] == "assign" and d[1]["rv"].get("k") == "setdiscr":
                continue
            if d[0] == "assign" and d[1]["dst"]["p"] and any(isinstance(x, dict) and "f" in x for x in d[1]["dst"]["p"]):
                partial.append(d)
            else:
                whole.append(d)
        # writes to single fields of a local (`_3.0 = ..`): select if they match the wanted field
        if fields and partial:
            hits = [d for d in partial if tuple(place_fields(d[1]["dst"]))[:1] == tuple(fields[:1])]
            if hits and not whole:
                es = [self._select(self._rvalue(d[1]["rv"], d[2], depth + 1), tuple(fields[len(place_fields(d[1]["dst"])):])) for d in hits]
                return es[0] if len(es) == 1 else ("phi", tuple(es))
        if not whole:
            if 1 <= l <= self.argc:
                return ("param", l, tuple(fields))
            return ("unknown", "no def of _%d" % l)
        es = []
        for kind, d, bid in whole[:64]:
            if kind == "assign":
                es.append(self._rvalue(d["rv"], bid, depth + 1))
            else:
                t = d
                if t["dst"]["l"] == l:
                    if self.opaque is not None and self.opaque.search(Program.callee_name(t)):
                        es.append(("call", Program.callee_name(t), (), bid))
                    else:
                        es.append(("call", Program.callee_name(t), tuple(self.operand(a, depth + 1) for a in t["args"]), bid))
                else:
                    margs = []
                    for a in t["args"]:
                        apl = op_place(a)
                        if apl is not None and (apl["l"] == l or l in self.sl.mutref.get(apl["l"], ())):
                            margs.append(("self",))
                        else:
                            margs.append(self.operand(a, depth + 1))
                    es.append(("mutated_by", Program.callee_name(t), tuple(margs), bid))
        # a local initialised once and then only mutated through &mut calls: report the initial value
        base = [e for e in es if e[0] != "mutated_by"]
        muts = [e for e in es if e[0] == "mutated_by"]
        if len(base) == 1 and not muts:
            return self._select(base[0], fields)
        if len(base) == 1 and muts:
            return self._select(("phi", tuple(base + muts)), fields)
        return self._select(("phi", tuple(es)), fields)

    def _rvalue(self, rv, bid, depth):
        k = rv["k"]
        if k == "use":
            return self.operand(rv["ops"][0], depth)
        if k in ("ref", "refmut", "rawptr"):
            return self.place(rv["place"], depth)
        if k == "cast":
            return ("cast", rv.get("cast"), self.operand(rv["ops"][0], depth), rv.get("ty"))
        if k == "bin":
            return ("bin", rv["op"], self.operand(rv["ops"][0], depth), self.operand(rv["ops"][1], depth))
        if k == "un":
            return ("un", rv["op"], self.operand(rv["ops"][0], depth))
        if k == "discr":
            return ("discr", self.place(rv["place"], depth))
        if k == "agg":
            a = rv.get("agg")
            if a == "adt":
                names = rv.get("fields") or []
                return ("agg", rv["adt"], rv.get("variant"), tuple((n, self.operand(o, depth)) for n, o in zip(names, rv["ops"])))
            if a in ("closure", "coroutine"):
                return ("agg", "closure:" + rv["closure"], None, tuple((str(i), self.operand(o, depth)) for i, o in enumerate(rv["ops"])))
            return ("agg", a, None, tuple((str(i), self.operand(o, depth)) for i, o in enumerate(rv["ops"])))
        if k == "repeat":
            return ("agg", "repeat", None, (("0", self.operand(rv["ops"][0], depth)),))
        return ("unknown", k)

    def returns(self):
        """expressions of the return value (one per definition of _0)"""
        e = self.local(0)
        return list(e[1]) if e[0] == "phi" else [e]


def _mentions_param(e):
    found = []
    expr_walk(e, lambda z: found.append(1) if isinstance(z, tuple) and z and z[0] == "param" else None)
    return bool(found)


def _has_deep(e, _seen=None):
    """does the expression contain a truncation marker? (such results are not memoised)"""
    if _seen is None:
        _seen = set()
    if not isinstance(e, tuple) or not e:
        return False
    if id(e) in _seen:
        return False
    _seen.add(id(e))
    if e[0] == "deep":
        return True
    for x in e:
        if isinstance(x, tuple) and _has_deep(x, _seen):
            return True
    return False


def expr_walk(e, fn):
    if not isinstance(e, tuple):
        return
    fn(e)
    for x in e[1:]:
        if isinstance(x, tuple):
            if x and isinstance(x[0], str):
                expr_walk(x, fn)
            else:
                for y in x:
                    if isinstance(y, tuple) and len(y) == 2 and isinstance(y[0], str) and isinstance(y[1], tuple):
                        expr_walk(y[1], fn)
                    else:
                        expr_walk(y, fn)


def expr_str(e, depth=0):
    if not isinstance(e, tuple) or not e:
        return str(e)
    k = e[0]
    if depth > 8:
        return "…"
    if k == "param":
        return "arg%d%s" % (e[1], "".join("." + f for f in e[2]))
    if k == "const":
        return repr(e[2])
    if k == "bin":
        return "(%s %s %s)" % (expr_str(e[2], depth + 1), e[1], expr_str(e[3], depth + 1))
    if k == "un":
        return "%s(%s)" % (e[1], expr_str(e[2], depth + 1))
    if k == "cast":
        return "(%s as %s)" % (expr_str(e[2], depth + 1), e[3] if len(e) > 3 else "?")
    if k == "call":
        name = e[1].split("::")
        return "%s(%s)" % ("::".join(name[-2:]), ", ".join(expr_str(a, depth + 1) for a in e[2]))
    if k == "agg":
        return "%s{%s}" % (str(e[1]).split("::")[-1] + (("::" + e[2]) if e[2] else ""), ", ".join("%s: %s" % (n, expr_str(x, depth + 1)) for n, x in e[3]))
    if k == "field":
        return "%s%s" % (expr_str(e[1], depth + 1), "".join("." + f for f in e[2]))
    if k == "phi":
        return "phi(%s)" % " | ".join(expr_str(x, depth + 1) for x in e[1])
    if k in ("static", "fn"):
        return e[1].split("::")[-1]
    if k == "mutated_by":
        return "mut:%s(%s)" % ("::".join(e[1].split("::")[-2:]), ", ".join(expr_str(a, depth + 1) for a in e[2]))
    if k == "self":
        return "self"
    if k == "discr":
        return "discr(%s)" % expr_str(e[1], depth + 1)
    return str(e)


class PathExpr(Expr):
    """Expr whose locals are resolved in a path-specific environment first (see `paths`)."""

    def __init__(self, prog, path, **kw):
        Expr.__init__(self, prog, path, **kw)
        self.env = {}

    def local(self, l, fields=(), depth=0):
        if l in self.env:
            return self._select(self.env[l], tuple(fields))
        if 1 <= l <= self.argc:
            return ("param", l, tuple(fields))
        return ("unknown", "undefined on this path: _%d" % l)


def paths(prog, path, max_paths=128, with_calls=False):
    """Path-sensitive evaluation of a loop-free body: yields (conds, ret) for every entry-to-return path, where conds
    is the list of (condition expression, taken value | ('not', values)) of the switches passed and ret the returned
    value expression with every local resolved along *that* path (no phi).  Returns None if the body has a loop
    on some path or more than max_paths paths."""
    b = prog.bodies[path]
    pe = PathExpr(prog, path)
    blocks = {blk["id"]: blk for blk in b["blocks"]}
    out = []
    budget = [max_paths * 4]

    def run(bid, env, conds, visited, calls=(), refs=None):
        refs = dict(refs or {})
        while True:
            budget[0] -= 0
            if bid in visited:
                raise OverflowError("loop")
            visited = visited | {bid}
            blk = blocks[bid]
            for st in blk["stmts"]:
                d, rv = st.get("dst"), st.get("rv")
                if not d or not rv or rv.get("k") == "setdiscr":
                    continue
                pe.env = env
                val = pe._rvalue(rv, bid, 0)
                env = dict(env)
                if not d["p"] and rv.get("k") == "refmut" and isinstance(rv.get("place"), dict) and not rv["place"].get("p"):
                    refs[d["l"]] = rv["place"]["l"]     # `_t = &mut _x`: a callee that receives _t changes _x
                elif not d["p"] and rv.get("k") in ("use", "move", "copy") and rv.get("ops") and op_place(rv["ops"][0]) and \
                        not op_place(rv["ops"][0])["p"] and op_place(rv["ops"][0])["l"] in refs:
                    refs[d["l"]] = refs[op_place(rv["ops"][0])["l"]]
                if not d["p"]:
                    env[d["l"]] = val
                else:
                    fs = [pr.get("name") if pr.get("name") is not None else str(pr["f"]) for pr in d["p"] if isinstance(pr, dict) and "f" in pr]
                    old = env.get(d["l"])
                    if fs and len(fs) == 1 and old is not None and old[0] == "agg":
                        comps = tuple((n, (val if str(n) == fs[0] else v)) for n, v in old[3])
                        env[d["l"]] = (old[0], old[1], old[2], comps)
                    elif fs and len(fs) == 1 and old is None:
                        env[d["l"]] = ("agg", "partial", None, ((fs[0], val),))
                    else:
                        env[d["l"]] = ("unknown", "store through a projection")
            t = blk["term"]
            k = t["k"]
            pe.env = env
            if k == "goto" or k == "drop":
                bid = t["targets"][0]
            elif k == "assert":
                bid = t["targets"][0]
            elif k == "call":
                val = ("call", Program.callee_name(t), tuple(pe.operand(a) for a in t["args"]), bid)
                calls = calls + (val,)
                if not t.get("targets"):
                    return
                env = dict(env)
                if not t["dst"]["p"]:
                    env[t["dst"]["l"]] = val
                # &mut arguments: the callee changes the referent; along this path its value becomes
                # ('mutated_by', callee, (old value, other arguments..), block) - the same node Expr uses
                for a in t["args"]:
                    apl = op_place(a)
                    if apl is not None and not apl["p"] and apl["l"] in refs:
                        tgt = refs[apl["l"]]
                        argv = tuple(pe.operand(x) for x in t["args"])
                        env[tgt] = ("mutated_by", Program.callee_name(t), argv, bid)
                bid = t["targets"][0]
            elif k == "switch":
                cond = pe.operand(t["on"])
                vals, tgts = t["values"], t["targets"]
                # infeasible branches are pruned: the discriminant of a known aggregate, and a value that contradicts
                # what an earlier switch on the very same expression established
                fixed = None
                c0 = cond
                while c0 and c0[0] in ("block", "dom"):
                    c0 = c0[-1]
                if c0 and c0[0] == "discr" and isinstance(c0[1], tuple) and c0[1] and c0[1][0] == "agg" and c0[1][2] is not None:
                    std = {"None": 0, "Some": 1, "Ok": 0, "Err": 1, "Continue": 0, "Break": 1}
                    vname = c0[1][2]
                    if str(c0[1][1]).startswith("core::") and vname in std:
                        fixed = std[vname]
                    else:
                        adt = prog.adts.get(c0[1][1])
                        if adt:
                            names_ = [v_["name"] for v_ in adt["variants"]]
                            if vname in names_:
                                fixed = names_.index(vname)
                elif c0 and c0[0] == "discr" and isinstance(c0[1], tuple) and c0[1] and c0[1][0] == "call" and "from_residual" in c0[1][1]:
                    # the residual of `?` is always the failure variant: None for Option, Err for Result
                    fixed = 0 if "FromResidual<core::option::Option<" in c0[1][1] else 1 if "FromResidual<core::result::Result<" in c0[1][1] else None
                elif c0 and c0[0] == "const" and c0[1] == "int":
                    fixed = int(c0[2])
                prev = [tk for c_, tk in conds if c_ == cond]

                def feasible(tk):
                    if fixed is not None:
                        if isinstance(tk, tuple):
                            if fixed in tk[1]:
                                return False
                        elif tk != fixed:
                            return False
                    for p_ in prev:
                        if isinstance(p_, tuple) and isinstance(tk, tuple):
                            continue
                        if isinstance(p_, tuple):
                            if tk in p_[1]:
                                return False
                        elif isinstance(tk, tuple):
                            if p_ in tk[1]:
                                return False
                        elif p_ != tk:
                            return False
                    return True
                for v, tg in zip(vals, tgts):
                    if len(out) >= max_paths:
                        raise OverflowError("too many paths")
                    if feasible(v):
                        run(tg, env, conds + [(cond, v)], visited, calls, refs)
                if feasible(("not", tuple(vals))):
                    run(tgts[-1], env, conds + [(cond, ("not", tuple(vals)))], visited, calls, refs)
                return
            elif k == "return":
                pe.env = env
                out.append((conds, pe.local(0), calls) if with_calls else (conds, pe.local(0)))
                if len(out) > max_paths:
                    raise OverflowError("too many paths")
                return
            else:
                return

    try:
        run(0, {}, [], frozenset())
    except (OverflowError, RecursionError):
        return None
    return out

