"""pattern helpers over mirlib.Expr trees"""
import re

TRANSPARENT_CALL = re.compile(
    r"(Deref>::deref|DerefMut>::deref_mut|Clone>::clone|::clone::Clone::clone|ToOwned>::to_owned|::to_owned$|"
    r"Borrow>::borrow|AsRef<.*>>::as_ref$|convert::AsRef::as_ref$|"
    r"core::ops::deref::Deref::deref$|core::clone::Clone::clone$)")


def strip(e):
    """remove value-preserving wrappers: deref/clone/to_owned/borrow calls, field '[]' kept"""
    while isinstance(e, tuple) and e:
        if e[0] == "call" and len(e[2]) == 1 and TRANSPARENT_CALL.search(e[1]):
            e = e[2][0]
            continue
        if e[0] == "field":
            inner = strip(e[1])
            if inner[0] == "param":
                return ("param", inner[1], tuple(inner[2]) + tuple(e[2]))
            if inner is not e[1]:
                return ("field", inner, e[2])
        break
    return e


def is_param(e, i, fields=None):
    e = strip(e)
    if e[0] != "param" or e[1] != i:
        return False
    if fields is None:
        return True
    got = tuple(f for f in e[2] if not f.startswith("@") and f != "[]")
    return got == tuple(fields)


def param_fields(e):
    e = strip(e)
    if e[0] == "param":
        return e[1], tuple(e[2])
    return None, None


def mentions(e, pred):
    """does any sub-expression satisfy pred?"""
    found = []
    seen = set()

    def rec(x):
        if found or not isinstance(x, tuple) or not x:
            return
        if id(x) in seen:
            return
        seen.add(id(x))
        if isinstance(x[0], str):
            if pred(x):
                found.append(x)
                return
            for y in x[1:]:
                rec(y)
        else:
            for y in x:
                rec(y)

    rec(e)
    return bool(found)


def mentions_param(e, i, field=None):
    def pred(x):
        if x[0] == "param" and x[1] == i:
            return field is None or (field in x[2])
        return False
    return mentions(e, pred)


def factors(e):
    """flatten a product tree"""
    e = strip(e)
    if e[0] == "bin" and e[1] in ("Mul", "MulUnchecked"):
        return factors(e[2]) + factors(e[3])
    if e[0] == "call" and re.search(r"ops::arith::Mul(<.*>)?>?::mul$", e[1]) and len(e[2]) == 2:
        return factors(e[2][0]) + factors(e[2][1])
    return [e]


def terms(e):
    e = strip(e)
    if e[0] == "bin" and e[1] in ("Add", "AddUnchecked"):
        return terms(e[2]) + terms(e[3])
    return [e]


def is_const(e, value=None, kind=None):
    e = strip(e)
    if e[0] == "cast":
        return is_const(e[2], value, kind)
    if e[0] != "const":
        return False
    if kind is not None and e[1] != kind:
        return False
    if value is None:
        return True
    try:
        return float(e[2]) == float(value)
    except (TypeError, ValueError):
        return e[2] == value


def call_named(e, regex):
    e = strip(e)
    return e[0] == "call" and re.search(regex, e[1]) is not None


def closure_of(e):
    """path of the closure body if e is a closure aggregate"""
    if isinstance(e, tuple) and e and e[0] == "agg" and isinstance(e[1], str) and e[1].startswith("closure:"):
        return e[1][len("closure:"):], dict(e[3])
    return None, None


def subst_closure(e, caps, args=()):
    """rewrite an expression of a closure body in terms of its creator: ('param', 1, (k, ..)) is capture k,
    ('param', 2+i, ..) is the i-th call argument (if known)"""
    memo = {}
    _alive = []  # objects whose id() is a memo key stay alive (ids of freed tuples are reused)

    def go(x):
        if not isinstance(x, tuple):
            return x
        k = id(x)
        if k in memo:
            return memo[k]
        r = None
        if x and x[0] == "param" and len(x) >= 3:
            if x[1] == 1 and x[2] and str(x[2][0]) in caps:
                base = caps[str(x[2][0])]
                rest = tuple(x[2][1:])
                r = ("field", base, rest) if rest else base
            elif x[1] >= 2 and x[1] - 2 < len(args):
                base = args[x[1] - 2]
                r = ("field", base, tuple(x[2])) if x[2] else base
        if r is None:
            r = tuple(go(y) for y in x)
        memo[k] = r
        _alive.append(x)
        return r

    return go(e)


def subst_params(e, args):
    """replace ('param', i, fields) by the i-th argument expression (fields re-applied)"""
    memo = {}
    _alive = []  # objects whose id() is a memo key stay alive (ids of freed tuples are reused)

    def go(x):
        if not isinstance(x, tuple):
            return x
        k = id(x)
        if k in memo:
            return memo[k]
        if x and x[0] == "param" and len(x) >= 3 and isinstance(x[1], int) and 1 <= x[1] <= len(args):
            base = args[x[1] - 1]
            r = ("field", base, tuple(x[2])) if x[2] else base
        else:
            r = tuple(go(y) for y in x)
        memo[k] = r
        _alive.append(x)
        return r

    return go(e)


def inline_calls(prog, e, crate="svgbob", keep=None, depth=4, _stack=()):
    """rewrite calls of crate-local functions that have a single return expression by that expression with the
    arguments substituted (helper extraction / delegation are then invisible to a rule).  `keep`: regex of callee
    names that stay calls (the functions a rule wants to see)."""
    from .mirlib import Expr
    memo = {}
    _alive = []  # objects whose id() is a memo key stay alive (ids of freed tuples are reused)

    def go(x, d):
        if not isinstance(x, tuple):
            return x
        k = (id(x), d)
        if k in memo:
            return memo[k]
        r = None
        if x and x[0] == "call" and isinstance(x[1], str) and len(x) >= 3:
            args = tuple(go(a, d) for a in x[2])
            name = x[1]
            b = prog.bodies.get(name)
            if (d > 0 and b is not None and b.get("crate") == crate and name not in _stack and "{closure" not in name
                    and not (keep and re.search(keep, name))):
                try:
                    rets = Expr(prog, name).returns()
                except Exception:
                    rets = []
                if rets and len(args) == b["argc"]:
                    body = rets[0] if len(rets) == 1 else ("phi", tuple(rets))
                    r = go(subst_params(body, args), d - 1)
            if r is None:
                r = (x[0], x[1], args) + tuple(x[3:])
        if r is None:
            r = tuple(go(y, d) if isinstance(y, tuple) else y for y in x)
        memo[k] = r
        _alive.append(x)
        return r

    return go(e, depth)


NEVER = ("never",)


def simplify(e):
    """push field projections through aggregates, phis and the desugaring of `?` so that
    `match x { Some((a, b)) => .. }`, `if let`, `x?` and direct field access of the same value look alike:
    field(agg Some{0: t}, (@Some, 0, ..)) -> t..;  field(phi(a | b), fs) -> phi(field(a, fs) | field(b, fs));
    Try::branch(x).@Continue.0 -> x.@Some.0 (or @Ok.0);  from_residual(..) projected as a success -> dropped"""
    memo = {}
    _alive = []  # objects whose id() is a memo key stay alive (ids of freed tuples are reused)

    def proj(x, fs):
        """x already simplified; apply the projection fs"""
        fs = tuple(fs)
        if not fs:
            return x
        if not isinstance(x, tuple) or not x:
            return ("field", x, fs)
        k = x[0]
        if k == "never":
            return x
        if k == "block" or k == "dom":  # wrappers used by some callers: keep opaque
            return ("field", x, fs)
        if k == "field":
            return proj(x[1], tuple(x[2]) + fs)
        if k == "param" and len(x) == 3:
            # a projection of a parameter is that parameter with a longer field path (how Expr writes it directly)
            return ("param", x[1], tuple(x[2]) + fs)
        if k == "phi":
            alts = [proj(a, fs) for a in x[1]]
            alts = [a for a in alts if a != NEVER]
            if not alts:
                return NEVER
            uniq = []
            for a in alts:
                if a not in uniq:
                    uniq.append(a)
            return uniq[0] if len(uniq) == 1 else ("phi", tuple(uniq))
        if k == "agg":
            f0 = fs[0]
            rest = fs[1:]
            if isinstance(f0, str) and f0.startswith("@"):
                if x[2] is not None and f0[1:] != x[2]:
                    return NEVER
                return proj(x, rest) if rest else x
            comps = dict((str(n), v) for n, v in x[3])
            if str(f0) in comps:
                return proj(comps[str(f0)], rest)
            return ("field", x, fs)
        if k == "call":
            name = x[1]
            if name.endswith("FromResidual<core::option::Option<core::convert::Infallible>>>::from_residual") or "from_residual" in name:
                if isinstance(fs[0], str) and fs[0] in ("@Some", "@Ok"):
                    return NEVER
            if name.endswith("Try>::branch") and len(fs) >= 2 and fs[0] == "@Continue" and fs[1] == "0" and x[2]:
                succ = "@Some" if "option::Option" in name else "@Ok"
                return proj(x[2][0], (succ, "0") + fs[2:])
        return ("field", x, fs)

    def go(x):
        if not isinstance(x, tuple) or not x:
            return x
        key = id(x)
        if key in memo:
            return memo[key]
        memo[key] = x  # cycle guard
        _alive.append(x)
        if x[0] == "field" and len(x) >= 3:
            r = proj(go(x[1]), x[2])
        elif x[0] == "phi":
            alts = [go(a) for a in x[1]]
            alts = [a for a in alts if a != NEVER]
            r = ("phi", tuple(alts)) if len(alts) != 1 else alts[0]
        elif x[0] in ("const", "param", "static", "never"):
            r = x
        else:
            r = tuple(go(y) if isinstance(y, tuple) else y for y in x)
        memo[key] = r
        return r

    return go(e)


def expand_combinators(prog, e, depth=4):
    """rewrite Result/Option combinators applied to a function item or a closure into the explicit alternatives they
    stand for, so that `r.map(f).map_err(|_| E)` and `match r { Ok(v) => Ok(f(v)), Err(_) => Err(E) }` look alike:
      Result::map(r, F)      -> phi(Ok{0: F(r.@Ok.0)} | Err{0: r.@Err.0})
      Result::map_err(r, F)  -> phi(Ok{0: r.@Ok.0}  | Err{0: F(r.@Err.0)})
      Option::map(o, F)      -> phi(Some{0: F(o.@Some.0)} | None)
      Result::ok(r)          -> phi(Some{0: r.@Ok.0} | None)
    A phi receiver is distributed over.  F: ('fn', path) becomes a call, a closure aggregate is replaced by its
    return expression(s) with the captures and the argument substituted."""
    from .mirlib import Expr

    def apply(F, arg):
        F = strip(F)
        if F[0] == "fn":
            return [("call", F[1], (arg,), 0)]
        cl, caps = closure_of(F)
        if cl and cl in prog.bodies:
            rets = Expr(prog, cl).returns()
            return [subst_closure(r, caps, (arg,)) for r in rets]
        return None

    def apply0(F):
        """the value(s) of calling F without arguments (a function item or a closure)"""
        F = strip(F)
        if F[0] == "fn":
            return [("call", F[1], (), 0)]
        cl, caps = closure_of(F)
        if cl and cl in prog.bodies:
            rets = Expr(prog, cl).returns()
            return [subst_closure(r, caps, ()) for r in rets]
        return None

    def alts_of(x):
        x = strip(x)
        return [strip(a) for a in x[1]] if x[0] == "phi" else [x]

    def agg(adt, variant, val=None):
        return ("agg", adt, variant, ((("0", val),) if val is not None else ()))

    def go(x, d):
        if not isinstance(x, tuple) or not x:
            return x
        if x[0] in ("const", "param", "static", "fn", "never"):
            return x
        if x[0] == "call" and isinstance(x[1], str) and len(x) >= 3 and d > 0:
            args = tuple(go(a, d) for a in x[2])
            if re.search(r"<impl bool>::then$|bool::then$", x[1]) and len(args) == 2:
                # bool::then(c, F) -> phi(Some{F()} | None)   (which alternative is taken is `c`: see bool_function's `result`)
                fv = apply0(args[1])
                if fv is not None:
                    out = [agg("core::option::Option", "Some", go(v, d - 1)) for v in fv] + [agg("core::option::Option", "None")]
                    return ("phi", tuple(out))
            if re.search(r"^core::option::Option::<T>::or_else$", x[1]) and len(args) == 2:
                # Option::or_else(o, F) -> phi(o | F())   (o when it is Some, else what F gives)
                fv = apply0(args[1])
                if fv is not None:
                    out = alts_of(args[0]) + [go(v, d - 1) for v in fv]
                    flat_ = []
                    for o in out:
                        flat_.extend(alts_of(o))
                    uniq = []
                    for o in flat_:
                        if o not in uniq:
                            uniq.append(o)
                    return uniq[0] if len(uniq) == 1 else ("phi", tuple(uniq))
            m2 = re.search(r"^core::option::Option::<T>::(map_or_else|map_or|unwrap_or_else)$", x[1])
            if m2 and args:
                # Option::map_or_else(o, D, F) -> phi(D() | F(o.@Some.0));  map_or(o, d, F) -> phi(d | F(..));
                # unwrap_or_else(o, D) -> phi(o.@Some.0 | D())
                kind2 = m2.group(1)
                out = []
                okx = True
                for r in alts_of(args[0]):
                    somev = ("field", r, ("@Some", "0"))
                    if kind2 == "unwrap_or_else" and len(args) == 2:
                        dv = apply0(args[1])
                        if dv is None:
                            okx = False
                            break
                        out += [somev] + [go(v, d - 1) for v in dv]
                    elif kind2 in ("map_or_else", "map_or") and len(args) == 3:
                        dv = apply0(args[1]) if kind2 == "map_or_else" else [args[1]]
                        fv = apply(args[2], somev)
                        if dv is None or fv is None:
                            okx = False
                            break
                        out += [go(v, d - 1) for v in dv] + [go(v, d - 1) for v in fv]
                    else:
                        okx = False
                        break
                if okx:
                    out = [simplify(o) for o in out]
                    uniq = []
                    for o in out:
                        if o not in uniq:
                            uniq.append(o)
                    return uniq[0] if len(uniq) == 1 else ("phi", tuple(uniq))
                return (x[0], x[1], args) + tuple(x[3:])
            m = re.search(r"^core::(result::Result::<T, E>|option::Option::<T>)::(map|map_err|ok)$", x[1])
            if m and args:
                is_res = m.group(1).startswith("result")
                kind = m.group(2)
                out = []
                for r in alts_of(args[0]):
                    okv = ("field", r, ("@Ok" if is_res else "@Some", "0"))
                    if kind == "ok" and is_res:
                        out += [agg("core::option::Option", "Some", okv), agg("core::option::Option", "None")]
                        continue
                    if len(args) != 2:
                        return (x[0], x[1], args) + tuple(x[3:])
                    if kind == "map":
                        vals = apply(args[1], okv)
                        if vals is None:
                            return (x[0], x[1], args) + tuple(x[3:])
                        if is_res:
                            out += [agg("core::result::Result", "Ok", go(v, d - 1)) for v in vals] + [agg("core::result::Result", "Err", ("field", r, ("@Err", "0")))]
                        else:
                            out += [agg("core::option::Option", "Some", go(v, d - 1)) for v in vals] + [agg("core::option::Option", "None")]
                    elif kind == "map_err" and is_res:
                        vals = apply(args[1], ("field", r, ("@Err", "0")))
                        if vals is None:
                            return (x[0], x[1], args) + tuple(x[3:])
                        out += [agg("core::result::Result", "Ok", okv)] + [agg("core::result::Result", "Err", go(v, d - 1)) for v in vals]
                    else:
                        return (x[0], x[1], args) + tuple(x[3:])
                out = [simplify(o) for o in out]
                out = [o for o in out if o != NEVER and not mentions(o, lambda z: z == NEVER)]
                uniq = []
                for o in out:
                    if o not in uniq:
                        uniq.append(o)
                return uniq[0] if len(uniq) == 1 else ("phi", tuple(uniq))
            return (x[0], x[1], args) + tuple(x[3:])
        return tuple(go(y, d) if isinstance(y, tuple) else y for y in x)

    return go(e, depth)


def mentions_deep(prog, e, pred, depth=3):
    """mentions(e, pred), also looking into the bodies (return expressions and call arguments) of closures that
    occur in e: `x.and_then(|v| f(v))` mentions f"""
    from .mirlib import Expr, Program
    if mentions(e, pred):
        return True
    if depth <= 0:
        return False
    cls = []
    mentions(e, lambda z: z[0] == "agg" and isinstance(z[1], str) and z[1].startswith("closure:") and cls.append(z[1][8:]) and False)
    for q in cls:
        if q not in prog.bodies:
            continue
        qex = Expr(prog, q)
        for r in qex.returns():
            if mentions_deep(prog, r, pred, depth - 1):
                return True
        for _, t in prog.calls(q):
            z = ("call", Program.callee_name(t), tuple(qex.operand(a) for a in t["args"]), 0)
            if pred(z):
                return True
    return False


def uncast(e):
    e = strip(e)
    while e[0] == "cast":
        e = strip(e[2])
    return e


def rust_bytes(val):
    """decode the Display form of a byte-string constant `b"..."` into a list of ints"""
    m = re.match(r'^b"(.*)"$', val or "", re.S)
    if not m:
        return None
    raw = m.group(1)
    out = []
    i = 0
    while i < len(raw):
        c = raw[i]
        if c == "\\" and i + 1 < len(raw):
            n = raw[i + 1]
            if n == "x":
                out.append(int(raw[i + 2:i + 4], 16))
                i += 4
                continue
            out.append({"n": 10, "r": 13, "t": 9, "0": 0, "\\": 92, '"': 34, "'": 39}.get(n, ord(n)))
            i += 2
            continue
        out.extend(c.encode("utf-8"))
        i += 1
    return out


def decode_fmt_template(val):
    """this nightly lowers format templates to bytes: <len><literal bytes> | 0xC0 (next argument,
    default formatting) | 0x00 end.  Returns [('lit', str) | ('arg',)] or None when another code
    (explicit index, width, precision...) appears."""
    bs = rust_bytes(val)
    if bs is None:
        return None
    out = []
    i = 0
    while i < len(bs):
        b = bs[i]
        if b == 0:
            return out if i == len(bs) - 1 else None
        if b == 0xC0:
            out.append(("arg",))
            i += 1
            continue
        if b < 0x80:
            lit = bytes(bs[i + 1:i + 1 + b])
            if len(lit) != b:
                return None
            try:
                out.append(("lit", lit.decode("utf-8")))
            except UnicodeDecodeError:
                return None
            i += 1 + b
            continue
        return None
    return None


def format_parts(e):
    """for an expression `format!(..)`: (pieces, [arg exprs]) or None"""
    e = strip(e)
    if e[0] == "call" and e[1].endswith("hint::must_use") and len(e[2]) == 1:
        e = strip(e[2][0])
    if e[0] != "call" or e[1] != "alloc::fmt::format":
        return None
    a = strip(e[2][0])
    if a[0] != "call" or "fmt::Arguments" not in a[1]:
        return None
    t = strip(a[2][0])
    if t[0] != "const":
        return None
    if t[1] == "str":
        return [("lit", t[2])], []
    pieces = decode_fmt_template(t[2])
    if pieces is None:
        return None
    args = []
    if len(a[2]) > 1:
        arr = strip(a[2][1])
        for _, it in (arr[3] if arr[0] == "agg" else ()):
            it = strip(it)
            if it[0] == "call" and "Argument" in it[1]:
                args.append((it[1].split("::")[-1], strip(it[2][0])))
            else:
                return None
    return pieces, args


ELEM = ("elem",)


def replace(e, pred, new):
    """e with every subexpression satisfying pred replaced by new"""
    memo = {}
    _alive = []

    def go(x):
        if not isinstance(x, tuple):
            return x
        k = id(x)
        if k in memo:
            return memo[k]
        if x and isinstance(x[0], str) and pred(x):
            r = new
        else:
            r = tuple(go(y) for y in x)
        memo[k] = r
        _alive.append(x)
        return r

    return go(e)


def loop_built_vec(prog, path, e):
    """`let mut v = Vec::new() | Vec::with_capacity(..); for x in SRC { v.push(f(x)); }`: returns (SRC, f(ELEM)) when the
    vector `e` of body `path` is built like that -- one push, executed for every item of one un-adapted iteration, and
    nothing else ever stored -- else None.  The closure spelling `SRC.iter().map(f).collect()` says the same."""
    from .common import guards
    v = strip(e)
    alts = [strip(x) for x in v[1]] if v[0] == "phi" else [v]
    pushes = []
    for x in alts:
        if x[0] == "call" and re.search(r"Vec::<T>::(new|with_capacity)$", x[1]):
            continue
        if x[0] == "mutated_by" and re.search(r"Vec::<T, A>::push$", x[1]) and len(x[2]) == 2:
            pushes.append(x)
            continue
        return None
    if len(pushes) != 1 or len(alts) < 2:
        return None
    val = strip(pushes[0][2][1])
    is_next = lambda z: z[0] == "call" and z[1].endswith("Iterator>::next")
    items = []
    mentions(val, lambda z: z[0] == "field" and tuple(z[2][:2]) == ("@Some", "0") and is_next(strip(z[1])) and items.append(z) and False)
    if not items or any(strip(i[1]) != strip(items[0][1]) for i in items):
        return None
    nxt = strip(items[0][1])
    it = strip(nxt[2][0])
    # the iterator: phi(into_iter(X) | mut:next(self) ...)
    srcs = [strip(a) for a in (it[1] if it[0] == "phi" else [it])]
    flat = []
    while srcs:
        a = srcs.pop()
        if a[0] == "phi":
            srcs.extend(strip(y) for y in a[1])
        elif a[0] == "mutated_by" and is_next(("call", a[1])):
            continue
        else:
            flat.append(a)
    if len(flat) != 1 or flat[0][0] != "call" or not flat[0][1].endswith("IntoIterator>::into_iter"):
        return None
    src = strip(flat[0][2][0])
    while src[0] == "call" and re.search(r"<impl \[T\]>::iter$|Deref>::deref$|::as_slice$|Vec::<T, A>::iter$", src[1]) and src[2]:
        src = strip(src[2][0])
    # the push is executed exactly once per item: directly control dependent on the loop header only
    bid = pushes[0][3] if len(pushes[0]) > 3 else None
    if bid is None:
        return None
    gs = guards(prog, path, bid, direct=True)
    if len(gs) != 1 or gs[0][1] != 1:
        return None
    g = strip(gs[0][0])
    if not (g[0] == "discr" and strip(g[1]) == nxt):
        return None
    # the whole item is ELEM; deeper projections (`x.0`) stay projections of ELEM
    elem = replace(val, lambda z: z[0] == "field" and tuple(z[2][:2]) == ("@Some", "0") and is_next(strip(z[1])) and len(z[2]) == 2, ELEM)
    def _deeper(z):
        return z[0] == "field" and tuple(z[2][:2]) == ("@Some", "0") and is_next(strip(z[1])) and len(z[2]) > 2
    found = []
    mentions(elem, lambda z: _deeper(z) and found.append(z) and False)
    for z in found:
        elem = replace(elem, lambda y, z=z: y == z, ("field", ELEM, tuple(z[2][2:])))
    if mentions(elem, is_next):
        return None
    return src, elem


def inline_top(prog, e, crate="svgbob", rounds=3, keep=None):
    """e, with a top-level call of a crate-local single-expression function replaced by that expression (arguments
    substituted): `self.with_line(l)` -> `MarkerLine { line: l, ..self }`.  Only the outermost call is expanded, so the
    calls a rule wants to see inside the value stay calls."""
    from .mirlib import Expr
    e = strip(e)
    for _ in range(rounds):
        if not (e[0] == "call" and isinstance(e[1], str)):
            break
        b = prog.bodies.get(e[1])
        if b is None or b.get("crate") != crate or "{closure" in e[1] or (keep and re.search(keep, e[1])):
            break
        try:
            rets = Expr(prog, e[1]).returns()
        except Exception:
            break
        if len(rets) != 1 or len(e[2]) != b["argc"]:
            break
        e = strip(simplify(subst_params(rets[0], e[2])))
    return e


def bool_function(prog, path, atom, depth=3, max_paths=64, keep=None, result=None, free=False, _level=0):
    """the boolean function a loop-free body computes over the atomic tests `atom` recognises (atom(expr) -> name | None),
    decided path by path with crate-local helpers inlined: returns (atoms, {assignment tuple: bool}) or (None, reason).
    `a && b`, `if !a { return false } b`, `match (a, b) {..}` and a helper in between all give the same table.
    atom may return ("not", name) for the complement of a named test.  A test that is itself a call of a crate-local
    boolean function with control flow of its own (`fn is_blank(ch) -> bool { ch == NUL || ch.is_whitespace() }`) is
    decided recursively, with the arguments substituted, and enters the table as that sub-function."""
    import itertools
    from .mirlib import paths
    ps = paths(prog, path, max_paths=max_paths)
    if not ps:
        return None, "the body is not loop free (or has too many paths)"
    norm = lambda e: strip(simplify(inline_calls(prog, e, depth=depth, keep=keep)))
    rows = []
    names = set()

    def unnot(c):
        neg = False
        while c[0] == "un" and c[1] == "Not":
            c, neg = strip(c[2]), not neg
        return c, neg

    def classify(c_raw, as_result=False):
        """-> ('atom', name, neg) | ('sub', atoms, table, neg) | None"""
        c, neg = unnot(norm(c_raw))
        a = atom(c)
        if a is not None:
            if isinstance(a, tuple) and a[0] == "not":
                a, neg = a[1], not neg
            names.add(a)
            return ("atom", a, neg)
        c0, neg0 = unnot(strip(simplify(c_raw)))
        if c0[0] == "call" and isinstance(c0[1], str) and c0[1] in prog.bodies and "{closure" not in c0[1] and _level < 3 and \
                prog.bodies[c0[1]].get("crate") == prog.bodies[path].get("crate") and len(c0[2]) == prog.bodies[c0[1]]["argc"] and c0[1] != path:
            args = c0[2]
            sa, st = bool_function(prog, c0[1], lambda x: atom(strip(simplify(subst_params(x, args)))), depth, max_paths, keep, None, False, _level + 1)
            if sa is not None:
                names.update(sa)
                return ("sub", tuple(sa), st, neg0)
        if free and not as_result:
            a = "?" + _short(c)
            names.add(a)
            return ("atom", a, neg)
        return None

    for conds, ret in ps:
        cs = []
        for c, tk in conds:
            if strip(c)[0] == "const":
                continue   # a flag whose value is known on this path (`let a = x && y; .. a && b`): paths() took the only feasible edge
            k = classify(c)
            if k is None:
                return None, "a branch on `%s` is not one of the expected tests" % _short(unnot(norm(c))[0])
            cs.append((k, tk))
        r, neg = unnot(norm(ret))
        if result is not None:
            # the caller's reading of the returned value as a truth value (e.g. "is Some")
            v = result(r)
            if v is None:
                return None, "the result `%s` is not recognised" % _short(r)
            if isinstance(v, tuple) and v and v[0] == "cond":
                # "true exactly when <expr> holds" (`c.then(..)` is Some iff c; `x.map(..)` is Some iff x is)
                k = classify(v[1], as_result=True)
                if k is None:
                    return None, "the result depends on `%s`, which is not one of the expected tests" % _short(strip(v[1]))
                rows.append((cs, k))
                continue
            rv = ("const", bool(v))
        elif r[0] == "const" and r[1] in ("int", "bool") and r[2] in (0, 1, True, False):
            rv = ("const", bool(r[2]) != neg)
        else:
            k = classify(ret, as_result=True)
            if k is None:
                return None, "the result `%s` is not one of the expected tests" % _short(r)
            rv = k
        rows.append((cs, rv))
    atoms = sorted(names)

    def value(k, env):
        if k[0] == "atom":
            return env[k[1]] != k[2]
        return st_lookup(k, env) != k[3]

    def st_lookup(k, env):
        return k[2][tuple(env[a] for a in k[1])]

    table = {}
    for asg in itertools.product((False, True), repeat=len(atoms)):
        env = dict(zip(atoms, asg))
        val = None
        for cs, rv in rows:
            ok = True
            for k, tk in cs:
                v = int(value(k, env))
                if (isinstance(tk, tuple) and v in tk[1]) or (not isinstance(tk, tuple) and v != tk):
                    ok = False
                    break
            if ok:
                val = rv[1] if rv[0] == "const" else value(rv, env)
                break
        if val is None:
            return None, "no path covers %r" % (env,)
        table[asg] = val
    return atoms, table


def _short(e):
    from .mirlib import expr_str
    return expr_str(e)[:100]


def concat_parts(e):
    """the ordered pieces of a string built by concatenation - `format!("{}{}", a, b)`, a `String::new()/with_capacity()`
    followed by `push_str`/`push`, `a + &b`, `[a, b].concat()` - as [("arg", expr) | ("lit", text)], or None"""
    e = strip(e)
    while e[0] == "call" and e[2] and re.search(r"hint::must_use$|Deref>::deref$|String::as_str$|ToOwned>::to_owned$|ToString>::to_string$|String as core::clone::Clone>::clone$|From<&str>>::from$|Into<.*>>::into$", e[1]) and len(e[2]) == 1:
        inner = strip(e[2][0])
        if inner[0] in ("param", "field", "const"):
            break
        e = inner
    fp = format_parts(e)
    if fp is not None:
        pieces, args = fp
        out, ai = [], 0
        for pc in pieces:
            if pc[0] == "lit":
                out.append(("lit", pc[1]))
            else:
                if ai >= len(args):
                    return None
                out.append(("arg", strip(args[ai][1])))
                ai += 1
        return out
    if e[0] == "mutated_by" and re.search(r"String::(push_str|push)$", e[1]) and len(e[2]) == 2:
        head = concat_parts(e[2][0])
        if head is None:
            return None
        v = strip(e[2][1])
        while v[0] == "call" and v[2] and re.search(r"Deref>::deref$|String::as_str$|AsRef<str>>::as_ref$", v[1]):
            v = strip(v[2][0])
        if v[0] == "const" and v[1] == "str":
            return head + [("lit", v[2])]
        return head + [("arg", v)]
    if e[0] == "call" and re.search(r"String::(new|with_capacity)$", e[1]):
        return []
    if e[0] == "call" and re.search(r"Add<&str>>::add$", e[1]) and len(e[2]) == 2:
        a, b = concat_parts(e[2][0]), concat_parts(e[2][1])
        if a is None:
            a = [("arg", strip(e[2][0]))]
        if b is None:
            b = [("arg", strip(e[2][1]))]
        return a + b
    if e[0] in ("param", "field"):
        return [("arg", e)]
    if e[0] == "const" and e[1] == "str":
        return [("lit", e[2])]
    return None


def iter_element(prog, it, depth=5):
    """the value an iterator expression yields per item, in terms of ELEM (an item of the underlying collection):
    `xs.iter()` -> ELEM;  `src.map(closure)` -> the closure's return with its argument := element of src;  a call of a
    crate function that returns an iterator is looked into.  None when the chain contains anything else (filter, skip, zip ..):
    callers that need "every item, transformed" must not accept those."""
    from .mirlib import Expr
    it = strip(it)
    if depth <= 0 or it[0] != "call":
        return None
    n = it[1]
    if re.search(r"<impl \[T\]>::iter$|IntoIterator>::into_iter$|Vec::<T, A>::iter$|Deref>::deref$|::values$|::keys$", n) and it[2]:
        inner = strip(it[2][0])
        if inner[0] == "call" and re.search(r"<impl \[T\]>::iter$|IntoIterator>::into_iter$|Deref>::deref$|Iterator>?::map$", inner[1]):
            return iter_element(prog, inner, depth - 1)
        return ELEM
    if re.search(r"Iterator>?::map$", n) and len(it[2]) == 2:
        src = iter_element(prog, it[2][0], depth - 1)
        cl, caps = closure_of(strip(it[2][1]))
        if src is None or not cl or cl not in prog.bodies:
            return None
        rets = Expr(prog, cl).returns()
        if len(rets) != 1:
            return None
        return strip(simplify(subst_closure(rets[0], caps, (src,))))
    if n in prog.bodies and "{closure" not in n and not it[2]:
        rets = Expr(prog, n).returns()
        if len(rets) == 1:
            return iter_element(prog, rets[0], depth - 1)
    return None
