"""Constant folding of small pure workspace functions over their MIR expressions with exact rational
arithmetic: used to obtain the values of the cell-grid points, units and neighbour-cell helpers from
the *current source* instead of freezing them in the checker."""
from fractions import Fraction

from .exprs import strip
from .mirlib import Expr


class Unfoldable(Exception):
    pass


def frac(v):
    if isinstance(v, Fraction):
        return v
    if isinstance(v, bool):
        return v
    if isinstance(v, int):
        return Fraction(v)
    if isinstance(v, float):
        return Fraction(v).limit_denominator(100000)
    if isinstance(v, str):
        return Fraction(v)
    raise Unfoldable("not a number: %r" % (v,))


class Folder:
    def __init__(self, prog):
        self.prog = prog
        self._exprs = {}
        self._memo = {}
        self.folded = set()

    def resolve(self, suffix):
        """the unique non-closure body whose path ends with `::suffix`"""
        hits = [p for p in self.prog.bodies if (p.endswith("::" + suffix) or p == suffix) and "{closure" not in p]
        if len(hits) == 1:
            return hits[0]
        return None

    def call(self, path, args, depth=0):
        if depth > 30:
            raise Unfoldable("too deep")
        key = (path, tuple(args))
        try:
            if key in self._memo:
                return self._memo[key]
        except TypeError:
            key = None
        if path not in self.prog.bodies:
            raise Unfoldable("no body for " + path)
        if path.endswith("point::Point::new") and len(args) == 2:
            v = ("pt", frac(args[0]), frac(args[1]))
        else:
            if path not in self._exprs:
                self._exprs[path] = Expr(self.prog, path).returns()
            rets = self._exprs[path]
            if len(rets) != 1:
                raise Unfoldable("%s has %d return expressions (control flow)" % (path, len(rets)))
            v = self.eval(rets[0], args, depth + 1)
        self.folded.add(path)
        if key is not None:
            self._memo[key] = v
        return v

    def select(self, v, fields):
        for f in fields:
            if f.startswith("@") or f == "[]":
                continue
            if isinstance(v, tuple) and v and v[0] == "pt":
                if f == "x":
                    v = v[1]
                elif f == "y":
                    v = v[2]
                elif f in ("0", "coords"):
                    pass
                else:
                    raise Unfoldable("field %s of a point" % f)
            elif isinstance(v, tuple) and v and v[0] == "cell":
                if f == "x":
                    v = v[1]
                elif f == "y":
                    v = v[2]
                else:
                    raise Unfoldable("field %s of a cell" % f)
            elif isinstance(v, tuple) and v and v[0] == "tuple":
                v = v[1][int(f)]
            elif isinstance(v, tuple) and v and v[0] == "adt":
                v = v[3][f]
            else:
                raise Unfoldable("field %s of %r" % (f, v))
        return v

    def eval(self, e, args, depth=0):
        if depth > 60:
            raise Unfoldable("too deep")
        k = e[0]
        if k == "param":
            if e[1] - 1 >= len(args):
                raise Unfoldable("missing argument %d" % e[1])
            return self.select(args[e[1] - 1], e[2])
        if k == "const":
            if e[1] in ("int", "float"):
                return frac(e[2])
            if e[1] == "str":
                return e[2]
            raise Unfoldable("constant %r" % (e,))
        if k == "bin":
            a = self.eval(e[2], args, depth + 1)
            b = self.eval(e[3], args, depth + 1)
            op = e[1].replace("WithOverflow", "").replace("Unchecked", "")
            if op == "Add":
                return a + b
            if op == "Sub":
                return a - b
            if op == "Mul":
                return a * b
            if op == "Div":
                if b == 0:
                    raise Unfoldable("division by zero")
                return a / b
            if op == "Lt":
                return a < b
            if op == "Le":
                return a <= b
            if op == "Gt":
                return a > b
            if op == "Ge":
                return a >= b
            if op == "Eq":
                return a == b
            if op == "Ne":
                return a != b
            raise Unfoldable("operator " + op)
        if k == "un":
            a = self.eval(e[2], args, depth + 1)
            if e[1] == "Neg":
                return -a
            if e[1] == "Not":
                return not a
            raise Unfoldable("unary " + e[1])
        if k == "cast":
            a = self.eval(e[2], args, depth + 1)
            kind = str(e[1])
            if "FloatToInt" in kind:
                return Fraction(int(a))
            return a
        if k == "field":
            return self.select(self.eval(e[1], args, depth + 1), e[2])
        if k == "agg":
            name = str(e[1])
            vals = [(n, self.eval(x, args, depth + 1)) for n, x in e[3]]
            if name.endswith("cell::Cell"):
                d = dict(vals)
                return ("cell", d["x"], d["y"])
            if name == "tuple":
                return ("tuple", tuple(v for _, v in vals))
            if name.endswith("point::Point") and len(vals) == 1:
                return vals[0][1]
            return ("adt", name, e[2], dict(vals))
        if k == "call":
            name = e[1]
            av = [self.eval(a, args, depth + 1) for a in e[2]]
            if name in self.prog.bodies:
                return self.call(name, av, depth + 1)
            if name.endswith("Deref>::deref") or name.endswith("::deref") or name.endswith("Clone>::clone"):
                return av[0]
            if name.endswith("::new") and len(av) == 2 and ("Point" in name or "OPoint" in name):
                return ("pt", frac(av[0]), frac(av[1]))
            raise Unfoldable("external call " + name)
        if k == "phi":
            vals = []
            for x in e[1]:
                try:
                    vals.append(self.eval(x, args, depth + 1))
                except Unfoldable:
                    raise
            if all(v == vals[0] for v in vals):
                return vals[0]
            raise Unfoldable("control-flow dependent value")
        raise Unfoldable("expression %s" % (k,))
