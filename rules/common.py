"""helpers shared by the property modules"""
import re

from .mirlib import Program, fmt_span, op_const, op_place

LIB_ENTRY = [
    "svgbob::to_svg",
    "svgbob::to_svg_string_pretty",
    "svgbob::to_svg_string_compressed",
    "svgbob::to_svg_with_settings",
    "svgbob::to_svg_with_override_size",
]
CLI_ENTRY = ["svgbob_cli::main"]
SERVER_ENTRY = ["svgbob_server::main", "svgbob_server::hello", "svgbob_server::text_to_svgbob"]


def entry_points(run, rule, which=("lib",)):
    """entry points that exist; missing ones are anchor failures"""
    names = []
    if "lib" in which:
        names += LIB_ENTRY
    if "cli" in which:
        names += CLI_ENTRY
    if "server" in which:
        names += SERVER_ENTRY
    out = []
    for n in names:
        if n in run.prog.bodies:
            out.append(n)
        else:
            run.missing(rule, "entry point " + n)
    return out


def lib_reachable(run, rule, which=("lib",)):
    roots = entry_points(run, rule, which)
    reach = run.prog.reachable(roots)
    return roots, {p for p in reach if p in run.prog.bodies}


def where(x):
    """file:line of a terminator/statement/body/span dict"""
    if x is None:
        return None
    if "file" in x:
        return fmt_span(x)
    return fmt_span(x.get("span"))


def short(path):
    """short human name for a def path"""
    p = re.sub(r"<([^<>]*?) as ([^<>]*?)>", lambda m: "<%s as %s>" % (m.group(1).split("::")[-1], m.group(2).split("::")[-1]), path)
    parts = p.split("::")
    return "::".join(parts[-2:]) if len(parts) > 2 else p


PATH_RE = re.compile(r"[A-Za-z_][A-Za-z0-9_]*(?:::[A-Za-z_][A-Za-z0-9_]*)+")


def type_paths(ty):
    return set(PATH_RE.findall(ty))


def is_test_path(p):
    return "::tests::" in p or "::test_" in p or p.endswith("::tests")


def src_file(run, suffix):
    """the srcfacts file entry whose path ends with suffix"""
    hits = [(f, v) for f, v in run.src["files"].items() if f.endswith(suffix)]
    if len(hits) == 1:
        return hits[0]
    return None, None


def walk(node, fn):
    """pre-order walk over srcfacts JSON; fn(node) for every dict"""
    if isinstance(node, dict):
        fn(node)
        for v in node.values():
            walk(v, fn)
    elif isinstance(node, list):
        for v in node:
            walk(v, fn)


def find_nodes(node, pred):
    out = []

    def f(n):
        if pred(n):
            out.append(n)

    walk(node, f)
    return out


def src_fn(run, file_suffix, name, impl_self=None, impl_trait=None):
    """find a fn item (top-level or inside an impl) in a source file"""
    f, v = src_file(run, file_suffix)
    if v is None:
        return None
    hits = []

    def scan(items, cur_impl=None):
        for it in items:
            if not isinstance(it, dict):
                continue
            if it.get("test"):
                continue
            if it.get("k") == "fn" and it.get("name") == name:
                if impl_self is None and impl_trait is None:
                    hits.append(it)
                elif cur_impl is not None:
                    st = cur_impl["self_ty"].replace(" ", "")
                    tr = (cur_impl.get("trait") or "").replace(" ", "")
                    if (impl_self is None or st == impl_self.replace(" ", "")) and \
                            (impl_trait is None or tr == impl_trait.replace(" ", "")):
                        hits.append(it)
            elif it.get("k") == "impl":
                scan(it["items"], it)
            elif it.get("k") == "mod" and it.get("inline") and not it.get("test"):
                scan(it["items"], None)

    scan(v["items"])
    if len(hits) == 1:
        hits[0]["_file"] = f
        return hits[0]
    return None


def spos(file, node):
    return "%s:%d" % (file, node["pos"][0]) if node and "pos" in node else file


def field_accesses(prog, adt_suffix, crates=("svgbob",)):
    """reads: operands whose place projects a field of the ADT; writes: assignment destinations.
    returns (reads, writes): {field: [(body, stmt_or_term)]}"""
    reads, writes = {}, {}
    for p, b in prog.bodies.items():
        if crates and b["crate"] not in crates:
            continue
        for blk in b["blocks"]:
            items = list(blk["stmts"]) + [blk["term"]]
            for st in items:
                places = []
                rv = st.get("rv")
                if rv:
                    for op in rv.get("ops", []):
                        pl = op_place(op)
                        if pl is not None:
                            places.append(pl)
                    if "place" in rv:
                        places.append(rv["place"])
                for op in st.get("args", []) or []:
                    pl = op_place(op)
                    if pl is not None:
                        places.append(pl)
                if st.get("k") == "switch":
                    pl = op_place(st["on"])
                    if pl is not None:
                        places.append(pl)
                for pl in places:
                    for pr in pl["p"]:
                        if isinstance(pr, dict) and "f" in pr and (pr.get("adt") or "").endswith(adt_suffix):
                            reads.setdefault(pr.get("name"), []).append((p, st))
                dst = st.get("dst")
                if dst and rv is not None:
                    prs = [pr for pr in dst["p"] if isinstance(pr, dict) and "f" in pr]
                    if prs and (prs[-1].get("adt") or "").endswith(adt_suffix):
                        writes.setdefault(prs[-1].get("name"), []).append((p, st))
                    if rv.get("k") == "agg" and (rv.get("adt") or "").endswith(adt_suffix):
                        for n in rv.get("fields") or []:
                            writes.setdefault(n, []).append((p, st))
    return reads, writes


DERIVED = re.compile(r" as core::(fmt::Debug|clone::Clone|cmp::PartialEq|cmp::PartialOrd|cmp::Ord|cmp::Eq|hash::Hash|default::Default)>::")


def is_derived_impl(path):
    return bool(DERIVED.search(path))


def guards(prog, path, bid, direct=False):
    """conditions a block is control-dependent on: [(cond_expr, taken, switch_term)] where `taken`
    is the switch value selecting the edge (int) or ('not', [values]) for the otherwise edge"""
    from .mirlib import Expr
    b = prog.bodies[path]
    g = prog.cfg(path)
    ex = Expr(prog, path)
    out = []
    deps = g.direct_control_deps(bid) if direct else g.control_deps(bid)
    for a, s in sorted(deps):
        t = b["blocks"][a]["term"]
        if t["k"] != "switch":
            out.append((("unknown", t["k"]), None, t))
            continue
        e = ex.operand(t["on"])
        tg = t["targets"]
        vals = t["values"]
        taken = None
        hits = [vals[i] for i in range(len(vals)) if tg[i] == s]
        if s == tg[-1] and not hits:
            taken = ("not", tuple(vals))
        elif len(hits) == 1 and s != tg[-1]:
            taken = hits[0]
        else:
            taken = ("multi", tuple(hits))
        out.append((e, taken, t))
    return out


def module_region(prog, p, stop=None):
    """p, its closures and the non-public functions of p's own module that it calls (transitively, direct calls):
    the bodies a rule about p has to look at so that extracting a private helper does not hide anything"""
    import re as _re
    from .mirlib import Program as _P
    modp = p.rsplit("::", 1)[0]
    bodies, work = set(), [p]
    while work:
        q = work.pop()
        if q in bodies or q not in prog.bodies:
            continue
        bodies.add(q)
        work.extend(prog.closures_of(q))
        for _, t in prog.calls(q):
            n = _P.callee_name(t)
            if n.startswith(modp + "::") and n in prog.bodies and str(prog.bodies[n].get("vis")) != "Public" and not (stop and _re.search(stop, n)):
                work.append(n)
    return sorted(bodies)


def cell_extend_sites(prog, cf):
    """The iterator form of the per-character cell insertion of From<StringBuffer> for CellBuffer:
    `map.extend(row.chars().enumerate().filter(P).map(M))`.  Returns a list of dicts
    {term, chars_src, col, row, ch, filter_atoms} where col/row/ch are the expressions of M's result
    ((Cell::new(col, row), ch)) in terms of the enumerate item (('param', 2, ..) of M) and M's captures substituted,
    and filter_atoms is the set of atoms P requires: 'ws' (!is_whitespace(ch)), 'nul' (ch != NUL), or ('other', text)."""
    import re as _re
    from .mirlib import Expr as _E, Program as _P, paths as _paths, expr_str as _es
    from .exprs import strip as _s, closure_of as _co, subst_closure as _sc, is_const as _ic
    out = []
    ex = _E(prog, cf)
    for bid, t in prog.calls(cf):
        if not _re.search(r"Extend<.*>>::extend$|BTreeMap::<K, V, A>::extend$", _P.callee_name(t)) or len(t["args"]) != 2:
            continue
        it = _s(ex.operand(t["args"][1]))
        if not (it[0] == "call" and _re.search(r"Iterator::map$", it[1]) and len(it[2]) == 2):
            continue
        mcl, mcaps = _co(_s(it[2][1]))
        src = _s(it[2][0])
        filt = None
        if src[0] == "call" and _re.search(r"Iterator::filter$", src[1]) and len(src[2]) == 2:
            filt, fcaps = _co(_s(src[2][1]))
            src = _s(src[2][0])
        if not (src[0] == "call" and _re.search(r"Iterator::enumerate$", src[1])):
            continue
        chars = _s(src[2][0])
        if not (chars[0] == "call" and chars[1].endswith("str::<impl str>::chars")):
            continue
        if mcl not in prog.bodies:
            continue
        rets = [_s(r) for r in _E(prog, mcl).returns()]
        if len(rets) != 1 or rets[0][0] != "agg" or len(rets[0][3]) != 2:
            continue
        cell, ch = _s(rets[0][3][0][1]), _s(rets[0][3][1][1])
        if not (cell[0] == "call" and cell[1].endswith("cell::Cell::new") and len(cell[2]) == 2):
            continue
        col = _sc(cell[2][0], mcaps)
        row = _sc(cell[2][1], mcaps)
        atoms = set()
        if filt and filt in prog.bodies:
            # the predicate as a boolean function of `is_whitespace(ch)` and `ch == NUL` (helpers decided recursively):
            # which of the two it requires to be false
            from .exprs import bool_function as _bf

            def _atom(c):
                if c[0] == "call" and c[1].endswith("is_whitespace") and c[2]:
                    return "ws"
                if c[0] == "bin" and c[1] in ("Eq", "Ne") and (_ic(c[3], 0) or _ic(c[2], 0)):
                    return "nul" if c[1] == "Eq" else ("not", "nul")
                return None
            at, tb = _bf(prog, filt, _atom)
            if at is None:
                atoms.add(("other", str(tb)[:60]))
            else:
                want = {"ws": lambda k: not k["ws"], "nul": lambda k: not k["nul"]}
                if all(tb[k] == all(not v for v in k) for k in tb) and at:
                    atoms = set(at)
                else:
                    atoms = {("other", "keeps a character when %s" % sorted(dict(zip(at, k)) and str(dict(zip(at, k))) for k in tb if tb[k])[:2])}
        out.append({"term": t, "bid": bid, "chars_src": chars[2][0], "col": col, "row": row, "ch": ch, "filter_atoms": atoms, "has_filter": bool(filt)})
    return out



def origin_mentions(prog, q, e, pred, region, root=None, depth=0, _seen=None):
    """does the value `e` (an expression of body q) mention something satisfying `pred`, when the parameters of q are
    traced back: captured variables of a closure to what the creating body captured, parameters of a private helper
    to the arguments at every call site inside `region` (the bodies a rule looks at)?  `root` is the entry of the
    region: its parameters are the rule's inputs and are not traced further."""
    from .mirlib import Expr, Program
    from .exprs import mentions, strip
    if mentions(e, pred):
        return True
    if depth > 6:
        return False
    _seen = _seen if _seen is not None else set()
    refs = []
    mentions(e, lambda z: z[0] == "param" and refs.append(z) and False)
    for z in refs:
        key = (q, z[1], tuple(z[2][:1]))
        if key in _seen:
            continue
        _seen.add(key)
        if "{closure" in q.rsplit("::", 1)[-1] and z[1] == 1:
            idx = [f for f in z[2] if str(f).isdigit()]
            parent = q.rsplit("::{closure", 1)[0]
            if idx and parent in prog.bodies:
                pex = Expr(prog, parent)
                for blk in prog.bodies[parent]["blocks"]:
                    for st in blk["stmts"]:
                        rv = st.get("rv") or {}
                        if rv.get("k") == "agg" and rv.get("closure") == q and int(idx[0]) < len(rv["ops"]):
                            if origin_mentions(prog, parent, pex.operand(rv["ops"][int(idx[0])]), pred, region, root, depth + 1, _seen):
                                return True
        elif "{closure" not in q.rsplit("::", 1)[-1] and q != root:
            for c in region:
                cex = None
                for bid, t in prog.calls(c):
                    if Program.callee_name(t) == q and z[1] - 1 < len(t["args"]):
                        cex = cex or Expr(prog, c)
                        if origin_mentions(prog, c, cex.operand(t["args"][z[1] - 1]), pred, region, root, depth + 1, _seen):
                            return True
    return False


def blank_guard_atoms(prog, path, bid, ch_expr=None):
    """what the guards of block `bid` establish about the character that is inserted there, in terms of the two tests
    `is_whitespace(ch)` and `ch == NUL`: a list of 'ws' / 'nul' (the test is known to be false) or 'other:<cond>'.  A
    guard that calls a crate-local boolean helper (`!is_blank(ch)`) is decided through exprs.bool_function: it
    contributes the tests whose value it fixes."""
    from .mirlib import expr_str as _es
    from .exprs import strip as _s, is_const as _ic, bool_function as _bf, subst_params as _sp, simplify as _si

    def _atom(c):
        if c[0] == "call" and c[1].endswith("is_whitespace") and c[2]:
            return "ws"
        if c[0] == "bin" and c[1] in ("Eq", "Ne") and (_ic(c[3], 0) or _ic(c[2], 0)):
            return "nul" if c[1] == "Eq" else ("not", "nul")
        return None
    out = []
    for c, tk, sw in guards(prog, path, bid):
        c = _s(c)
        truth = (tk != 0) if not isinstance(tk, tuple) else (0 in tk[1])
        neg = False
        while c[0] == "un" and c[1] == "Not":
            c, neg = _s(c[2]), not neg
        if neg:
            truth = not truth
        if c[0] == "discr":
            continue
        a = _atom(c)
        if a is not None:
            if isinstance(a, tuple):
                a, truth = a[1], not truth
            out.append(a if not truth else "other:%s must hold" % a)
            continue
        if c[0] == "call" and c[1] in prog.bodies and "{closure" not in c[1] and prog.bodies[c[1]].get("crate") == prog.bodies[path].get("crate"):
            args = c[2]
            at, tb = _bf(prog, c[1], lambda x: _atom(_s(_si(_sp(x, args)))))
            if at is not None:
                sat = [k for k in tb if tb[k] == truth]
                fixed = [a_ for i_, a_ in enumerate(at) if sat and all(k[i_] == sat[0][i_] for k in sat)]
                if sat and len(fixed) == len(at) and len(sat) == 1:
                    for i_, a_ in enumerate(at):
                        out.append(a_ if not sat[0][i_] else "other:%s must hold" % a_)
                    continue
        out.append("other:" + _es(c)[:50])
    # the loop may run over an already filtered iterator (`for (x, ch) in chars.enumerate().filter(P)`): P's tests count too
    if ch_expr is not None:
        from .exprs import mentions as _m, closure_of as _co
        filt = []
        _m(ch_expr, lambda z: z[0] == "call" and re.search(r"Iterator::filter$", z[1]) and len(z[2]) == 2 and filt.append(z) and False)
        for f in filt:
            cl, _caps = _co(_s(f[2][1]))
            if cl in prog.bodies:
                at, tb = _bf(prog, cl, _atom)
                if at is not None and at and all(tb[k] == all(not v for v in k) for k in tb):
                    out.extend(at)
                else:
                    out.append("other:filter closure %s" % (str(tb)[:40] if at is None else "keeps more than non-blank characters"))
    return out
