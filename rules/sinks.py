"""Sink census and escaping verification shared by C02 (well-formedness / round trip) and C08
(no markup injection).  Every sauron constructor that puts a string into the document is a sink;
its argument expression (reconstructed from MIR) must be provably harmless for that sink."""
import re

from .charset import CS, NON_XML, PredEval, Unknown, decode_entity
from .common import lib_reachable, short, src_fn, where
from .exprs import closure_of, mentions, strip
from .grammar import GrammarError, load_parser_module
from .mirlib import Expr, Program, expr_str

FORBIDDEN = {
    "text": CS.of("<", "&", ">") | NON_XML,
    "attr": CS.of("<", "&", '"') | NON_XML,
}
NUMERIC = re.compile(r"^&*(f32|f64|i8|i16|i32|i64|i128|isize|u8|u16|u32|u64|u128|usize|bool)$")
STRINGY = re.compile(r"str\b|String|Value|char|Cow")

SAURON_UNITS = re.compile(r"^sauron_core::html::units::")


def sink_kind(name):
    n = name.replace("sauron_core::", "")
    if re.search(r"^html::text$|^html::tags::.*text$|vdom::.*::text$|^html::text_node|safe_html|^html::comment|leaf::", n):
        if re.search(r"safe_html|comment|doctype|raw|symbol", n):
            return "raw"
        return "text"
    if re.search(r"attributes?::", n) or re.search(r"::attr$|::attr_ns$", n):
        return "attr"
    if re.search(r"html_element|element_ns|::tags::", n):
        return "element"
    return None


class SinkAnalysis:
    def __init__(self, run, rule_prefix):
        self.run = run
        self.prog = run.prog
        self.rp = rule_prefix
        self.escapers = {}  # body path -> (identity CS, dropped CS, problems)
        self.grammar, self.gmod, self.gfile = load_parser_module(run)
        self._field_cache = {}
        self._item_origin = {}
        self._fn_cache = {}
        self.stats = {"sinks": 0, "string_sinks": 0, "by_kind": {}}

    # ------------------------------------------------------------------ types
    def param_type(self, path, e):
        """type string of ('param', i, fields) following ADT field definitions"""
        b = self.prog.bodies[path]
        ty = b["locals"][e[1]]["ty"]
        for f in e[2]:
            if f.startswith("@") or f == "[]":
                continue
            base = ty.lstrip("&").replace("mut ", "").strip()
            head = base.split("<")[0]
            adt = self.prog.adts.get(head)
            if adt is None:
                # closure capture or tuple: unknown
                return None
            hit = None
            for v in adt["variants"]:
                for fd in v["fields"]:
                    if fd["name"] == f:
                        hit = fd["ty"]
            if hit is None:
                return None
            ty = hit
        return ty

    def term_of(self, path, e):
        try:
            return self.prog.bodies[path]["blocks"][e[3]]["term"]
        except Exception:
            return None

    # ------------------------------------------------------------------ escaper verification (S2)
    def verify_escaper(self, path):
        """path: a workspace fn (&str) -> String.  Returns dict(identity=CS, dropped=CS, problems=[..]) if
        it has the shape `s.chars().map(F).collect()` with F a char->string match table."""
        if path in self.escapers:
            return self.escapers[path]
        res = None
        prog = self.prog
        b = prog.bodies.get(path)
        if b is not None and b["argc"] == 1:
            ex = Expr(prog, path)
            sl = prog.slicer(path)
            table = None
            raw_guards = []   # predicate fns under whose *absence* the input is returned unchanged
            bad_shape = False
            defs0 = [(kind, d, bid) for kind, d, bid in sl.defs.get(0, ()) if kind in ("assign", "call")]
            for kind, d, bid in defs0:
                if kind == "call":
                    r = ("call", Program.callee_name(d), tuple(ex.operand(a) for a in d["args"]), bid)
                else:
                    r = ex._rvalue(d["rv"], bid, 0)
                r = strip(r)
                if r[0] == "call" and re.search(r"Iterator::collect$", r[1]):
                    m = strip(r[2][0])
                    if m[0] == "call" and re.search(r"Iterator::map$", m[1]) and len(m[2]) == 2:
                        src = strip(m[2][0])
                        f = m[2][1]
                        if src[0] == "call" and re.search(r"str::<impl str>::chars$|str>::chars$", src[1]) and strip(src[2][0]) == ("param", 1, ()):
                            if f[0] == "fn" and f[1] in prog.bodies and table is None:
                                table = self._char_table(f[1])
                                continue
                    bad_shape = True
                elif r == ("param", 1, ()) or (r[0] == "call" and re.search(r"to_string$|to_owned$|String as core::convert::From<&str>>::from$", r[1]) and strip(r[2][0]) == ("param", 1, ())):
                    # a fast path returning the input unchanged: only acceptable under `!s.chars().any(pred)`
                    from .common import guards
                    pred = None
                    for c, tk, sw in guards(prog, path, bid):
                        c = strip(c)
                        if c[0] == "call" and re.search(r"Iterator::any$|Iterator>::any$", c[1]) and tk == 0:
                            srcc = strip(c[2][0])
                            fn = c[2][1]
                            if mentions(srcc, lambda z: z[0] == "call" and z[1].endswith("str::<impl str>::chars") and strip(z[2][0]) == ("param", 1, ())) and fn[0] == "fn":
                                pred = fn[1]
                    if pred is None:
                        bad_shape = True
                    else:
                        raw_guards.append(pred)
                else:
                    bad_shape = True
            if table is not None and not bad_shape:
                res = dict(table)
                for pred in raw_guards:
                    ps = self._pred_set(pred)
                    if ps is None:
                        res = dict(res)
                        res["problems"] = res["problems"] + ["fast path guarded by %s, which is not interpretable" % short(pred)]
                    else:
                        # characters outside the predicate pass through unchanged whenever the whole run avoids the predicate
                        res["identity"] = res["identity"] | (~ps)
                        res["dropped"] = res["dropped"] - (~ps) if False else res["dropped"]
                        res["fast_path"] = short(pred)
        if res is None and b is not None and b["argc"] == 1 and b["locals"][0]["ty"] == "alloc::string::String":
            res = self._escaper_by_interpretation(path)
        self.escapers[path] = res
        return res

    def _escaper_by_interpretation(self, path):
        """the same verdict for an escaping function written in another shape (a loop with push/push_str, a helper
        returning Option<&str> ...): its syntax tree is *interpreted* on every single character of the BMP (all
        characters XML cannot carry and all markup characters live there) and on samples beyond it, and on a few
        multi-character strings to establish that it works character by character.  None if it is not interpretable
        or does not look like an escaper (some character must be replaced)."""
        from .strpipe import StrEval
        from .common import src_file
        prog = self.prog
        fb = prog.bodies[path]
        f, v = src_file(self.run, fb["span"]["file"])
        if v is None:
            return None
        name = path.split("::")[-1]

        def items_of(node, out):
            for it in node.get("items", []):
                if it.get("k") == "fn" and not it.get("test"):
                    out.setdefault(it["name"], it)
                elif it.get("k") == "mod" and it.get("inline") and not it.get("test"):
                    items_of(it, out)
        fns = {}
        items_of(v, fns)
        item = fns.get(name)
        if item is None:
            return None
        others = {k: it for k, it in fns.items() if k != name}

        def run(text):
            ev = StrEval((), others)
            out = ev.call_fn(item, [text])
            if isinstance(out, list):
                out = "".join(out)
            if not isinstance(out, str):
                raise Unknown("result is not a string")
            return out
        # Abstract evaluation over a partition of the characters: the interpreter lets the code observe a character
        # only through comparisons with literals, range/or patterns and a fixed list of std predicates, so two
        # characters that no such test separates take the same path and produce the same kind of output.  The
        # partition is cut at every literal / range bound / predicate bound that occurs in the function and its
        # helpers (and at the bounds of the XML character classes, to report exact sets); one representative per
        # class is evaluated.
        cuts = {0, 0xD800, 0xE000, 0x110000}

        def collect(n):
            if isinstance(n, dict):
                if n.get("k") == "lit" and n.get("ty") == "char" and "cp" in n:
                    cuts.update((n["cp"], n["cp"] + 1))
                if n.get("pk") == "lit" and isinstance(n.get("lit"), dict) and "cp" in n["lit"]:
                    cuts.update((n["lit"]["cp"], n["lit"]["cp"] + 1))
                if n.get("pk") == "range":
                    lo = n["lo"]["cp"] if n.get("lo") else 0
                    hi = n["hi"]["cp"] if n.get("hi") else 0x10FFFF
                    cuts.update((lo, hi + (1 if n.get("inclusive") else 0)))
                for v_ in n.values():
                    collect(v_)
            elif isinstance(n, list):
                for v_ in n:
                    collect(v_)
        for it in fns.values():
            collect(it)
        from .charset import WHITESPACE as _WS
        for cs_ in (_WS, NON_XML, FORBIDDEN["text"], FORBIDDEN["attr"], CS([(0, 0x1F), (0x7F, 0x9F)]), CS([(0x30, 0x39), (0x41, 0x5A), (0x61, 0x7A)])):
            for lo, hi in cs_.iv:
                cuts.update((lo, hi + 1))
        bounds = sorted(c for c in cuts if 0 <= c <= 0x110000)
        identity, dropped, problems, replaced = [], [], [], 0
        n_classes = 0
        try:
            for lo, hi in zip(bounds, bounds[1:]):
                if lo >= 0xD800 and hi <= 0xE000:
                    continue
                n_classes += 1
                ch = chr(lo)
                out = run(ch)
                if out == ch:
                    identity.append((lo, hi - 1))
                elif out == "":
                    dropped.append((lo, hi - 1))
                    replaced += 1
                else:
                    replaced += 1
                    dec = decode_entity(out)
                    if (dec != ch or hi - lo != 1) and len(problems) < 5:
                        problems.append("%s replaced by %r, which does not decode to the same character (round trip broken)" % (
                            ("%r" % ch) if hi - lo == 1 else "the characters U+%04X..U+%04X are" % (lo, hi - 1), out))
            for sample in ("", "ab", "a<b&c>\"d'", "x\ry\x01z\uffff", "<<&&", "\u4e00&\U0001F600<"):
                if run(sample) != "".join(run(c) for c in sample):
                    problems.append("the function does not work character by character on %r" % sample)
        except (Unknown, RecursionError, KeyError, TypeError, ValueError) as ex:
            return None
        if not replaced:
            return None

        ident = CS(identity)
        return {"fn": path, "identity": ident, "dropped": CS(dropped), "problems": problems,
                "entries": [("abstract evaluation over %d character classes" % n_classes, "interp", None, n_classes)],
                "where": "%s:%d" % (fb["span"]["file"], item["pos"][0]), "interpreted": True}

    def _pred_set(self, fpath):
        """character set of a workspace `fn(char) -> bool` (syntax tree of its file)"""
        prog = self.prog
        fb = prog.bodies.get(fpath)
        if fb is None:
            return None
        file = fb["span"]["file"]
        from .common import src_file
        f, v = src_file(self.run, file)
        if v is None:
            return None
        fns = {}

        def scan(items):
            for it in items:
                if not isinstance(it, dict):
                    continue
                if it.get("k") == "fn" and not it.get("test"):
                    ins = it["sig"]["inputs"]
                    if len(ins) == 1 and (ins[0].get("ty") or "").replace(" ", "") == "char" and (it["sig"].get("ret") or "").replace(" ", "") == "bool":
                        fns[it["name"]] = it
                elif it.get("k") == "impl":
                    scan(it["items"])
                elif it.get("k") == "mod" and it.get("inline") and not it.get("test"):
                    scan(it["items"])

        scan(v["items"])
        name = fpath.split("::")[-1]
        if name not in fns:
            return None
        try:
            return PredEval(fns).fn_set(name)
        except Unknown:
            return None

    def _char_table(self, fpath):
        """interpret `fn f(ch: char) -> .. { match ch { pat => replacement, .. } }` from the syntax tree"""
        prog = self.prog
        fb = prog.bodies[fpath]
        file = fb["span"]["file"]
        name = fpath.split("::")[-1]
        item = src_fn(self.run, file, name)
        if item is None:
            return None
        ins = item["sig"]["inputs"]
        if len(ins) != 1 or "pat" not in ins[0]:
            return None
        var = ins[0]["pat"].get("name")
        stmts = item["body"]["stmts"]
        if len(stmts) != 1 or stmts[0]["k"] != "expr_stmt":
            return None
        m = stmts[0]["expr"]
        if m.get("k") != "match" or m["e"].get("path") != var:
            return None
        pe = PredEval(self.grammar.preds.fns if self.grammar else {})
        remaining = CS.all()
        identity = CS()
        dropped = CS()
        problems = []
        entries = []
        for arm in m["arms"]:
            try:
                s = pe.pat_set(arm["pat"])
                if arm.get("guard"):
                    bound = arm["pat"].get("name") or var
                    s = s & pe.eval(arm["guard"], bound)
            except Unknown as ex:
                problems.append("arm `%s` not interpretable (%s)" % (arm["pat"]["src"], ex))
                continue
            s = s & remaining
            remaining = remaining - s
            kind, val = self._replacement(arm["body"], arm["pat"].get("name") or var, var)
            entries.append((arm["pat"]["src"], kind, val, s.count()))
            if kind == "identity":
                identity = identity | s
            elif kind == "const":
                if val == "":
                    dropped = dropped | s
                else:
                    dec = decode_entity(val)
                    if dec is None:
                        problems.append("arm `%s`: replacement %r is not a single entity or character reference" % (arm["pat"]["src"], val))
                    elif s != CS.of(dec):
                        problems.append("arm `%s`: replacement %r decodes to %r, not to the matched character(s) %s (round trip broken)" % (
                            arm["pat"]["src"], val, dec, s.describe(3)))
            else:
                problems.append("arm `%s`: replacement expression not recognised" % arm["pat"]["src"])
        if remaining:
            problems.append("match not exhaustive in the interpreter's view: %s" % remaining.describe(3))
        return {"fn": fpath, "identity": identity, "dropped": dropped, "problems": problems, "entries": entries,
                "where": "%s:%d" % (file, item["pos"][0])}

    def _replacement(self, body, bound, var):
        """('const', str) | ('identity', None) | ('unknown', None)"""
        e = body
        # peel Cow::from(..), String::from(..), .into(), .to_string() on literals
        for _ in range(6):
            k = e.get("k")
            if k == "call" and e["func"].get("k") == "path" and e["func"]["path"].split("::")[-1] in ("from", "Borrowed", "Owned", "new") and len(e["args"]) == 1:
                e = e["args"][0]
                continue
            if k == "method" and e["method"] in ("into", "to_owned", "to_string", "into_owned") and not e["args"]:
                inner = e["recv"]
                if inner.get("k") == "path" and inner["path"] in (bound, var) and e["method"] == "to_string":
                    return "identity", None
                e = inner
                continue
            break
        if e.get("k") == "lit" and e.get("ty") == "str":
            return "const", e["v"]
        if e.get("k") == "path" and e["path"] in (bound, var):
            return "identity", None
        if e.get("k") == "macro" and e["name"].endswith("format") and "args" in e:
            a = e["args"]
            if len(a) == 2 and a[0].get("v") == "{}" and a[1].get("path") in (bound, var):
                return "identity", None
        return "unknown", None

    # ------------------------------------------------------------------ safety of an expression for a sink
    def const_ok(self, s, sink):
        bad = [c for c in s if ord(c) in FORBIDDEN[sink]]
        return not bad, bad

    def fmt_template_ok(self, val, sink):
        """the template of format_args is an opaque byte encoding on this nightly; every printable ASCII
        byte in it is treated as literal text (a superset of the literal pieces)"""
        m = re.match(r'^b"(.*)"$', val or "", re.S)
        if not m:
            return False, "template not a byte string"
        raw = m.group(1)
        # decode rust escapes
        out = []
        i = 0
        while i < len(raw):
            c = raw[i]
            if c == "\\" and i + 1 < len(raw):
                n = raw[i + 1]
                if n == "x":
                    out.append(int(raw[i + 2:i + 4], 16))
                    i += 4
                    continue
                out.append({"n": 10, "r": 13, "t": 9, "0": 0, "\\": 92, '"': 34, "'": 39}.get(n, ord(n)))
                i += 2
                continue
            out.append(ord(c))
            i += 1
        lits = "".join(chr(b) for b in out if 0x20 <= b < 0x7F)
        ok, bad = self.const_ok(lits, sink)
        return ok, ("template contains %r" % bad if not ok else "")

    def safe(self, path, e, sink, depth=0):
        """(ok, reason)"""
        if depth > 30:
            return False, "analysis depth exceeded"
        e = strip(e)
        k = e[0]
        if k == "const":
            if e[1] == "str":
                ok, bad = self.const_ok(e[2], sink)
                return ok, ("constant contains %r" % bad if not ok else "constant")
            if e[1] in ("int", "float"):
                return True, "numeric constant"
            if e[1] == "other":
                v = str(e[2])
                if re.match(r'^const ".*"$', v) or v.startswith('"'):
                    ok, bad = self.const_ok(v, sink)
                    return ok, "constant"
                return True, "non-string constant"
        if k in ("bin", "un", "discr"):
            return True, "arithmetic/boolean value"
        if k == "cast":
            return self.safe(path, e[2], sink, depth + 1) if not NUMERIC.match(str(e[3] if len(e) > 3 else "")) else (True, "numeric cast")
        if k == "agg":
            cl, _ = closure_of(e)
            if cl:
                return False, "closure value"
            for _, x in e[3]:
                ok, why = self.safe(path, x, sink, depth + 1)
                if not ok:
                    return ok, why
            return True, "aggregate of safe parts"
        if k == "field":
            return self.safe(path, e[1], sink, depth + 1)
        if k == "phi":
            for x in e[1]:
                ok, why = self.safe(path, x, sink, depth + 1)
                if not ok:
                    return ok, why
            return True, "all definitions safe"
        if k == "mutated_by":
            for x in e[2]:
                if x == ("self",):
                    continue
                ok, why = self.safe(path, x, sink, depth + 1)
                if not ok:
                    return False, "via %s: %s" % (short(e[1]), why)
            return True, "mutations add safe parts only"
        if k == "param":
            ty = self.param_type(path, e)
            if ty and NUMERIC.match(ty):
                return True, "numeric/bool by type (%s)" % ty
            if path in self._item_origin and e[1] == 2:
                comp = [f for f in e[2] if f.isdigit()]
                if comp:
                    return self.item_component_safe(self._item_origin[path], comp[0], sink, depth + 1)
            fields = [f for f in e[2] if not f.startswith("@") and f != "[]"]
            b = self.prog.bodies[path]
            base_ty = b["locals"][e[1]]["ty"].lstrip("&").replace("mut ", "").strip().split("<")[0]
            if fields and base_ty in self.prog.adts and self.prog.adts[base_ty]["crate"] in self.prog.crates:
                return self.field_safe(base_ty, fields, sink, depth + 1)
            # a parameter of a function that is not visible outside its crate: harmless if every caller passes a
            # harmless value (e.g. the css of the legend, escaped where it is built)
            # (public helpers are analysed as they are called from the conversion entry points; the parameters of
            # the entry points themselves are the input)
            from .common import LIB_ENTRY
            is_entry = path in LIB_ENTRY
            if not fields and not is_entry and "{closure" not in path and 1 <= e[1] <= b["argc"]:
                callers = list(self.prog.callers(path))
                if callers:
                    for cp, cbid, ct in callers:
                        if e[1] - 1 >= len(ct["args"]):
                            return False, "caller %s passes fewer arguments" % short(cp)
                        ce = Expr(self.prog, cp).operand(ct["args"][e[1] - 1])
                        ok, why = self.safe(cp, ce, sink, depth + 1)
                        if not ok:
                            return False, "argument %d of %s, passed by %s: %s" % (e[1], short(path), short(cp), why)
                    return True, "every caller (%d) passes a harmless value" % len(callers)
            return False, "input-derived value `%s` (%s) reaches the sink without escaping" % (expr_str(e), ty or b["locals"][e[1]]["ty"])
        if k == "call":
            name = e[1]
            args = e[2]
            if name in self.prog.bodies:
                esc = self.verify_escaper(name)
                if esc is not None:
                    if esc["problems"]:
                        return False, "escaping function %s is not faithful: %s" % (short(name), esc["problems"][0])
                    leak = esc["identity"] & FORBIDDEN[sink]
                    if leak:
                        return False, "escaping function %s lets %s through unchanged" % (short(name), leak.describe(4))
                    return True, "output of verified escaping function %s" % short(name)
                return self.fn_returns_safe(name, sink, depth + 1)
            if re.search(r"^core::(result::Result::<T, E>|option::Option::<T>)::(unwrap_or_default|unwrap_or|unwrap|expect|ok|unwrap_or_else|or|cloned|copied)$", name) and args:
                # the payload (and the fallback value, if any) decide; a closure fallback is followed
                for a in args[:2] if name.endswith(("unwrap_or", "or")) else args[:1]:
                    ok, why = self.safe(path, a, sink, depth + 1)
                    if not ok:
                        return ok, why
                if name.endswith("unwrap_or_else") and len(args) == 2:
                    cl, _ = closure_of(args[1])
                    if not (cl and cl in self.prog.bodies):
                        return False, "unwrap_or_else with an unknown fallback"
                    for r in Expr(self.prog, cl).returns():
                        ok, why = self.safe(cl, r, sink, depth + 1)
                        if not ok:
                            return False, "fallback closure %s: %s" % (short(cl), why)
                return True, "payload of a harmless Result/Option"
            if re.search(r"hint::must_use$", name) and len(args) == 1:
                return self.safe(path, args[0], sink, depth + 1)
            if re.search(r"^alloc::fmt::format$", name) and len(args) == 1:
                return self.fmt_safe(path, args[0], sink, depth + 1)
            if re.search(r"<impl \[T\]>::join$|::join$|::concat$", name):
                for a in args:
                    ok, why = self.safe(path, a, sink, depth + 1)
                    if not ok:
                        return ok, why
                return True, "join of safe parts"
            if re.search(r"Iterator::collect$|IntoIterator::into_iter$|::iter$|Iterator::rev$|Iterator::cloned$|Iterator::copied$", name):
                return self.safe(path, args[0], sink, depth + 1)
            if re.search(r"Iterator::map$", name) and len(args) == 2:
                cl, caps = closure_of(args[1])
                if cl and cl in self.prog.bodies:
                    # what does the closure's argument range over?  (elements of a field of a workspace type)
                    src = strip(args[0])
                    while src[0] == "call" and src[2] and re.search(r"::(iter|into_iter|deref|rev|cloned|copied)$", src[1]):
                        src = strip(src[2][0])
                    if src[0] == "param" and src[2]:
                        bty = self.prog.bodies[path]["locals"][src[1]]["ty"].lstrip("&").replace("mut ", "").strip().split("<")[0]
                        fl = [f for f in src[2] if not f.startswith("@") and f != "[]"]
                        if fl and bty in self.prog.adts:
                            self._item_origin[cl] = (bty, fl[0])
                    for r in Expr(self.prog, cl).returns():
                        ok, why = self.safe(cl, r, sink, depth + 1)
                        if not ok:
                            return False, "closure %s: %s" % (short(cl), why)
                    return True, "mapped through a closure with safe results"
                return False, "map with unknown function"
            if re.search(r"ToString>::to_string$|string::ToString::to_string$", name):
                t = self.term_of(path, e)
                g = (t or {}).get("callee", {}).get("generics") or [""]
                if NUMERIC.match(g[0]):
                    return True, "to_string of a number"
                return self.safe(path, args[0], sink, depth + 1)
            if SAURON_UNITS.search(name):
                t = self.term_of(path, e)
                if t and all(NUMERIC.match(a) for a in t.get("arg_tys", [])):
                    return True, "sauron unit helper on a number"
                return False, "sauron unit helper on a non-number"
            if re.search(r"Vec::<T>::new$|String::new$|Vec::<T, A>::new|vec::from_elem", name) and not args:
                return True, "empty"
            if re.search(r"(Vec::<T>|Vec::<T, A>|String)::with_capacity$", name):
                return True, "empty (with capacity)"
            if re.search(r"pom::parser::Parser::<'a, I, O>::parse$", name) and len(args) == 2:
                g = strip(args[0])
                if g[0] == "call" and self.grammar is not None:
                    gname = g[1].split("::")[-1]
                    try:
                        cs = self.grammar.output_charset(self.grammar.tree(gname))
                    except (GrammarError, Unknown) as ex:
                        return False, "grammar %s not interpretable: %s" % (gname, ex)
                    leak = cs & FORBIDDEN[sink]
                    for owner, litv in self.grammar.map_literals:
                        if litv.replace("{}", "") != "":
                            return False, "grammar %s: map closure inserts literal text %r" % (owner, litv)
                    if leak:
                        return False, "grammar %s can output %s" % (gname, leak.describe(4))
                    return True, "output of grammar `%s` whose output alphabet (%d chars) excludes the sink's forbidden characters" % (gname, cs.count())
                return False, "parse with unknown grammar"
            return False, "result of %s is not known to be harmless" % short(name)
        if k == "static":
            return False, "static value"
        return False, "unrecognised expression %s" % expr_str(e)[:60]

    def fmt_safe(self, path, a, sink, depth):
        a = strip(a)
        if a[0] != "call" or not re.search(r"fmt::Arguments::<'a>::new", a[1]):
            if a[0] == "call" and re.search(r"Arguments::<'a>::from_str|new_const", a[1]):
                return self.safe(path, a[2][0], sink, depth + 1)
            return False, "format with unrecognised arguments"
        tmpl = strip(a[2][0])
        if tmpl[0] != "const":
            return False, "non-constant format template"
        ok, why = self.fmt_template_ok(tmpl[2] if tmpl[1] != "str" else 'b"%s"' % tmpl[2], sink)
        if not ok:
            return False, why
        if len(a[2]) > 1:
            arr = strip(a[2][1])
            items = [x for _, x in arr[3]] if arr[0] == "agg" else [arr]
            for it in items:
                it = strip(it)
                if it[0] != "call" or not re.search(r"fmt::rt::Argument::<'_>::new_(display|debug|lower_hex|upper_hex|lower_exp)", it[1]):
                    return False, "format argument %s not recognised" % expr_str(it)[:50]
                t = self.term_of(path, it)
                g = (t or {}).get("callee", {}).get("generics") or [""]
                ty = g[-1] if g else ""
                ty = [x for x in g if not x.startswith("'")][-1] if [x for x in g if not x.startswith("'")] else ""
                if NUMERIC.match(ty):
                    continue
                base = ty.lstrip("&").split("<")[0]
                if base in self.prog.adts:
                    ok, why = self.display_const_only(base, sink)
                    if not ok:
                        return False, why
                    continue
                ok, why = self.safe(path, it[2][0], sink, depth + 1)
                if not ok:
                    return False, why
        return True, "format! of a harmless template with numeric/verified arguments"

    def display_const_only(self, adt, sink):
        """<adt as Display>::fmt writes only harmless constants"""
        key = ("display", adt, sink)
        if key in self._fn_cache:
            return self._fn_cache[key]
        prog = self.prog
        res = (False, "no Display impl for %s" % adt)
        for p in prog.methods("fmt", re.escape(adt) + r"$", r"fmt::Display$"):
            ok = True
            why = "Display of %s writes constants only" % short(adt)
            ex = Expr(prog, p)
            for bid, t in prog.calls(p):
                name = Program.callee_name(t)
                if re.search(r"Formatter::<'\w+>::write_str$|Formatter<'\w+> as core::fmt::Write>::write_str$", name):
                    o, w = self.safe(p, ex.operand(t["args"][1]), sink, 2)
                    if not o:
                        ok, why = False, "Display of %s: %s" % (short(adt), w)
                elif re.search(r"Formatter::<'\w+>::write_fmt$", name):
                    o, w = self.fmt_safe(p, ex.operand(t["args"][1]), sink, 2)
                    if not o:
                        ok, why = False, "Display of %s: %s" % (short(adt), w)
                elif re.search(r"fmt::Arguments|Argument::<'_>::new|discriminant|Deref", name):
                    continue
                elif re.search(r"Display>::fmt$|fmt::Display::fmt$", name):
                    g = (t["callee"].get("generics") or [""])[0]
                    if not NUMERIC.match(g):
                        ok, why = False, "Display of %s delegates to Display of %s" % (short(adt), g)
                else:
                    ok, why = False, "Display of %s calls %s" % (short(adt), short(name))
            res = (ok, why)
        self._fn_cache[key] = res
        return res

    def fn_returns_safe(self, fn, sink, depth):
        key = ("fn", fn, sink)
        if key in self._fn_cache:
            return self._fn_cache[key]
        self._fn_cache[key] = (False, "recursive")
        res = (True, "all returns of %s are harmless" % short(fn))
        rets = Expr(self.prog, fn).returns()
        if not rets:
            res = (False, "no return expression for %s" % short(fn))
        for r in rets:
            ok, why = self.safe(fn, r, sink, depth + 1)
            if not ok:
                res = (False, "%s: %s" % (short(fn), why))
                break
        self._fn_cache[key] = res
        return res

    def field_sources(self, adt, field):
        """expressions written into adt.field anywhere in the workspace: [(body, expr, where)]"""
        key = (adt, field)
        if key in self._field_cache:
            return self._field_cache[key]
        out = []
        prog = self.prog
        for p, b in prog.bodies.items():
            ex = None
            for blk in b["blocks"]:
                if blk["cleanup"]:
                    continue
                for st in blk["stmts"]:
                    rv = st.get("rv")
                    if not rv:
                        continue
                    if rv.get("k") == "agg" and rv.get("adt") == adt and field in (rv.get("fields") or []):
                        ex = ex or Expr(prog, p)
                        out.append((p, ex.operand(rv["ops"][rv["fields"].index(field)]), where(st)))
                    dst = st["dst"]
                    prs = [pr for pr in dst["p"] if isinstance(pr, dict) and "f" in pr]
                    if prs and prs[-1].get("adt") == adt and prs[-1].get("name") == field:
                        ex = ex or Expr(prog, p)
                        out.append((p, ex._rvalue(rv, blk["id"], 0), where(st)))
                    # &mut adt.field handed to a call: find the call(s) using that reference
                    if rv.get("k") == "refmut":
                        prs = [pr for pr in rv["place"]["p"] if isinstance(pr, dict) and "f" in pr]
                        if prs and prs[-1].get("adt") == adt and prs[-1].get("name") == field:
                            ex = ex or Expr(prog, p)
                            tl = st["dst"]["l"]
                            sl = prog.slicer(p)
                            for use, idx in sl.forward_uses(tl):
                                if use.get("k") == "call":
                                    margs = tuple(("self",) if i == idx else ex.operand(a) for i, a in enumerate(use["args"]))
                                    out.append((p, ("mutated_by", Program.callee_name(use), margs, 0), where(use)))
        self._field_cache[key] = out
        return out

    def item_component_safe(self, origin, comp, sink, depth):
        """component `comp` of the tuples stored in adt.field: harmless when every writer stores the result of a
        pom grammar whose list items are pairs and whose `comp`-th component has a harmless output alphabet"""
        adt, field = origin
        srcs = [x for x in self.field_sources(adt, field) if not re.search(r" as core::clone::Clone>::clone$", x[0])]
        if not srcs or self.grammar is None:
            return False, "elements of %s.%s: no writer found" % (short(adt), field)
        n = 0
        for p, e, w in srcs:
            if mentions(e, lambda z: z[0] == "call" and re.search(r"Vec::<T>::new$|Default>::default$", z[1])) and not mentions(e, lambda z: z[0] == "param"):
                continue
            # the workspace function whose result is stored, and the grammar it runs (direct calls only)
            fns = []
            self._collect_writer_fns(p, e, fns, 0)
            gnames = set()
            for f in fns:
                seen, work = set(), [f]
                while work:
                    q = work.pop()
                    if q in seen or q not in self.prog.bodies:
                        continue
                    seen.add(q)
                    qex = None
                    for _, t in self.prog.calls(q):
                        nm = Program.callee_name(t)
                        if re.search(r"pom::parser::Parser::<'a, I, O>::parse$", nm):
                            qex = qex or Expr(self.prog, q)
                            ge = strip(qex.operand(t["args"][0]))
                            if ge[0] == "call":
                                gnames.add(ge[1].split("::")[-1])
                        elif nm in self.prog.bodies and self.prog.bodies[nm].get("crate") == self.prog.bodies[q].get("crate"):
                            work.append(nm)
            if not gnames:
                return False, "%s.%s is written in %s with a value that is not the result of a known grammar" % (short(adt), field, short(p))
            for gname in gnames:
                try:
                    pair = self._list_item_pair(self.grammar.tree(gname))
                    if pair is None:
                        return False, "grammar %s does not yield a list of pairs" % gname
                    cs = self.grammar.output_charset(pair[int(comp)])
                except (GrammarError, Unknown, IndexError, ValueError) as ex:
                    return False, "grammar %s not interpretable: %s" % (gname, ex)
                leak = cs & FORBIDDEN[sink]
                if leak:
                    return False, "component %s of the entries of grammar %s can contain %s" % (comp, gname, leak.describe(4))
                n += 1
        if not n:
            return False, "elements of %s.%s: no grammar-produced writer" % (short(adt), field)
        return True, "component %s of %s.%s entries: grammar output alphabet excludes the sink's forbidden characters" % (comp, short(adt), field)

    def _collect_writer_fns(self, p, e, out, depth):
        """workspace functions whose results flow into e (through parameters of p: the callers' arguments)"""
        if depth > 6:
            return
        mentions(e, lambda z: z[0] == "call" and z[1] in self.prog.bodies and out.append(z[1]) and False)
        params = set()
        mentions(e, lambda z: z[0] == "param" and not z[2] and params.add(z[1]) and False)
        for i in params:
            for cp, cbid, ct in self.prog.callers(p):
                if 1 <= i <= len(ct["args"]):
                    self._collect_writer_fns(cp, Expr(self.prog, cp).operand(ct["args"][i - 1]), out, depth + 1)

    def _list_item_pair(self, t):
        if not isinstance(t, tuple):
            return None
        if t[0] == "list" and isinstance(t[1], tuple) and t[1][0] == "seq" and t[1][3] == "both":
            return (t[1][1], t[1][2])
        for x in t[1:]:
            if isinstance(x, tuple):
                r = self._list_item_pair(x)
                if r:
                    return r
        return None

    def field_safe(self, adt, fields, sink, depth):
        field = fields[0]
        key = ("field", adt, field, sink)
        if key in self._fn_cache:
            return self._fn_cache[key]
        self._fn_cache[key] = (True, "recursive")
        srcs = self.field_sources(adt, field)
        res = (True, "every writer of %s.%s stores harmless values (%d writers)" % (short(adt), field, len(srcs)))
        if not srcs:
            res = (False, "no writer of %s.%s found" % (short(adt), field))
        for p, e, w in srcs:
            if re.search(r" as core::clone::Clone>::clone$", p):
                continue
            ok, why = self.safe(p, e, sink, depth + 1)
            if not ok:
                res = (False, "%s.%s is written in %s (%s) with: %s" % (short(adt), field, short(p), w, why))
                break
        self._fn_cache[key] = res
        return res

    # ------------------------------------------------------------------ the census
    def census(self, pid):
        run, prog = self.run, self.prog
        roots, reach = lib_reachable(run, self.rp + ".S1")
        results = []
        for p in sorted(reach):
            ex = None
            for bid, t in prog.calls(p):
                cal = t["callee"]
                kr = cal.get("resolved_krate") or cal.get("krate") or ""
                if not kr.startswith("sauron"):
                    continue
                name = Program.callee_name(t)
                if not re.search(r"vdom::(node::Node|attribute::Attribute|leaf::Leaf)", t.get("dst_ty", "")):
                    continue
                self.stats["sinks"] += 1
                kind = sink_kind(name)
                self.stats["by_kind"][kind or "other"] = self.stats["by_kind"].get(kind or "other", 0) + 1
                if kind == "raw":
                    results.append((p, t, "raw", False, "raw markup constructor %s" % short(name)))
                    continue
                tys = t.get("arg_tys", [])
                if not any(STRINGY.search(a) for a in tys):
                    results.append((p, t, kind, True, "no string-typed argument (%s)" % ", ".join(a.split("::")[-1] for a in tys)))
                    continue
                if kind is None:
                    # node combinators (merge_attributes, with_children...) take nodes/attributes only
                    if any(re.search(r"\bstr\b|String|char|Cow", a) for a in tys):
                        results.append((p, t, "other", False, "string passed to unclassified sauron constructor %s" % short(name)))
                    else:
                        results.append((p, t, "other", True, "node/attribute combinator"))
                    continue
                self.stats["string_sinks"] += 1
                ex = ex or Expr(prog, p)
                sk = "text" if kind == "text" else "attr"
                verdict, reason = True, ""
                for a, ty in zip(t["args"], tys):
                    if not STRINGY.search(ty):
                        continue
                    if re.search(r"vdom::(node|attribute::Attribute)", ty) and not re.search(r"str|String", ty):
                        continue
                    ok, why = self.safe(p, ex.operand(a), sk, 0)
                    if not ok:
                        verdict, reason = False, why
                        break
                    reason = why
                results.append((p, t, sk, verdict, reason))
        return results
