"""source of MANIFEST.json (tools/mkmanifest.py)"""

SETUP_CMD = "./setup.sh"

HOOKS = {
    "guard": "svgbob_verif",
    "enable": "no hooks: the static analysis reads /repo's source through a rustc driver (RUSTC_WORKSPACE_WRAPPER) and a syn extractor; nothing is compiled into svgbob",
    "baseline_off_cmd": "cd /repo && cargo test --workspace --no-fail-fast --offline",
    "source_commits": [],
    "add_only": True,
}

ENGINES = [
    {"name": "mirfacts", "path": "tools/mirfacts", "kind_free_text": "rustc_private driver: type-checked MIR, resolved callees, ADTs, statics, HIR loop/unsafe census -> JSON facts",
     "serves_properties": []},
    {"name": "srcfacts", "path": "tools/srcfacts", "kind_free_text": "syn 2 syntax-tree extractor (literal tables, grammars, match tables, macro bodies) -> JSON facts",
     "serves_properties": []},
    {"name": "rules", "path": "rules", "kind_free_text": "python rule evaluators: call graph, dominators, control dependence, dependence slices, field census, table abstract evaluator, charset and grammar interpreters",
     "serves_properties": []},
]

NOTES = ("Static analysis only: every verdict is computed from /repo's current source (MIR + syntax trees); svgbob is never executed. "
         "Each claim names the structural clause it decides; see DESIGN.md section 4/5 for what is not decided.")

_PENDING = "check not built yet in this session (planned in DESIGN.md); listed here so that nothing is claimed without a check"

CLAIMS = {
    "C07": {
        "text": "Sufficient structural argument for determinism/statelessness: no user unsafe, every static immutable with an interior-mutability-free sync-lazy payload, no ambient-state API on the conversion path, every hash-ordered iteration order-neutralised, pipeline containers ordered. Decided on MIR for every body reachable from the entry points.",
        "design_ref": "DESIGN.md section 4 C07",
        "note": "Assumes dependencies are deterministic; default feature set; decides the purity argument, not runtime behaviour of threads.",
        "technique": "MIR census + dataflow (statics/unsafe/ambient-API census, hash-iteration neutralisation check)",
    },
    "C11": {
        "text": "Structural decision that scale multiplies every length exactly once and nothing else: per fragment type, each length-typed field of the value returned by `scale` is `self.field x scale` (expression reconstructed from MIR, closures followed), other fields do not mention scale; Fragment/FragmentSpan dispatch covers all variants; every Fragment->Node conversion receives a value scaled on every call path (call-graph dominators); canvas size carries settings.scale once; Settings.scale is read nowhere else; default scale 8 and cell 1x2 constants. K7: code that runs on scaled values (Bounds::bounds, Node conversions) takes cell-unit constants only as factors of a scaled field and adds no absolute length. The tag/enclosure pass (FragmentTree and what it calls directly) uses no cell-unit constant at all.",
        "design_ref": "DESIGN.md section 4 C11",
        "note": "Decides the shape of the arithmetic, not f32 rounding; the Node conversions are assumed to emit the fields they are given (attribute mapping is checked for Rect under C05).",
        "technique": "MIR expression reconstruction + pattern rules, call-graph dominators, field read census",
    },
    "C18": {
        "text": "Structural decision on the node builder and entry points: each include_* switch guards exactly its own child (control dependence on the true edge), fragment children/root are unconditional, each switch is read once; cosmetic settings are read only by the style-sheet builder; override size flows only into width/height attributes and fragment nodes do not depend on it; sibling builders and entry points build the same node expression (pretty = compressed modulo render method, to_svg = pretty, get_node = default settings, override = sized with w,h substituted).",
        "design_ref": "DESIGN.md section 4 C18",
        "note": "Trusts sauron's render/render_to_string to differ only in whitespace; decides control dependence and read sets, not the rendered bytes.",
        "technique": "MIR control dependence (post-dominators), field read census, sibling expression comparison",
    },
    "C02": {
        "text": "Structural decision of well-formedness and text round trip: sink census over every sauron constructor call reachable from the entry points (each string argument is a harmless constant, a number, a format! of such, the output of a verified escaping function, or a token of the identifier grammar, followed through struct fields, closures and workspace calls on MIR expressions); the escaping table is interpreted exactly over all Unicode scalar values (identity set excludes < & >, non-XML characters and bare CR; only unrepresentable characters are dropped; every entity decodes to the matched character); root element shape and one render call per entry point.",
        "design_ref": "DESIGN.md section 4 C02",
        "note": "Trusts sauron's serializer as read (text leaves verbatim, attributes double-quoted); feature with-dom out of scope. Two genuine defects were repaired by fix: commits f67c93e and 8a59cee.",
        "technique": "MIR taint/provenance analysis of sink arguments + exact character-set interpretation of the escaping table (syntax tree)",
    },
    "C08": {
        "text": "Structural decision that input cannot inject markup: the C02 sink census (reported under C08), a vocabulary census (no constructor takes an element/attribute name or raw markup/comment from a value), exact output alphabet of the identifier grammars feeding the class attribute and the legend class names (including the `ch as u8` truncation) disjoint from quotes, angle brackets, ampersand, white space and CSS punctuation, and the server handler returning the library string unmodified.",
        "design_ref": "DESIGN.md section 4 C08",
        "note": "Same trusted base as C02. The grammar alphabet is computed from the pom combinator tree extracted from util.rs; map closures are assumed to rearrange characters only (their literals are checked).",
        "technique": "MIR sink census + grammar output-alphabet computation (interval sets) + constructor who-may-call census",
    },
    "C16": {
        "text": "Structural decision of the legend/tag plumbing: rule template decoded from MIR instantiates to `.svgbob .NAME{ DECL }`, one rule per entry in entry order joined by newlines; the drawing receives only input[..legend_start] exactly when the legend parses and the parsed entries become the styles; identifier/tag/entry grammars (extracted pom combinators, PEG-faithful interpreter) accept and reject the statement's witnesses; tags are tried deepest-first (dominance), extend the class list instead of being kept as text. L5 `inside` is bounding-box containment: Fragment::can_fit is the conjunction of the four inclusive comparisons between self.bounds() and other.bounds() (truth table over the path conditions; order, early returns and strict complements accepted). L6 the parsed legend entries are only appended to the stored list (no in-place rewrite, de-duplication, sorting). L7 = C10.I4 (box of line-like shapes).",
        "design_ref": "DESIGN.md section 4 C16",
        "note": "Does not decide what bounds() returns for each shape (C12/C05), float rounding inside can_fit's comparisons, nor which text fragments are merged before tag recognition.",
        "technique": "MIR expression patterns + dominators/control dependence + grammar witness interpretation",
    },
    "C17": {
        "text": "Structural decision of line-ending / trailing-blank insensitivity: rows come from str::lines on the whole input; a cell is inserted only under !is_whitespace of the inserted character; the cell buffer cannot carry a row count; the legend parser input is CR-filtered (closure predicate read from MIR) or else the grammar accepts CRLF witnesses identically, and 192 witness legends with blanks before line ends parse to the canonical entries on the extracted grammar. W3 models the text preparation before the grammar from its source (string-pipeline evaluator, fail closed) and includes multi-line block witnesses (blanks/CR before line ends inside a block). W4 no quoted region of the row grammar line_parse reaches into trailing blanks: the extracted grammar gives the same regions with and without each of four blank suffixes on every row over {letter, blank, quote, backslash} up to length 5. W5 the step that locates the legend (C16.L2's decision, evaluated under C17) does not inspect what follows the marker on its line.",
        "design_ref": "DESIGN.md section 4 C17",
        "note": "Witness documents are a finite sample for the grammar clause (necessary condition); the drawing clause is by construction (str::lines + whitespace guard). Genuine defect repaired by fix: commit cc9a377.",
        "technique": "MIR control dependence + grammar interpretation of witness documents + ADT field census",
    },
    "C03": {
        "text": "Per-cell clause decided exhaustively by table abstract evaluation: for `-`, `|`, `+` and all 4^8 neighbourhoods over {blank,-,|,+} (196 608 cases) the fragments yielded by the behaviour table (syntax tree), folded to exact rationals with grid constants taken from the MIR of the current source, stroke exactly the statement's point set; label characters have no table entry and only table characters enter the property buffer; the evaluator's predicate/constructor models are re-derived from MIR on every run (fail closed).",
        "design_ref": "DESIGN.md section 4 C03",
        "note": "Decides the per-cell strokes, not the global merge into maximal lines nor the replacement of four lines by a rect (endorse); those depend on float geometry and a greedy order at run time.",
        "technique": "table abstract evaluation over syntax-tree literals + MIR constant folding + model conformance rules",
    },
    "C09": {
        "text": "Structural decision of run continuity and merge plumbing: every run character (9 ASCII, all box-drawing line glyphs) yields edge-to-edge segment(s) that join the neighbour's across the cell border into one straight line (exact rationals); Line::merge keeps extreme end points and ORs the dashed flag, can_merge = touching and both ends collinear, Fragment::merge dispatches (Line,Line) to it; contacts are built only from merge_fragment_spans = merge_recursive, which is a fixpoint (recursion while the item count shrinks, push only when unmerged). Line::merge returns Some exactly when can_merge(self, other): decided as a boolean function over the path conditions (value-only branches are free variables the result may not depend on). FragmentSpan::merge returns Some exactly when Fragment::merge of the two fragments does.",
        "design_ref": "DESIGN.md section 4 C09",
        "note": "Does not decide util::is_collinear's float threshold nor the greedy merge order: the known split of long diagonals is outside the decided clause.",
        "technique": "table abstract evaluation + MIR expression/control-dependence rules + syntax-tree rule for the `||`",
    },
    "C12": {
        "text": "Structural decision of the canvas clause: size formula scale x (max + 2) x cell dimension with the (0,0) fallback, bounds() = min/max over occupied cells; every position-carrying CellBuffer field that is rendered is read by bounds() (known finding: escaped_text); every table fragment (ascii behaviour entries and unicode glyphs, exact arc geometry) stays in its cell or reaches at most one cell left/up only under a condition that implies a character there (residual-formula satisfiability) and at most one cell right/down; catalogue circles stay within drawing plus margin. M1 also: the extremes range over all cells of the map (no selecting helper or adaptor).",
        "design_ref": "DESIGN.md section 4 C12",
        "note": "Text width is font dependent and not bounded. Known finding C12/unbounded-position-field/CellBuffer.escaped_text (pinned test forbids a repair).",
        "technique": "MIR expression patterns + field read census over the call graph + table abstract evaluation with partial evaluation of conditions",
    },
    "C13": {
        "text": "Table clause for the circle catalogue: formulas of CircleArt (width, radius, centre, diameter, edge increment) pinned to the code; for each of the >= 22 drawings the edge case agrees with the left-most glyphs, radius = (n-1)/2 or n/2, horizontal extent equals the drawing's, every glyph's cell is within half a cell diagonal of the circle, centre near the vertical middle, diameter keys pairwise distinct; lookup uses the localised span and CIRCLES_SPAN stores unfilled circles built from centre()/radius(). T2 also: inside the per-entry closure of the four catalogue lookups only the outcome of is_subset_of decides. CIRCLES_SPAN is collected from an un-adapted iteration over all of CIRCLE_MAP (no skip/filter/take, helpers inlined).",
        "design_ref": "DESIGN.md section 4 C13",
        "note": "Does not decide the run-time subset matching (that a placed drawing yields exactly one circle and nothing else).",
        "technique": "catalogue evaluation from syntax-tree literals + MIR/syntax conformance of the formulas",
    },
    "C14": {
        "text": "Table clause decided by table abstract evaluation with exact rationals: every arrow-tagged polygon (ASCII entries in all eight directions and Unicode triangles) is filled, tagged away from the tested neighbour, has its tip on the axis of the neighbour's segment beyond the stub and its base straddling the axis; bullet circle literals map through merge_circle's thresholds (read from source, folded) to filled/open/big-open markers, each constructed marker variant has matching Display string, CSS rules, url(#id) and emitted <marker id> with the right fill class, marker-line class templates use the same prefixes and the marked end is the circle centre; every corner arc (33 today) has attached end points and its SVG centre on the inner side (axis-aligned corner for axis-parallel neighbours). T4: rounded outlines of every corner style are closed curves under cell-by-cell table evaluation (neighbourhood-complete family of 80 grids). T5: each bullet (* o O) next to each solid or dashed line character running towards it yields exactly one circle on the cell centre (filled for *, open for o/O, O bigger).",
        "design_ref": "DESIGN.md section 4 C14",
        "note": "Does not decide the run-time merge of polygon + line into marker lines nor arcs taken from the big-circle catalogue.",
        "technique": "table abstract evaluation (exact rational geometry, SVG arc semantics) + syntax-tree agreement rules (Display/CSS/marker ids) + MIR expression patterns",
    },
    "C19": {
        "text": "Structural decision on the MIR of svgbob_cli: what is written (fs::write, `{}\\n` on stdout, batch files) is the unmodified result of to_svg_with_settings on the input text and the settings local the options were stored into; the input text has exactly the three sources (inline with \\n expanded, file, stdin); each value-taking option is consumed under its own name into the Settings field of that name; every non-zero exit is control-dependent on an error outcome and exit(0) on success; no Result of a workspace function is dropped (exit, `?`, or counted failure controlling an Err return); the library prints nothing on the conversion path except two reviewed diagnostics. X7 no failure exit can follow the creation of the output file; X8 a discarded option parse error needs a clap validator on every option that reaches it. X9 batch mode: the destination handed to convert_file is <out dir>/format!('{}.svg', file_stem(<the entry converted>)); operations that cut or replace part of the name (set_extension, with_extension, trimming, case folding, lossy decoding) are reported.",
        "design_ref": "DESIGN.md section 4 C19",
        "note": "Trusts clap and std::fs; partial output on I/O failure is not decided. Two genuine defects repaired by fix: commits b17f08e and 2fe06fa.",
        "technique": "MIR expression patterns, control dependence (exit discipline), reachability census (stdout), syntax-tree option table",
    },
    "C20": {
        "text": "Structural decision on svgbob_server: one route \"/\" with GET hello / POST text_to_svgbob and no layer, fallback, body-limit or state call; POST returns Ok(unmodified svgbob::to_svg of the strict from_utf8 of the whole body) or Err(BAD_REQUEST); GET returns \"{} {}\" of the package name/version constants; no static, lock, atomic, State or Extension in the crate; no process exit/abort reachable from a handler.",
        "design_ref": "DESIGN.md section 4 C20",
        "note": "Runtime behaviour of axum/hyper/tokio (limits, concurrency, panic isolation) is assumed as documented, not decided.",
        "technique": "MIR expression patterns + framework-call census + reachability census",
    },
    "C04": {
        "text": "Structural decision of text placement plumbing: interprocedural taint of byte lengths (String::len/str::len) never meets a cell coordinate, Cell::new or the cell width; every path of the two per-cell loops adds a fragment for the cell (must-pass-through on the CFG) with cell_text(ch) as last alternative and the iteration's own cell; cells are inserted at the plain enumerate indices guarded only by `ch != NUL && !whitespace`; text is anchored at a grid point of its start cell with unchanged content, cell_text sits at the origin of its own cell, absolute positions add the cell, merging concatenates in column order; wide characters are followed by width-1 NUL fillers which the escaping table drops. F4/F5: the column expansion of a character is conditional on nothing but the loops and width() being Some, and every column count uses the same width function. F6 CellText.content has three writers only (constructor, struct update, clone). F7 every character-table entry is inserted under the character its property stores (one insert per listed entry, no other writer) and Property::from_char looks the tables up under its own argument, so the text fallback `property.ch` is the input character. F4 only the discriminants of next()/width() may decide the expansion (a test on the character or on the row is reported; a redundant test on the width value is evaluated).",
        "design_ref": "DESIGN.md section 4 C04",
        "note": "Which adjacent runs end up merged into one element depends on span grouping at run time and is not decided. Genuine defect repaired by fix: commit 73b59aa.",
        "technique": "MIR taint analysis (bytes vs columns) + must-pass-through on the CFG + expression patterns",
    },
    "C15": {
        "text": "Structural decision for quoted text: cells are built from escape_line's blanked row; quoted strings live in escaped_text, read only by escaped_text_nodes, whose result is only appended to the finished fragment list; stored cell = (opening quote position, row), stored string = start+1..end; the blank count is not a string display width nor a byte length and equals the content's columns (per-character max(1,width) without NUL fillers, or end-start) plus 2; the scan resumes at end+1 and the surrounding text is copied.",
        "design_ref": "DESIGN.md section 4 C15",
        "note": "A literal NUL inside a quoted string is counted as zero columns (accepted residual). Genuine defect repaired by fix: commit a69b444.",
        "technique": "MIR expression patterns (closures followed), field read census, forward-use analysis",
    },
    "C01": {
        "text": "Structural decision of the panic/termination shape: census of every explicit panic site (panic!/unreachable!/assert!, unwrap/expect, Index::index, bounds/div asserts) reachable from the five entry points; each is discharged on the current source by a guard idiom (infeasible boolean skeleton by truth table, closed literal table, total parser, variant established by the selecting predicate, enumerate index of the same slice, infallible String writer, input-independent table initialiser, option paired with its flag, index below an established length of the same vector, find() offset) or is a reviewed assumption with its reason; every call-graph cycle has a shrinking-length or structural variant, no loop/while/unbounded iterator; the pom grammars cannot spin (no nullable operand under repeat/list). R5 NaN hygiene: values of the NaN-capable workspace functions (derived per run) never reach a function from which the total order util::ord (NaN arm panics) is reachable, nor a stored point.",
        "design_ref": "DESIGN.md section 4 C01",
        "note": "Not decided: stack depth, polynomial time, NaN-freedom, panics inside dependencies, OOM. A new panic site guarded by an idiom the checker does not know is reported (accepted limitation).",
        "technique": "MIR panic-site census with idiom discharge (control dependence, expression patterns, truth tables), Tarjan SCCs for recursion variants, grammar nullability analysis",
    },
    "C05": {
        "text": "Attribute clause only: the rect emitted for an endorsed group spans min..max over both bound points of all fragments, is unfilled, dashed iff any fragment is dashed, rounded radius taken from an arc of the group; an endorsed group becomes FragmentSpan(group cells, rect); the rect element maps x,y,width,height,rx and the class flags from the fields. R1 acceptance implies corner coincidence; R2 the recognition region never compares whole lines/fragments or reads the dashed flag (style-blind recognition). R3 no coordinate is quantised in the recognition region and Line::has_endpoint - the corner test - is exact point equality of either end (boolean function). A3 the merge rules of C09.M1 evaluated under C05 (Line::merge merges exactly when can_merge). T1 sharp-cornered outlines (`+` with `-`/`~` edges and `|` sides, box-drawing) of widths 1..4 and 0..3 side rows are closed when evaluated cell by cell on the table model.",
        "design_ref": "DESIGN.md section 4 C05",
        "note": "NOT decided: recognition soundness/completeness (is_rect / is_rounded_rect on merged float geometry) — the core of C05, including the ladder case.",
        "technique": "MIR expression patterns with closure following",
    },
    "C06": {
        "text": "Structural decision of translation plumbing: all four catalogue lookups compare the localised span and all four accepted fragments are re-offset by bounds().0; cell fragments are placed at their own cell; per fragment type every positional field of absolute_position is the same field translated by the cell and nothing else depends on the cell; enum/struct dispatch is complete; the cell translation primitives have the exact top-left +/- point shape (and fold correctly); Span::localize subtracts its own top-left. P1 also: the left-over span of a catalogue match is taken from the un-localised search span in all four siblings; P4 census of float comparisons against non-zero constants (no new absolute tolerance). P5 the row layout (StringBuffer::from and its helpers) never reads the length of the row built so far nor takes a remainder: columns after a character do not depend on the absolute column.",
        "design_ref": "DESIGN.md section 4 C06",
        "note": "Float effects of the geometric predicates at large offsets are not decided.",
        "technique": "MIR expression patterns + constant folding + sibling-branch cross-check",
    },
    "C10": {
        "text": "Structural decision of span isolation: spans are consumed only by span.endorse(); Span::endorse takes only the span and nothing reachable from it (tables excluded) receives a CellBuffer or Settings; spans are the merge_recursive fixpoint of one span per cell under |dx|<=1 && |dy|<=1 adjacency; the cross-span pass cannot write geometry (FragmentTree.fragment written only by new, enclose* write css_tag/enclosing only); per-span results are never merged across spans. I2 demands the exact any-x-any is_adjacent shape of Span::can_merge (iterator or nested-loop form) with no additional deciding condition. I3 the functions that put the per-span results together (get_fragment_spans, endorse_to_fragment_spans, group_nodes_and_fragments and their private helpers) apply no pairwise relation (merge / can_merge / is_contacting ...) to the combined list. I4 the bounding box of a line or an arc is spanned by its end points only (no radius / computed centre), so it cannot reach into another sub-diagram.",
        "design_ref": "DESIGN.md section 4 C10",
        "note": "Relies on C07 (immutable tables) and C12.M1 (canvas). Float equality effects inside one span are not decided.",
        "technique": "call-graph reachability with parameter-type census, field write census, MIR expression patterns, syntax pattern for the adjacency predicate",
    },
}

NOT_APPLICABLE = {}
_UNUSED = {p: _PENDING for p in
                  []}
