"""source of MANIFEST.json (tools/mkmanifest.py)"""

SETUP_CMD = "./setup.sh"

HOOKS = {
    "guard": "svgbob_verif",
    "enable": "no hooks: the static analysis reads /repo's source through a rustc driver (RUSTC_WORKSPACE_WRAPPER) and a syn extractor; nothing is compiled into svgbob",
    "baseline_off_cmd": "cd /repo && cargo test --workspace --no-fail-fast --offline",
    "source_commits": [],
    "add_only": True,
}

ENGINES = [
    {"name": "mirfacts", "path": "tools/mirfacts", "kind_free_text": "rustc_private driver: type-checked MIR, resolved callees, ADTs, statics, HIR loop/unsafe census -> JSON facts",
     "serves_properties": []},
    {"name": "srcfacts", "path": "tools/srcfacts", "kind_free_text": "syn 2 syntax-tree extractor (literal tables, grammars, match tables, macro bodies) -> JSON facts",
     "serves_properties": []},
    {"name": "rules", "path": "rules", "kind_free_text": "python rule evaluators: call graph, dominators, control dependence, dependence slices, field census, table abstract evaluator, charset and grammar interpreters",
     "serves_properties": []},
]

NOTES = ("Static analysis only: every verdict is computed from /repo's current source (MIR + syntax trees); svgbob is never executed. "
         "Each claim names the structural clause it decides; see DESIGN.md section 4/5 for what is not decided.")

_PENDING = "check not built yet in this session (planned in DESIGN.md); listed here so that nothing is claimed without a check"

CLAIMS = {
    "C07": {
        "text": "Sufficient structural argument for determinism/statelessness: no user unsafe, every static immutable with an interior-mutability-free sync-lazy payload, no ambient-state API on the conversion path, every hash-ordered iteration order-neutralised, pipeline containers ordered. Decided on MIR for every body reachable from the entry points.",
        "design_ref": "DESIGN.md section 4 C07",
        "note": "Assumes dependencies are deterministic; default feature set; decides the purity argument, not runtime behaviour of threads.",
        "technique": "MIR census + dataflow (statics/unsafe/ambient-API census, hash-iteration neutralisation check)",
    },
    "C11": {
        "text": "Structural decision that scale multiplies every length exactly once and nothing else: per fragment type, each length-typed field of the value returned by `scale` is `self.field x scale` (expression reconstructed from MIR, closures followed), other fields do not mention scale; Fragment/FragmentSpan dispatch covers all variants; every Fragment->Node conversion receives a value scaled on every call path (call-graph dominators); canvas size carries settings.scale once; Settings.scale is read nowhere else; default scale 8 and cell 1x2 constants.",
        "design_ref": "DESIGN.md section 4 C11",
        "note": "Decides the shape of the arithmetic, not f32 rounding; the Node conversions are assumed to emit the fields they are given (attribute mapping is checked for Rect under C05).",
        "technique": "MIR expression reconstruction + pattern rules, call-graph dominators, field read census",
    },
    "C18": {
        "text": "Structural decision on the node builder and entry points: each include_* switch guards exactly its own child (control dependence on the true edge), fragment children/root are unconditional, each switch is read once; cosmetic settings are read only by the style-sheet builder; override size flows only into width/height attributes and fragment nodes do not depend on it; sibling builders and entry points build the same node expression (pretty = compressed modulo render method, to_svg = pretty, get_node = default settings, override = sized with w,h substituted).",
        "design_ref": "DESIGN.md section 4 C18",
        "note": "Trusts sauron's render/render_to_string to differ only in whitespace; decides control dependence and read sets, not the rendered bytes.",
        "technique": "MIR control dependence (post-dominators), field read census, sibling expression comparison",
    },
    "C02": {
        "text": "Structural decision of well-formedness and text round trip: sink census over every sauron constructor call reachable from the entry points (each string argument is a harmless constant, a number, a format! of such, the output of a verified escaping function, or a token of the identifier grammar, followed through struct fields, closures and workspace calls on MIR expressions); the escaping table is interpreted exactly over all Unicode scalar values (identity set excludes < & >, non-XML characters and bare CR; only unrepresentable characters are dropped; every entity decodes to the matched character); root element shape and one render call per entry point.",
        "design_ref": "DESIGN.md section 4 C02",
        "note": "Trusts sauron's serializer as read (text leaves verbatim, attributes double-quoted); feature with-dom out of scope. Two genuine defects were repaired by fix: commits f67c93e and 8a59cee.",
        "technique": "MIR taint/provenance analysis of sink arguments + exact character-set interpretation of the escaping table (syntax tree)",
    },
    "C08": {
        "text": "Structural decision that input cannot inject markup: the C02 sink census (reported under C08), a vocabulary census (no constructor takes an element/attribute name or raw markup/comment from a value), exact output alphabet of the identifier grammars feeding the class attribute and the legend class names (including the `ch as u8` truncation) disjoint from quotes, angle brackets, ampersand, white space and CSS punctuation, and the server handler returning the library string unmodified.",
        "design_ref": "DESIGN.md section 4 C08",
        "note": "Same trusted base as C02. The grammar alphabet is computed from the pom combinator tree extracted from util.rs; map closures are assumed to rearrange characters only (their literals are checked).",
        "technique": "MIR sink census + grammar output-alphabet computation (interval sets) + constructor who-may-call census",
    },
    "C16": {
        "text": "Structural decision of the legend/tag plumbing: rule template decoded from MIR instantiates to `.svgbob .NAME{ DECL }`, one rule per entry in entry order joined by newlines; the drawing receives only input[..legend_start] exactly when the legend parses and the parsed entries become the styles; identifier/tag/entry grammars (extracted pom combinators, PEG-faithful interpreter) accept and reject the statement's witnesses; tags are tried deepest-first (dominance), extend the class list instead of being kept as text.",
        "design_ref": "DESIGN.md section 4 C16",
        "note": "Does not decide geometric enclosure (can_fit float test) nor which text fragments are merged before tag recognition.",
        "technique": "MIR expression patterns + dominators/control dependence + grammar witness interpretation",
    },
    "C17": {
        "text": "Structural decision of line-ending / trailing-blank insensitivity: rows come from str::lines on the whole input; a cell is inserted only under !is_whitespace of the inserted character; the cell buffer cannot carry a row count; the legend parser input is CR-filtered (closure predicate read from MIR) or else the grammar accepts CRLF witnesses identically, and 192 witness legends with blanks before line ends parse to the canonical entries on the extracted grammar.",
        "design_ref": "DESIGN.md section 4 C17",
        "note": "Witness documents are a finite sample for the grammar clause (necessary condition); the drawing clause is by construction (str::lines + whitespace guard). Genuine defect repaired by fix: commit cc9a377.",
        "technique": "MIR control dependence + grammar interpretation of witness documents + ADT field census",
    },
}

NOT_APPLICABLE = {p: _PENDING for p in
                  ["C01", "C03", "C04", "C05", "C06", "C09", "C10", "C12", "C13", "C14", "C15", "C19", "C20"]}
