"""source of MANIFEST.json (tools/mkmanifest.py)"""

SETUP_CMD = "./setup.sh"

HOOKS = {
    "guard": "svgbob_verif",
    "enable": "no hooks: the static analysis reads /repo's source through a rustc driver (RUSTC_WORKSPACE_WRAPPER) and a syn extractor; nothing is compiled into svgbob",
    "baseline_off_cmd": "cd /repo && cargo test --workspace --no-fail-fast --offline",
    "source_commits": [],
    "add_only": True,
}

ENGINES = [
    {"name": "mirfacts", "path": "tools/mirfacts", "kind_free_text": "rustc_private driver: type-checked MIR, resolved callees, ADTs, statics, HIR loop/unsafe census -> JSON facts",
     "serves_properties": []},
    {"name": "srcfacts", "path": "tools/srcfacts", "kind_free_text": "syn 2 syntax-tree extractor (literal tables, grammars, match tables, macro bodies) -> JSON facts",
     "serves_properties": []},
    {"name": "rules", "path": "rules", "kind_free_text": "python rule evaluators: call graph, dominators, control dependence, dependence slices, field census, table abstract evaluator, charset and grammar interpreters",
     "serves_properties": []},
]

NOTES = ("Static analysis only: every verdict is computed from /repo's current source (MIR + syntax trees); svgbob is never executed. "
         "Each claim names the structural clause it decides; see DESIGN.md section 4/5 for what is not decided.")

_PENDING = "check not built yet in this session (planned in DESIGN.md); listed here so that nothing is claimed without a check"

CLAIMS = {
    "C07": {
        "text": "Sufficient structural argument for determinism/statelessness: no user unsafe, every static immutable with an interior-mutability-free sync-lazy payload, no ambient-state API on the conversion path, every hash-ordered iteration order-neutralised, pipeline containers ordered. Decided on MIR for every body reachable from the entry points.",
        "design_ref": "DESIGN.md section 4 C07",
        "note": "Assumes dependencies are deterministic; default feature set; decides the purity argument, not runtime behaviour of threads.",
        "technique": "MIR census + dataflow (statics/unsafe/ambient-API census, hash-iteration neutralisation check)",
    },
}

NOT_APPLICABLE = {p: _PENDING for p in
                  ["C01", "C02", "C03", "C04", "C05", "C06", "C08", "C09", "C10", "C11", "C12", "C13", "C14", "C15", "C16", "C17", "C18", "C19", "C20"]}
