"""C04 (every non-drawing character appears exactly once, as text, in its own cell) — structural
clauses on MIR: F1 unit discipline: no byte length (String::len / str::len) is combined with a cell
coordinate, handed to Cell::new or multiplied by the cell width (bytes are not columns); F2 nothing
is dropped or shifted: every cell of the property buffer, and every cell of a span that has no
property, passes through add_fragment(s)_to_cell on every path of the per-cell loops
(must-pass-through on the CFG), the final alternative being the text fallback cell_text(ch); a cell
is inserted for every character that is not NUL/white space with exactly the enumerate indices of
its column and row (casts only, no arithmetic); F3 anchor: a text element starts at a grid point of
its start cell (Cell accessor of ct.start) with the content unchanged, a single character becomes
CellText at the cell origin (0,0) of its own cell, absolute positions add the cell, and merging
concatenates in column order; F4 a character occupies max(1, width) columns: the filler loop runs
1..width pushing NUL, and the escaping table drops NUL.  Not decided: which runs end up merged
into one element for arbitrary layouts (span grouping).  F5 every place that measures text in columns
uses the same per-character function as the row expansion (UnicodeWidthChar::width, max(1, .));
no other width function (width_cjk, string widths) is used on the conversion path.  F6 the characters of a
text run are written only by the constructor (runs are joined only by CellText::merge under can_merge)."""
import re

from ..common import blank_guard_atoms, guards, lib_reachable, short, where
from ..exprs import concat_parts, expand_combinators, simplify, closure_of, format_parts, is_const, mentions, strip
from ..mirlib import Expr, Program, expr_str, op_place

LEN_FN = re.compile(r"^alloc::string::String::len$|^core::str::<impl str>::len$")
CELLW = re.compile(r"cell_grid::CellGrid::width$|cell::Cell::width$")


TAINTED_FNS = {}


def len_taint(run, p):
    """violations of F1 in body p: [(stmt, message)]"""
    prog = run.prog
    b = prog.bodies[p]
    tainted = {}
    for bid, t in prog.calls(p):
        n = Program.callee_name(t)
        if (LEN_FN.search(n) or n in TAINTED_FNS) and not t["dst"]["p"]:
            tainted[t["dst"]["l"]] = where(t) if LEN_FN.search(n) else TAINTED_FNS[n]
    if not tainted:
        return [], 0
    # calls that receive a tainted value return a tainted value (min/max/checked ops/helpers)
    changed0 = True
    while changed0:
        changed0 = False
        for bid, t in prog.calls(p):
            if t["dst"]["p"] or t["dst"]["l"] in tainted:
                continue
            if not re.search(r"^(f32|f64|i\d+|u\d+|isize|usize)$", t.get("dst_ty", "")):
                continue
            for a in t["args"]:
                pl = op_place(a)
                if pl is not None and pl["l"] in tainted:
                    tainted[t["dst"]["l"]] = tainted[pl["l"]]
                    changed0 = True
        for blk in b["blocks"]:
            if blk["cleanup"]:
                continue
            for st in blk["stmts"]:
                rv = st.get("rv")
                if not rv or st["dst"]["p"]:
                    continue
                ops = [op_place(o) for o in rv.get("ops", [])]
                if any(o is not None and o["l"] in tainted for o in ops) and rv["k"] in ("use", "cast", "bin", "un"):
                    if st["dst"]["l"] not in tainted:
                        tainted[st["dst"]["l"]] = tainted[[o["l"] for o in ops if o is not None and o["l"] in tainted][0]]
                        changed0 = True
    if 0 in tainted and p not in TAINTED_FNS:
        TAINTED_FNS[p] = tainted[0]
    out = []
    changed = True
    while changed:
        changed = False
        for blk in b["blocks"]:
            if blk["cleanup"]:
                continue
            for st in blk["stmts"]:
                rv = st.get("rv")
                if not rv or st["dst"]["p"]:
                    continue
                ops = [op_place(o) for o in rv.get("ops", [])]
                if any(o is not None and o["l"] in tainted for o in ops) and rv["k"] in ("use", "cast", "bin", "un"):
                    if st["dst"]["l"] not in tainted:
                        tainted[st["dst"]["l"]] = tainted[[o["l"] for o in ops if o is not None and o["l"] in tainted][0]]
                        changed = True
    is_cell_coord = lambda pl: pl is not None and any(isinstance(pr, dict) and (pr.get("adt") or "").endswith("cell::Cell") and pr.get("name") in ("x", "y") for pr in pl["p"])
    sl = prog.slicer(p)
    for blk in b["blocks"]:
        if blk["cleanup"]:
            continue
        for st in blk["stmts"]:
            rv = st.get("rv")
            if not rv or rv["k"] != "bin":
                continue
            ops = [op_place(o) for o in rv["ops"]]
            t_ops = [o for o in ops if o is not None and o["l"] in tainted and not o["p"][:0]]
            if not t_ops:
                continue
            others = [o for o in ops if o is not None and o not in t_ops]
            for o in others:
                coord = is_cell_coord(o)
                if not coord:
                    # a temporary copied from a cell coordinate
                    for kind, d, _ in sl.defs.get(o["l"], ()):
                        if kind == "assign" and d["rv"]["k"] in ("use", "cast"):
                            pl = op_place(d["rv"]["ops"][0])
                            if is_cell_coord(pl):
                                coord = True
                if coord:
                    out.append((st, "a byte length (len() at %s) is combined (%s) with a cell coordinate: bytes are not columns" % (tainted[t_ops[0]["l"]], rv["op"])))
                for kind, d, _ in sl.defs.get(o["l"], ()):
                    if kind == "call" and CELLW.search(Program.callee_name(d)):
                        out.append((st, "a byte length (len() at %s) is multiplied by the cell width: text width in bytes" % tainted[t_ops[0]["l"]]))
        t = blk["term"]
        if t["k"] == "call" and Program.callee_name(t).endswith("cell::Cell::new"):
            for a in t["args"]:
                pl = op_place(a)
                if pl is not None and pl["l"] in tainted:
                    out.append((t, "a byte length (len() at %s) is used as a cell coordinate" % tainted[pl["l"]]))
    return out, len(tainted)


def width_value(prog, e_, w, penv):
    """the value of an expression over `ch.width()` when that option is w (None | 0 | 1 | 2): integers, Option values
    ('Some', v) / ('None',), comparisons as 0/1.  Raises ValueError on anything it does not understand (fail closed)."""
    e_ = strip(e_)
    k_ = e_[0]
    if k_ == "const":
        return int(e_[2])
    if k_ == "param":
        return penv[(e_[1], tuple(e_[2]))]
    if k_ == "field":
        b_ = width_value(prog, e_[1], w, penv)
        fs = tuple(f for f in e_[2])
        if fs[:2] == ("@Some", "0") and isinstance(b_, tuple) and b_[0] == "Some":
            return b_[1]
        raise ValueError("projection")
    if k_ == "agg" and e_[2] in ("Some", "None"):
        return ("Some", width_value(prog, e_[3][0][1], w, penv)) if e_[2] == "Some" else ("None",)
    if k_ == "cast":
        return width_value(prog, e_[2], w, penv)
    if k_ == "bin" and e_[1].replace("WithOverflow", "").replace("Unchecked", "") in ("Sub", "Add"):
        a_, b_ = width_value(prog, e_[2], w, penv), width_value(prog, e_[3], w, penv)
        v_ = a_ - b_ if "Sub" in e_[1] else a_ + b_
        if v_ < 0:
            raise ValueError("underflow")
        return v_
    if k_ == "call":
        n_ = e_[1]
        if n_.endswith("UnicodeWidthChar>::width"):
            return ("None",) if w is None else ("Some", w)
        args_ = e_[2]
        def apply(cl_e, val):
            cl_, caps_ = closure_of(strip(cl_e))
            if cl_ not in prog.bodies:
                raise ValueError("closure")
            rr = Expr(prog, cl_).returns()
            if len(rr) != 1:
                raise ValueError("closure returns")
            return width_value(prog, rr[0], w, {(2, ()): val})
        if re.search(r"Option::<T>::unwrap_or$", n_):
            o_ = width_value(prog, args_[0], w, penv)
            return o_[1] if o_[0] == "Some" else width_value(prog, args_[1], w, penv)
        if re.search(r"Option::<T>::unwrap_or_default$", n_):
            o_ = width_value(prog, args_[0], w, penv)
            return o_[1] if o_[0] == "Some" else 0
        if re.search(r"Option::<T>::map_or$", n_):
            o_ = width_value(prog, args_[0], w, penv)
            return apply(args_[2], o_[1]) if o_[0] == "Some" else width_value(prog, args_[1], w, penv)
        if re.search(r"Option::<T>::map$", n_):
            o_ = width_value(prog, args_[0], w, penv)
            return ("Some", apply(args_[1], o_[1])) if o_[0] == "Some" else o_
        if n_.endswith("saturating_sub"):
            return max(0, width_value(prog, args_[0], w, penv) - width_value(prog, args_[1], w, penv))
        if re.search(r"cmp::Ord::max$|cmp::max$", n_):
            return max(width_value(prog, args_[0], w, penv), width_value(prog, args_[1], w, penv))
    if k_ == "discr":
        o_ = width_value(prog, e_[1], w, penv)
        if isinstance(o_, tuple):
            return 1 if o_[0] == "Some" else 0
        raise ValueError("discriminant of a non-option")
    if k_ == "bin" and e_[1] in ("Gt", "Ge", "Lt", "Le", "Eq", "Ne"):
        a_, b_ = width_value(prog, e_[2], w, penv), width_value(prog, e_[3], w, penv)
        return int({"Gt": a_ > b_, "Ge": a_ >= b_, "Lt": a_ < b_, "Le": a_ <= b_, "Eq": a_ == b_, "Ne": a_ != b_}[e_[1]])
    if k_ == "un" and e_[1] == "Not":
        return int(not width_value(prog, e_[2], w, penv))
    raise ValueError("unsupported " + str(e_[:2]))



def columns_by_paths(prog, p, pidx):
    """the values a one-character function returns for width None, 0, 1, 2 (path by path), or None"""
    from ..mirlib import paths as mir_paths
    ps = mir_paths(prog, p)
    if not ps:
        return None
    out = []
    try:
        for w in (None, 0, 1, 2):
            val = None
            for conds, ret in ps:
                taken = True
                for c, tk in conds:
                    v = int(width_value(prog, c, w, {}))
                    if (isinstance(tk, tuple) and v in tk[1]) or (not isinstance(tk, tuple) and v != tk):
                        taken = False
                        break
                if taken:
                    val = width_value(prog, ret, w, {})
                    break
            out.append(val)
    except (ValueError, KeyError, IndexError, TypeError):
        return None
    return out


def run(run):
    prog = run.prog
    roots, reach = lib_reachable(run, "C04.F1")
    # ---------------- F1
    n_len = 0
    n_bodies = 0
    TAINTED_FNS.clear()
    for _round in range(3):
        before = len(TAINTED_FNS)
        for p in sorted(reach):
            len_taint(run, p)
        if len(TAINTED_FNS) == before:
            break
    run.record("functions_returning_a_byte_length", sorted(short(x) for x in TAINTED_FNS))
    for p in sorted(reach):
        viol, n = len_taint(run, p)
        if n:
            n_bodies += 1
            n_len += n
        seen = set()
        for st, msg in viol:
            key = "byte-len-as-columns/%s" % short(p)
            if key in seen:
                continue
            seen.add(key)
            run.bad("C04.F1", key, where(st), "%s: %s" % (short(p), msg))
        if n and not viol:
            run.ok("C04.F1", "len() results in %s never meet a cell coordinate" % short(p), where(prog.bodies[p]))
    # text module must have a column notion that is per character
    run.ok("C04.F1", "byte-length census: %d len() results in %d reachable bodies examined" % (n_len, n_bodies), None)
    # ---------------- F2 must-pass-through
    M = re.compile(r"FragmentBuffer::add_fragments?_to_cell$")
    for name, self_re, trait_re, cond in (("From<PropertyBuffer> for FragmentBuffer", r"fragment_buffer::FragmentBuffer$", r"From<.*PropertyBuffer", None),
                                          ("From<Span> for FragmentBuffer", r"fragment_buffer::FragmentBuffer$", r"From<.*span::Span>", "is_none")):
        p = prog.method("from", self_re, trait_re)
        if not p:
            run.missing("C04.F2", name)
            continue
        b = prog.bodies[p]
        cfg = prog.cfg(p)
        ex = Expr(prog, p)
        nexts = [(bid, t) for bid, t in prog.calls(p) if re.search(r"Iterator>::next$", Program.callee_name(t))]
        if len(nexts) != 1:
            run.bad("C04.F2", "loop-shape/%s" % name, where(b), "%s: expected one per-cell loop, found %d iterator next() calls" % (name, len(nexts)))
            continue
        head = nexts[0][0]
        # body entry: the Some edge of the switch on next()'s discriminant
        entry = None
        for blk in b["blocks"]:
            sw = blk["term"]
            c0 = strip(ex.operand(sw["on"])) if sw["k"] == "switch" else ("none",)
            if c0[0] == "discr" and strip(c0[1])[0] == "call" and strip(c0[1])[1].endswith("Iterator>::next"):
                for v, tg in zip(sw["values"], sw["targets"]):
                    if v == 1:
                        entry = tg
        if entry is None:
            run.bad("C04.F2", "loop-shape/%s" % name, where(b), "%s: loop body entry not found" % name)
            continue
        removed = [bid for bid, t in prog.calls(p) if M.search(Program.callee_name(t))]
        skip_ok = []
        if cond == "is_none":
            # cells that do have a property are handled by the property pass: the false edge of is_none() may skip
            for blk in b["blocks"]:
                sw = blk["term"]
                if sw["k"] == "switch":
                    c = strip(ex.operand(sw["on"]))
                    if c[0] == "call" and c[1].endswith("Option::<T>::is_none") and mentions(c, lambda z: z[0] == "call" and z[1].endswith("HashMap::<K, V, S, A>::get")):
                        for v, tg in zip(sw["values"], sw["targets"]):
                            if v == 0:
                                skip_ok.append(tg)
        if not removed:
            run.bad("C04.F2", "no-add-fragment/%s" % name, where(b), "%s never calls add_fragment(s)_to_cell" % name)
            continue
        leak = cfg.paths_avoid(entry, head, set(removed) | set(skip_ok))
        if leak:
            run.bad("C04.F2", "cell-dropped/%s" % name, where(b),
                    "%s: there is a path through the per-cell loop body that adds no fragment for the cell (a character would be dropped)" % name)
        else:
            run.ok("C04.F2", "%s: every path of the per-cell loop adds a fragment for the cell (%d add sites)" % (name, len(removed)), where(b))
        # the last alternative is the text fallback with the cell's own character
        fb = [(bid, t) for bid, t in prog.calls(p) if Program.callee_name(t).endswith("fragment::cell_text")]
        if fb:
            run.ok("C04.F2", "%s: text fallback cell_text(ch) present" % name, where(fb[0][1]), nontrivial=False)
        else:
            run.bad("C04.F2", "no-text-fallback/%s" % name, where(b), "%s has no cell_text(ch) fallback: characters without drawing meaning would vanish" % name)
        # every add uses the iteration's own cell
        for bid, t in prog.calls(p):
            if M.search(Program.callee_name(t)):
                c = strip(ex.operand(t["args"][1]))
                if not mentions(c, lambda z: z[0] == "call" and z[1].endswith("Iterator>::next")) or mentions(c, lambda z: z[0] in ("bin",) or (z[0] == "call" and re.search(r"cell::Cell::(left|right|top|bottom)", z[1]))):
                    run.bad("C04.F2", "cell-shifted/%s" % name, where(t), "%s adds the fragment to `%s`, not to the iteration's own cell" % (name, expr_str(c)[:80]))
    # cell insert: enumerate indices, casts only
    cf = prog.method("from", r"cell_buffer::CellBuffer$", r"From<.*StringBuffer>")
    if cf:
        # a per-row helper the conversion was split into (`insert_row(y, chars)`) is spliced back
        prog.inline_single_use_helpers(cf, same_file=True, skip=r"::(escape_line|add_css_styles|insert)$", skip_ret=r"^bool$")
    if not cf:
        run.missing("C04.F2", "From<StringBuffer> for CellBuffer")
    else:
        ex = Expr(prog, cf)
        inserts = [(bid, t) for bid, t in prog.calls(cf) if re.search(r"::insert$", Program.callee_name(t)) and "Cell" in " ".join(t.get("arg_tys", []))]
        for bid, t in inserts:
            cell = strip(ex.operand(t["args"][1]))
            ch = strip(ex.operand(t["args"][2]))
            ok = cell[0] == "call" and cell[1].endswith("cell::Cell::new")
            if ok:
                for a, what in zip(cell[2], ("chars", "rows")):
                    a = strip(a)
                    inner = strip(a[2]) if a[0] == "cast" else a
                    # Enumerate::next().@Some.0.0
                    idx = inner[0] == "field" and inner[2][-2:] == ("0", "0") and mentions(inner, lambda z: z[0] == "call" and z[1].endswith("Iterator>::next")) and \
                        mentions(inner, lambda z: z[0] == "call" and z[1].endswith("Iterator::enumerate"))
                    src_ok = mentions(inner, lambda z: z[0] == "call" and z[1].endswith("str::<impl str>::chars")) if what == "chars" else \
                        not mentions(inner, lambda z: z[0] == "call" and z[1].endswith("str::<impl str>::chars"))
                    if not (idx and src_ok) or mentions(inner, lambda z: z[0] == "bin"):
                        ok = False
            same_char = ch[0] == "field" and ch[2][-2:] == ("0", "1") and mentions(ch, lambda z: z[0] == "call" and z[1].endswith("str::<impl str>::chars"))
            if ok and same_char:
                run.ok("C04.F2", "a cell is inserted at (enumerate index of the character, enumerate index of the row) with that character", where(t))
            else:
                run.bad("C04.F2", "cell-index", where(t), "the inserted cell/char is `%s` / `%s`: not the plain enumerate indices of the character's column and row" % (expr_str(cell)[:100], expr_str(ch)[:60]))
            conds = blank_guard_atoms(prog, cf, bid, ch)
            if sorted(conds) == ["nul", "ws"]:
                run.ok("C04.F2", "the only conditions on the insert are ch != NUL and !ch.is_whitespace()", where(t))
            else:
                run.bad("C04.F2", "insert-guard", where(t), "cell insert is guarded by %s; expected exactly `ch != '\\0' && !ch.is_whitespace()`" % sorted(conds))
        n_sites = len(inserts)
        if not inserts:
            # the iterator form: map.extend(row.chars().enumerate().filter(P).map(|(x, ch)| (Cell::new(x, y), ch)))
            from ..common import cell_extend_sites
            for site in cell_extend_sites(prog, cf):
                n_sites += 1
                t = site["term"]
                col, row, ch = strip(site["col"]), strip(site["row"]), strip(site["ch"])
                col0 = strip(col[2]) if col[0] == "cast" else col
                row0 = strip(row[2]) if row[0] == "cast" else row
                idx_ok = col0 == ("param", 2, ("0",)) and ch == ("param", 2, ("1",)) and not mentions(row0, lambda z: z[0] == "bin") and \
                    row0[0] == "field" and tuple(row0[2])[-2:] == ("0", "0") and mentions(row0, lambda z: z[0] == "call" and z[1].endswith("Iterator::enumerate")) and \
                    not mentions(row0, lambda z: z[0] == "call" and z[1].endswith("str::<impl str>::chars"))
                if idx_ok:
                    run.ok("C04.F2", "a cell is inserted at (enumerate index of the character, enumerate index of the row) with that character", where(t))
                else:
                    run.bad("C04.F2", "cell-index", where(t), "the inserted cell/char is `(%s, %s)` / `%s`: not the plain enumerate indices of the character's column and row" % (
                        expr_str(col)[:60], expr_str(row)[:60], expr_str(ch)[:40]))
                if site["filter_atoms"] == {"ws", "nul"}:
                    run.ok("C04.F2", "the only conditions on the insert are ch != NUL and !ch.is_whitespace()", where(t))
                else:
                    run.bad("C04.F2", "insert-guard", where(t), "cell insert is filtered by %s; expected exactly `ch != '\\0' && !ch.is_whitespace()`" % sorted(map(str, site["filter_atoms"])))
        run.floor("C04.F2", "cell_inserts", n_sites, 1)
    # ---------------- F3 anchor
    tf = prog.methods("from", r"fragment::text::Text$", r"From<.*text::CellText>")
    if len(tf) != 1:
        run.missing("C04.F3", "From<CellText> for Text")
    else:
        r = [strip(x) for x in Expr(prog, tf[0]).returns()]
        ok = len(r) == 1 and r[0][0] == "call" and r[0][1].endswith("text::Text::new")
        if ok:
            pt, content = strip(r[0][2][0]), strip(r[0][2][1])
            ok = pt[0] == "call" and re.search(r"cell::Cell::[a-y]$", pt[1]) and strip(pt[2][0]) == ("param", 1, ("start",)) and content == ("param", 1, ("content",))
        if ok:
            run.ok("C04.F3", "text element = Text::new(grid point %s of the start cell, content unchanged)" % r[0][2][0][1].split("::")[-1], where(prog.bodies[tf[0]]))
        else:
            run.bad("C04.F3", "text-anchor", where(prog.bodies[tf[0]]), "From<CellText> for Text is `%s`: the anchor is not a grid point of ct.start or the content is changed" % (expr_str(r[0])[:120] if r else "?"))
    ct = [p for p in prog.bodies if p.endswith("fragment_buffer::fragment::cell_text")]
    if len(ct) == 1:
        r = [strip(x) for x in Expr(prog, ct[0]).returns()]
        ok = len(r) == 1 and r[0][0] == "agg" and r[0][2] == "CellText"
        if ok:
            c = strip(r[0][3][0][1])
            ok = c[0] == "call" and c[1].endswith("text::CellText::new") and strip(c[2][0])[0] == "call" and strip(c[2][0])[1].endswith("cell::Cell::new") and \
                all(is_const(a, 0) for a in strip(c[2][0])[2]) and strip(c[2][1])[0] == "call" and strip(c[2][1])[1].endswith("to_string") and strip(strip(c[2][1])[2][0]) == ("param", 1, ())
        if ok:
            run.ok("C04.F3", "cell_text(ch) = CellText at the origin of its own cell holding exactly ch", where(prog.bodies[ct[0]]))
        else:
            run.bad("C04.F3", "cell-text", where(prog.bodies[ct[0]]), "cell_text is `%s`" % (expr_str(r[0])[:120] if r else "?"))
    else:
        run.missing("C04.F3", "fragment::cell_text")
    ap = prog.method("absolute_position", r"text::CellText$", "")
    if ap:
        r = [strip(x) for x in Expr(prog, ap).returns()]
        ok = len(r) == 1 and r[0][0] == "agg"
        if ok:
            d = dict(r[0][3])
            s = strip(d.get("start", ("unknown",)))
            ok = s[0] == "call" and s[1].endswith("cell::Cell::new")
            if ok:
                for a, c in zip(s[2], ("x", "y")):
                    a = strip(a)
                    ok = ok and a[0] == "bin" and a[1] == "Add" and {str(strip(a[2])), str(strip(a[3]))} == {str(("param", 1, ("start", c))), str(("param", 2, (c,)))}
            ok = ok and not mentions(d.get("content", ()), lambda z: z[0] == "param" and z[1] == 2)
        if ok:
            run.ok("C04.F3", "CellText::absolute_position adds the cell to the start, content untouched", where(prog.bodies[ap]))
        else:
            run.bad("C04.F3", "celltext-absolute", where(prog.bodies[ap]), "CellText::absolute_position is `%s`" % (expr_str(r[0])[:140] if r else "?"))
    mg = prog.method("merge", r"text::CellText$", "")
    if mg:
        # path-sensitive: on every path that returns Some(..) the result is CellText::new(L.start, L.content ++ R.content)
        # where L is the run with the smaller start.x according to the comparison passed on that path, and the path
        # passed can_merge (same row, adjacent columns, F3 above)
        from ..mirlib import paths as mir_paths
        ps = mir_paths(prog, mg)
        okm = bool(ps)
        n_some = 0
        cm = prog.method("can_merge", r"text::CellText$", "")
        for conds, ret in (ps or []):
            r = strip(ret)
            if r[0] == "agg" and r[2] == "None":
                continue
            if not (r[0] == "agg" and r[2] == "Some"):
                okm = False
                continue
            n_some += 1
            e = strip(r[3][0][1])
            if not (e[0] == "call" and e[1].endswith("text::CellText::new")):
                okm = False
                continue
            start = strip(e[2][0])
            cp = concat_parts(e[2][1])
            if cp is None or [c_[0] for c_ in cp] != ["arg", "arg"]:
                okm = False
                continue
            first = strip(cp[0][1])
            second = strip(cp[1][1])
            if not (start[0] == "param" and start[2] == ("start",) and first == ("param", start[1], ("content",)) and second[0] == "param" and second[1] != start[1] and second[2] == ("content",)):
                okm = False
            lt = None
            merged_ok = False
            for c, tk in conds:
                c = strip(c)
                if c[0] == "call" and c[1] == cm and tk != 0:
                    merged_ok = True
                if c[0] == "bin" and c[1] in ("Lt", "Le", "Gt", "Ge"):
                    a_, b2 = strip(c[2]), strip(c[3])
                    if a_[0] == "param" and b2[0] == "param" and a_[2] == ("start", "x") and b2[2] == ("start", "x"):
                        truth = tk != 0
                        less_is_first_operand = c[1] in ("Lt", "Le")
                        smaller = a_[1] if truth == less_is_first_operand else b2[1]
                        lt = smaller == start[1]
            if lt is not True or not merged_ok:
                okm = False
        okm = okm and n_some >= 1
        if okm:
            run.ok("C04.F3", "CellText::merge keeps the left part's start and concatenates left then right", where(prog.bodies[mg]))
        else:
            run.bad("C04.F3", "celltext-merge-order", where(prog.bodies[mg]), "CellText::merge does not concatenate the two runs in column order with the left run's start")
    # ---------------- F4 fillers
    sb = prog.method("from", r"string_buffer::StringBuffer$", r"From<&str>")
    filler_fns = set()
    if not sb:
        run.missing("C04.F4", "From<&str> for StringBuffer")
    else:
        ex = Expr(prog, sb)
        rng = [t for _, t in prog.calls(sb) if Program.callee_name(t).endswith("IntoIterator>::into_iter") and
               mentions(ex.operand(t["args"][0]), lambda z: z[0] == "agg" and str(z[1]).endswith("ops::range::Range"))]
        ok = False
        if len(rng) == 1:
            r = []
            mentions(ex.operand(rng[0]["args"][0]), lambda z: z[0] == "agg" and str(z[1]).endswith("ops::range::Range") and r.append(z) and False)
            d = dict(r[0][3])
            en = strip(d["end"])
            ok = is_const(d["start"], 1) and en[0] == "field" and "@Some" in en[2] and strip(en[1])[0] == "call" and strip(en[1])[1].endswith("UnicodeWidthChar>::width")
        pushes = [t for _, t in prog.calls(sb) if Program.callee_name(t).endswith("Vec::<T, A>::push")]
        nul = [t for t in pushes if is_const(ex.operand(t["args"][1]), 0)]
        chp = [t for t in pushes if mentions(ex.operand(t["args"][1]), lambda z: z[0] == "call" and re.search(r"Chars<'a> as core::iter::traits::iterator::Iterator>::next$", z[1])) and not is_const(ex.operand(t["args"][1]))]
        # the expansion is unconditional: nothing but the loops themselves and `width()` being Some decides
        # whether a character is pushed and whether its fillers follow
        extra = []
        for t in ([rng[0]] if len(rng) == 1 else []) + nul + chp:
            bid = [b_ for b_, t_ in prog.calls(sb) if t_ is t][0]
            for cond, tk, sw in guards(prog, sb, bid):
                c = strip(cond)
                # only the discriminants of the iterators' next() and of width() may decide (the loops and `if let Some(w)`);
                # a test on the character itself (`ch == '\t'`) or on the row built so far makes the expansion conditional
                loopish = c[0] == "discr" and mentions(c, lambda z: z[0] == "call" and re.search(r"Iterator>::next$|UnicodeWidthChar>::width$", z[1])) and \
                    not mentions(c, lambda z: z[0] == "bin")
                if not loopish and t not in chp:
                    # a redundant test on the *value* of the width around the filler loop (`if width > 1 { for _ in 1..width ..`)
                    # is harmless exactly when it holds for the one width that has fillers (2): evaluated, not matched
                    try:
                        v2 = int(width_value(prog, c, 2, {}))
                        want_true = (tk != 0) if not isinstance(tk, tuple) else (0 in tk[1])
                        if bool(v2) == want_true and mentions(c, lambda z: z[0] == "call" and z[1].endswith("UnicodeWidthChar>::width")):
                            continue
                    except (ValueError, KeyError, IndexError, TypeError):
                        pass
                if not loopish:
                    extra.append((t, expr_str(c)[:100]))
        chain_ok = False
        filler_fns = set()
        if not (ok and len(nul) == 1 and chp) and chp:
            # `row.resize(row.len() + COUNT, '\0')` after the push of the character: appends COUNT fillers; COUNT evaluated
            # as a function of the width option like in the iterator form
            rs = [(bid_, t_) for bid_, t_ in prog.calls(sb) if re.search(r"Vec::<T, A>::resize$", Program.callee_name(t_)) and len(t_["args"]) == 3]
            if len(rs) == 1:
                bid_, t_ = rs[0]
                newlen, fillv = strip(ex.operand(t_["args"][1])), ex.operand(t_["args"][2])
                if newlen[0] == "bin" and newlen[1].replace("WithOverflow", "").replace("Unchecked", "") == "Add" and is_const(fillv, 0):
                    parts = [strip(newlen[2]), strip(newlen[3])]
                    lens = [x for x in parts if x[0] == "call" and re.search(r"Vec::<T, A>::len$", x[1])]
                    cnts = [x for x in parts if x not in lens]
                    if len(lens) == 1 and len(cnts) == 1:
                        try:
                            vals = [width_value(prog, cnts[0], w_, {}) for w_ in (None, 0, 1, 2)]
                        except (ValueError, KeyError, IndexError, TypeError):
                            vals = None
                        gs_ = [strip(c_) for c_, tk_, sw_ in guards(prog, sb, bid_)]
                        only_loops = all(c_[0] == "discr" and mentions(c_, lambda z: z[0] == "call" and z[1].endswith("Iterator>::next")) for c_ in gs_)
                        if vals == [0, 0, 0, 1] and only_loops and not extra:
                            chain_ok = True
                            run.ok("C04.F4", "every character is pushed once, followed by NUL fillers for columns 1..width (resize(len + width - 1, NUL))", where(t_))
        if not chain_ok and not (ok and len(nul) == 1 and chp):
            # the iterator form: `.flat_map(F)` over line.chars() with F (a closure or a function of the module) returning
            # `once(ch).chain(repeat('\0').take(COUNT))`, COUNT = width(ch) - 1 columns (0 when width is None or 0): COUNT is
            # evaluated as a function of the width option on None, Some(0), Some(1), Some(2) - any way of writing it is accepted
            count_value = lambda e_, w, penv: width_value(prog, e_, w, penv)

            cands = [(c_, 2) for c_ in prog.closures_of(sb)] + [(c2, 2) for c_ in prog.closures_of(sb) for c2 in prog.closures_of(c_)]
            fm_sites = []
            for q2 in [sb] + prog.closures_of(sb):
                q2ex = Expr(prog, q2)
                for _, t2 in prog.calls(q2):
                    if re.search(r"Iterator::flat_map$", Program.callee_name(t2)) and len(t2["args"]) == 2:
                        fa = strip(q2ex.operand(t2["args"][1]))
                        src_ = strip(q2ex.operand(t2["args"][0]))
                        over_chars = src_[0] == "call" and src_[1].endswith("str::<impl str>::chars")
                        cl_, _ = closure_of(fa)
                        if cl_:
                            fm_sites.append((cl_, over_chars))
                        elif fa[0] == "fn" and fa[1] in prog.bodies and prog.bodies[fa[1]].get("crate") == "svgbob":
                            fm_sites.append((fa[1], over_chars))
                            cands.append((fa[1], 1))
            for q, pidx in cands:
                rets = [strip(r) for r in Expr(prog, q).returns()]
                if len(rets) != 1:
                    continue
                r = rets[0]
                if not (r[0] == "call" and re.search(r"Iterator::chain$", r[1]) and len(r[2]) == 2):
                    continue
                first, rest = strip(r[2][0]), strip(r[2][1])
                f_ok = first[0] == "call" and re.search(r"iter::sources::once::once$", first[1]) and strip(first[2][0]) == ("param", pidx, ())
                r_ok = rest[0] == "call" and re.search(r"Iterator::take$", rest[1]) and len(rest[2]) == 2
                if f_ok and r_ok:
                    rep, cnt = strip(rest[2][0]), strip(rest[2][1])
                    rep_ok = rep[0] == "call" and re.search(r"iter::sources::repeat::repeat$", rep[1]) and is_const(rep[2][0], 0)
                    try:
                        vals = [count_value(cnt, w_, {}) for w_ in (None, 0, 1, 2)]  # UnicodeWidthChar::width is None, 0, 1 or 2
                    except (ValueError, KeyError, IndexError, TypeError):
                        vals = None
                    cnt_ok = vals == [0, 0, 0, 1]
                    used = any(f_ == q and oc for f_, oc in fm_sites)
                    if rep_ok and cnt_ok and used:
                        chain_ok = True
                        filler_fns.add(q)
            if chain_ok and filler_fns:
                run.ok("C04.F4", "every character is followed by NUL fillers for columns 1..width (once(ch).chain(repeat(NUL).take(width - 1)))", where(prog.bodies[sb]))
        if chain_ok:
            pass
        elif extra:
            t, c = extra[0]
            run.bad("C04.F4", "filler-conditional", where(t),
                    "StringBuffer::from: the expansion of a character into its columns also depends on `%s`; a wide character for which the condition fails keeps one column and everything to its right is shifted" % c)
        elif ok and len(nul) == 1 and chp:
            run.ok("C04.F4", "every character is pushed once, followed by NUL fillers for columns 1..width", where(rng[0]))
        else:
            run.bad("C04.F4", "filler-loop", where(prog.bodies[sb]), "StringBuffer::from: filler range 1..width=%s, NUL pushes=%d, char pushes=%d" % (ok, len(nul), len(chp)))
    # ---------------- F6 who may change the characters of a text run
    from ..sinks import SinkAnalysis
    CT = "svgbob::buffer::fragment_buffer::fragment::text::CellText"
    if CT not in prog.adts:
        run.missing("C04.F6", "CellText")
    else:
        sa = SinkAnalysis(run, "C04")
        ALLOWED = {"CellText::new": "the constructor", "CellText::absolute_position": "struct update from self (content untouched, F3)",
                   "<CellText as Clone>::clone": "derive(Clone)"}
        writers = sa.field_sources(CT, "content")
        for p_, e_, w_ in writers:
            sp = short(p_)
            if sp in ALLOWED:
                run.ok("C04.F6", "CellText.content is written by %s" % sp, w_, ALLOWED[sp], nontrivial=False)
            else:
                run.bad("C04.F6", "text-content-writer/%s" % sp, w_,
                        "%s changes the characters of a text run (`%s`): runs are only built by CellText::new and joined by CellText::merge under can_merge (same row, adjacent columns); "
                        "any other writer can glue, drop or reorder characters" % (sp, expr_str(e_)[:100]))
        run.floor("C04.F6", "content_writers", len(writers), 3)
    # ---------------- F5 one notion of "columns of a character" everywhere
    roots5, reach5 = lib_reachable(run, "C04.F5")
    sites = []
    for p in sorted(reach5):
        for bid, t in prog.calls(p):
            n = Program.callee_name(t)
            if "unicode_width::" in n or "UnicodeWidth" in n:
                sites.append((p, t, n))
    run.floor("C04.F5", "width_call_sites", len(sites), 3)
    for p, t, n in sites:
        if re.search(r"<char as unicode_width::UnicodeWidthChar>::width$", n):
            continue
        run.bad("C04.F5", "other-width-function/%s" % short(p), where(t),
                "%s measures text with %s, but the row expansion (StringBuffer::from) gives a character max(1, UnicodeWidthChar::width) columns: the two notions of a column disagree for some characters" % (short(p), n.split("::")[-1] if "::" in n else n))
    canon = 0
    for p, t, n in sites:
        if not re.search(r"<char as unicode_width::UnicodeWidthChar>::width$", n):
            continue
        if sb and (p == sb or p.startswith(sb + "::{closure") or any(p == f_ or p.startswith(f_ + "::{closure") for f_ in filler_fns)):
            continue   # the filler loop / filler chain, checked under F4
        r = [strip(x) for x in Expr(prog, p).returns()]
        ok = len(r) == 1 and mentions(r[0], lambda z: z[0] == "call" and z[1].endswith("Ord::max") and any(is_const(a, 1) for a in z[2])) and \
            mentions(r[0], lambda z: z[0] == "call" and z[1].endswith("unwrap_or") and is_const(z[2][1], 1) and
                     strip(z[2][0])[0] == "call" and strip(z[2][0])[1].endswith("UnicodeWidthChar>::width") and strip(strip(z[2][0])[2][0])[0] == "param")
        # nothing but max / unwrap_or / width / cast may shape the value
        extra = []
        mentions(r[0] if r else (), lambda z: z[0] == "call" and not re.search(r"Ord::max$|unwrap_or$|UnicodeWidthChar>::width$", z[1]) and extra.append(z[1]) and False)
        extra_bin = mentions(r[0] if r else (), lambda z: z[0] == "bin")
        by_paths = None
        if not (ok and not extra and not extra_bin):
            # any other spelling (a match with a guard, if/else): the function's value for width None, 0, 1, 2
            by_paths = columns_by_paths(prog, p, 2 if "{closure" in p.rsplit("::", 1)[-1] else 1)
        if (ok and not extra and not extra_bin) or by_paths == [1, 1, 1, 2]:
            canon += 1
            run.ok("C04.F5", "%s counts a character as max(1, width) columns, like the row expansion" % short(p), where(t))
        else:
            run.bad("C04.F5", "column-function/%s" % short(p), where(t),
                    "%s derives columns from the character width as `%s`, not as max(1, width(ch).unwrap_or(1)) like the row expansion" % (short(p), expr_str(r[0])[:140] if r else "?"))
    # NUL is dropped by the escaping table (shared with C02)
    from ..sinks import SinkAnalysis
    sa = SinkAnalysis(run, "C04")
    esc = None
    for p in prog.bodies:
        if p.endswith("text::escape_html_text"):
            esc = sa.verify_escaper(p)
    if esc is None:
        run.missing("C04.F4", "escape_html_text table")
    elif 0 in esc["dropped"]:
        run.ok("C04.F4", "the NUL fillers are dropped when text is rendered", esc["where"])
    else:
        run.bad("C04.F4", "nul-rendered", esc["where"], "the escaping table does not drop NUL: filler columns would show up in the text")
    # ---------------- F7 the character shown for a property character is the input character
    f7(run)
    run.assume("span grouping decides which adjacent runs are merged into one text element; not decided")


def f7(run):
    """F7 [N]: a character that has a drawing meaning but no connection is shown as text through its table entry
    (`cell_text(property.ch)` / `add_fragments_to_cell(cell, property.ch, ..)`), so "its characters are exactly the
    input characters" needs `Property::from_char(c).ch == c`: every table entry is inserted under the character stored in
    the property, and nothing else writes the tables."""
    from .. import tae_conf
    prog = run.prog
    tae_conf.table_construction(run, "C04.F7")
    # ... and the fallback really takes the character from the property found for the input character
    pf = [p for p in prog.bodies if re.search(r"From<svgbob::buffer::property_buffer::PropertyBuffer<'p>> for svgbob::buffer::fragment_buffer::FragmentBuffer>::from$", p)]
    fc = [p for p in prog.bodies if p.endswith("property::Property::from_char")]
    if len(pf) != 1 or len(fc) != 1:
        run.missing("C04.F7", "From<PropertyBuffer> for FragmentBuffer / Property::from_char")
        return
    r = [strip(simplify(expand_combinators(prog, x))) for x in Expr(prog, fc[0]).returns()]
    alts = []
    for x in r:
        alts.extend(strip(a) for a in (x[1] if x[0] == "phi" else [x]))
    gets = set()
    okg = bool(alts)
    for a in alts:
        found = []
        mentions(a, lambda z: z[0] == "call" and re.search(r"(BTreeMap|HashMap)(::)?<[^>]*>::get$", z[1]) and found.append(z) and False)
        if not found and not (a[0] == "agg" and a[2] == "None"):
            okg = False
        for g in found:
            tbl, key = strip(g[2][0]), strip(g[2][1])
            gets.add(expr_str(tbl))
            if key != ("param", 1, ()):
                okg = False
    if okg and gets:
        run.ok("C04.F7", "Property::from_char(ch) only ever returns TABLE.get(&ch)", where(prog.bodies[fc[0]]), ", ".join(sorted(gets))[:120])
    else:
        run.bad("C04.F7", "from-char-key", where(prog.bodies[fc[0]]), "Property::from_char does not look the tables up under its own argument: %s" % " | ".join(expr_str(a)[:60] for a in alts))


run_flow = run
