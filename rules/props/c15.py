"""C15 (quoted text is shown verbatim, draws nothing, displaces nothing) — structural clauses on MIR:
Q1 the cells of a row are built from the *blanked* row returned by escape_line (its second result),
never from the raw row; the quoted strings go to CellBuffer.escaped_text, which is read only by
escaped_text_nodes, whose result is appended to the already endorsed fragments and never reaches a
Span / FragmentBuffer / PropertyBuffer constructor (so quoted drawing characters contribute no
geometry); Q2 the stored cell is (position of the opening quote, row) and the stored string is the
slice strictly between the quotes (start + 1 .. end); Q3 the number of blanks that replace a quoted
region is not a *string* display width (UnicodeWidthStr::width counts the NUL fillers of wide
characters and ignores zero-width characters) nor a byte length; Q4 it is the content's columns
plus the constant 2 for the quotes, the scan resumes right after the closing quote (end + 1), and
the text before, between and after quoted regions is copied unchanged; Q5 the row scanner (extracted grammar
line_parse) agrees with the statement's reading of quotes on every string over {letter, blank, quote, backslash}
up to length 6 (thorough: 9)."""
import re

from ..common import field_accesses, guards, is_derived_impl, short, where
from ..exprs import closure_of, is_const, mentions, strip, terms
from ..mirlib import Expr, Program, expr_str


def run(run):
    prog = run.prog
    el = prog.method("escape_line", r"cell_buffer::CellBuffer$")
    cf = prog.method("from", r"cell_buffer::CellBuffer$", r"From<.*StringBuffer>")
    if cf:
        # a per-row helper the conversion was split into (`insert_row(y, chars)`) is spliced back
        prog.inline_single_use_helpers(cf, same_file=True, skip=r"::(escape_line|add_css_styles|insert)$", skip_ret=r"^bool$")
    if not el or not cf:
        run.missing("C15", "CellBuffer::escape_line / From<StringBuffer>")
        return
    # ---------------- Q1
    ex = Expr(prog, cf)
    is_el = lambda z: z[0] == "call" and z[1] == el
    chars = [(bid, t) for bid, t in prog.calls(cf) if Program.callee_name(t).endswith("str::<impl str>::chars")]
    ok = False
    for bid, t in chars:
        a = ex.operand(t["args"][0])
        if mentions(a, lambda z: z[0] == "field" and z[2][-1:] == ("1",) and is_el(strip(z[1]))):
            ok = True
        elif mentions(a, is_el):
            ok = mentions(a, lambda z: z[0] == "field" and "1" in z[2] and mentions(z, is_el))
    inserts = [(bid, t) for bid, t in prog.calls(cf) if re.search(r"::insert$", Program.callee_name(t)) and "Cell" in " ".join(t.get("arg_tys", []))]
    cell_from_blank = False
    for bid, t in inserts:
        ch = ex.operand(t["args"][-1])
        cell_from_blank = mentions(ch, lambda z: z[0] == "call" and z[1].endswith("str::<impl str>::chars") and mentions(z, is_el))
    if not inserts:
        from ..common import cell_extend_sites
        for site in cell_extend_sites(prog, cf):
            src = site["chars_src"]
            if mentions(src, lambda z: z[0] == "field" and tuple(z[2])[-1:] == ("1",) and mentions(z, is_el)):
                cell_from_blank = True
    if len(chars) == 1 and ok and cell_from_blank:
        run.ok("C15.Q1", "cells are built from the blanked row (escape_line(..).1)", where(chars[0][1]))
    else:
        run.bad("C15.Q1", "cells-from-raw-row", where(prog.bodies[cf]),
                "the characters inserted as cells do not come from escape_line's blanked row (chars() sources: %s)" % [expr_str(ex.operand(t["args"][0]))[:80] for _, t in chars])
    ext = [(bid, t) for bid, t in prog.calls(cf) if re.search(r"Extend<T>>::extend$", Program.callee_name(t))]
    okx = any(strip(ex.operand(t["args"][0]))[0] in ("param", "field", "phi", "call") and mentions(ex.operand(t["args"][1]), is_el) and
              mentions(ex.operand(t["args"][1]), lambda z: z[0] == "field" and z[2][-1:] == ("0",)) for _, t in ext)
    if okx:
        run.ok("C15.Q1", "quoted strings are stored in escaped_text", where(ext[0][1]), nontrivial=False)
    else:
        run.bad("C15.Q1", "escaped-text-store", where(prog.bodies[cf]), "escape_line's first result is not stored into escaped_text")
    reads, writes = field_accesses(prog, "cell_buffer::CellBuffer")
    readers = sorted({p for p, st in reads.get("escaped_text", []) if not is_derived_impl(p)} - {cf})
    etn = prog.method("escaped_text_nodes", r"cell_buffer::CellBuffer$")
    if etn and readers == [etn]:
        run.ok("C15.Q1", "escaped_text is read only by escaped_text_nodes", where(prog.bodies[etn]))
    else:
        run.bad("C15.Q1", "escaped-text-readers", where(prog.bodies[etn]) if etn else None, "CellBuffer.escaped_text is read by %s" % [short(r) for r in readers])
    if etn:
        for caller, bid, t in prog.callers(etn):
            sl = prog.slicer(caller)
            uses = sl.forward_uses(t["dst"]["l"])
            bad = []
            for u, idx in uses:
                if u.get("k") == "call":
                    n = Program.callee_name(u)
                    if re.search(r"Extend<T>>::extend$", n) and idx == 1:
                        continue
                    bad.append(n)
                elif u.get("k") == "drop" or u.get("rv", {}).get("k") in ("use", "ref"):
                    continue
                else:
                    bad.append(u.get("rv", {}).get("k", "?"))
            # the extend target must not be handed to the span pipeline afterwards in this function
            pipeline = [Program.callee_name(t2) for _, t2 in prog.calls(caller) if re.search(r"Span>::from|span::Span::|FragmentBuffer|PropertyBuffer|endorse", Program.callee_name(t2))]
            ordered_ok = True
            if bad:
                run.bad("C15.Q1", "quoted-text-into-pipeline/%s" % short(caller), where(t), "the quoted-text fragments flow into %s in %s" % ([short(b) for b in bad], caller))
            else:
                run.ok("C15.Q1", "quoted-text fragments are only appended to the finished fragment list in %s" % short(caller), where(t))
    # ---------------- Q2..Q4 in escape_line (single-use private helpers it was split into are spliced back)
    inl = prog.inline_single_use_helpers(el)
    run.record("inlined_helpers", [short(x) for x in inl])
    ex = Expr(prog, el)
    b = prog.bodies[el]
    pos = lambda z, i: z[0] == "field" and z[2][-2:] == ("0", str(i)) or (z[0] == "field" and z[2][-1:] == (str(i),) and mentions(z, lambda y: y[0] == "call" and y[1].endswith("Iterator>::next")))
    is_pos = lambda e, i: strip(e)[0] == "field" and strip(e)[2] and strip(e)[2][-1] == str(i) and mentions(e, lambda y: y[0] == "call" and y[1].endswith("Iterator>::next"))
    parse = [t for _, t in prog.calls(el) if re.search(r"pom::parser::Parser::<'a, I, O>::parse$", Program.callee_name(t))]
    if len(parse) == 1 and strip(ex.operand(parse[0]["args"][0]))[0] == "call" and strip(ex.operand(parse[0]["args"][0]))[1].endswith("parser::line_parse"):
        run.ok("C15.Q2", "quote positions come from parser::line_parse on the row's characters", where(parse[0]), nontrivial=False)
    else:
        run.bad("C15.Q2", "line-parser", where(b), "escape_line does not run parser::line_parse exactly once")
    cells = [t for _, t in prog.calls(el) if Program.callee_name(t).endswith("cell::Cell::new")]
    okc = False
    for t in cells:
        x = strip(ex.operand(t["args"][0]))
        y = strip(ex.operand(t["args"][1]))
        x0 = strip(x[2]) if x[0] == "cast" else x
        y0 = strip(y[2]) if y[0] == "cast" else y
        if is_pos(x0, 0) and y0 == ("param", 1, ()):
            okc = True
    if okc and len(cells) == 1:
        run.ok("C15.Q2", "stored cell = (position of the opening quote, row)", where(cells[0]))
    else:
        run.bad("C15.Q2", "quoted-cell", where(cells[0]) if cells else where(b), "the cell stored for a quoted string is `%s`" % (
            ", ".join(expr_str(ex.operand(a))[:60] for a in cells[0]["args"]) if cells else "missing"))
    # the stored string: fold over input_chars[start + 1 .. end]
    pushes = [t for _, t in prog.calls(el) if Program.callee_name(t).endswith("Vec::<T, A>::push")]
    oks = False
    for t in pushes:
        v = strip(ex.operand(t["args"][1]))
        if v[0] == "agg" and len(v[3]) == 2:
            s = v[3][1][1]
            rng = []
            mentions(s, lambda z: z[0] == "agg" and str(z[1]).endswith("ops::range::Range") and rng.append(z) and False)
            if rng:
                d = dict(rng[0][3])
                st, en = strip(d["start"]), strip(d["end"])
                ts = [strip(x) for x in terms(st)]
                if len(ts) == 2 and any(is_const(x, 1) for x in ts) and any(is_pos(x, 0) for x in ts) and is_pos(en, 1):
                    oks = True
    if oks:
        run.ok("C15.Q2", "stored string = characters strictly between the quotes (start + 1 .. end)", where(pushes[0]))
    else:
        run.bad("C15.Q2", "quoted-slice", where(b), "the stored quoted string is not the slice start + 1 .. end of the row")
    # Q3 / Q4: the repeat count
    reps = [t for _, t in prog.calls(el) if Program.callee_name(t).endswith("str::<impl str>::repeat")]
    # the same written with iterators: `iter::repeat(' ').take(n)` (extended / collected into the row)
    takes = []
    for _, t in prog.calls(el):
        if re.search(r"Iterator::take$", Program.callee_name(t)) and len(t["args"]) == 2:
            src_ = strip(ex.operand(t["args"][0]))
            if src_[0] == "call" and re.search(r"iter::sources::repeat::repeat$", src_[1]):
                takes.append((t, strip(src_[2][0])))
    if len(reps) + len(takes) != 1:
        run.bad("C15.Q3", "blank-repeat", where(b), "expected one `\" \".repeat(n)` in escape_line, found %d" % (len(reps) + len(takes)))
    else:
        if reps:
            t = reps[0]
            filler = strip(ex.operand(t["args"][0]))
        else:
            t, fch = takes[0]
            filler = ("const", "str", " ") if is_const(fch, 32) else fch
        cnt = ex.operand(t["args"][1])
        if filler == ("const", "str", " "):
            run.ok("C15.Q4", "the quoted region is replaced by spaces", where(t), nontrivial=False)
        else:
            run.bad("C15.Q4", "blank-char", where(t), "the quoted region is replaced by repetitions of %s" % expr_str(filler))
        bad_w = mentions(cnt, lambda z: z[0] == "call" and re.search(r"UnicodeWidthStr>::width$|UnicodeWidthStr::width", z[1]))
        bad_l = mentions(cnt, lambda z: z[0] == "call" and re.search(r"str::<impl str>::len$|String::len$", z[1]))
        if bad_w:
            run.bad("C15.Q3", "str-width-as-columns/escape_line", where(t),
                    "the number of blanks is a string display width of the column-expanded text (`%s`): NUL fillers after wide characters and zero-width characters make it differ from the columns spanned" % expr_str(cnt)[:120])
        elif bad_l:
            run.bad("C15.Q3", "byte-len-as-columns/escape_line", where(t), "the number of blanks is a byte length (`%s`)" % expr_str(cnt)[:120])
        else:
            run.ok("C15.Q3", "blank count is not a string display width nor a byte length", where(t), expr_str(cnt)[:140])
        ts = [strip(x) for x in terms(cnt)]
        two = [x for x in ts if is_const(x, 2)]
        rest = [x for x in ts if not is_const(x)]
        if len(ts) == 2 and len(two) == 1 and len(rest) == 1:
            r = rest[0]
            good = False
            why = ""
            # (a) positions: end - start - 1   (b) per-character columns of the stored slice
            if r[0] == "call" and re.search(r"Iterator::sum$", r[1]):
                m = strip(r[2][0])
                if m[0] == "call" and re.search(r"Iterator::map$", m[1]):
                    cl, _ = closure_of(m[2][1])
                    src = strip(m[2][0])
                    filt = None
                    if src[0] == "call" and re.search(r"Iterator::filter$", src[1]):
                        fcl, _ = closure_of(src[2][1])
                        fr = [strip(x) for x in Expr(prog, fcl).returns()] if fcl in prog.bodies else []
                        filt = len(fr) == 1 and fr[0][0] == "bin" and fr[0][1] == "Ne" and is_const(fr[0][3], 0)
                        src = strip(src[2][0])
                    per = [strip(x) for x in Expr(prog, cl).returns()] if cl in prog.bodies else []
                    # max(width(ch).unwrap_or(1), 1)
                    okp = len(per) == 1 and per[0][0] == "call" and per[0][1].endswith("Ord::max") and any(is_const(a, 1) for a in per[0][2]) and \
                        mentions(per[0], lambda z: z[0] == "call" and z[1].endswith("UnicodeWidthChar>::width")) and \
                        mentions(per[0], lambda z: z[0] == "call" and z[1].endswith("unwrap_or") and is_const(z[2][1], 1))
                    on_slice = mentions(src, lambda z: z[0] == "agg" and str(z[1]).endswith("ops::range::Range"))
                    good = bool(okp and filt and on_slice)
                    why = "per-character columns: max(1, width) of every non-NUL character of the quoted slice" if good else \
                        "per-character form not recognised (max(1,width)=%s, NUL filter=%s, over the slice=%s)" % (okp, filt, on_slice)
            elif r[0] == "bin" and r[1] == "Sub":
                good = mentions(r, lambda z: is_pos(z, 1)) and mentions(r, lambda z: is_pos(z, 0))
                why = "positions: end - start"
            if good:
                run.ok("C15.Q4", "blank count = columns of the quoted content + 2", where(t), why)
            else:
                run.bad("C15.Q4", "blank-count", where(t), "the blank count `%s` is not (columns of the content) + 2: %s" % (expr_str(cnt)[:140], why or "unrecognised form"))
        else:
            run.bad("C15.Q4", "blank-count", where(t), "the blank count `%s` is not (columns of the content) + 2" % expr_str(cnt)[:140])
    # resume after the closing quote; copy the rest
    idx = [t for _, t in prog.calls(el) if re.search(r"ops::index::Index<I>>::index$", Program.callee_name(t))]
    shapes = set()
    for t in idx:
        r = strip(ex.operand(t["args"][1]))
        if r[0] != "agg":
            continue
        d = dict(r[3])
        kind = str(r[1]).split("::")[-1]
        def resume(e):
            e = strip(e)
            alts = list(e[1]) if e[0] == "phi" else [e]
            okz = any(is_const(a, 0) for a in alts)
            okn = any(strip(a)[0] in ("call", "bin") and mentions(a, lambda z: is_pos(z, 1)) and mentions(a, lambda z: is_const(z, 1)) for a in alts)
            return okz and okn and len(alts) == 2
        if kind == "Range" and resume(d["start"]) and is_pos(d["end"], 0):
            shapes.add("between")
        elif kind == "RangeFrom" and resume(d["start"]):
            shapes.add("tail")
        elif kind == "Range":
            shapes.add("content")
    if {"between", "tail", "content"} <= shapes:
        run.ok("C15.Q4", "text before/between quoted regions (index..start) and after the last one (index..) is copied; scan resumes at end + 1", where(b))
    else:
        run.bad("C15.Q4", "copy-ranges", where(b), "escape_line's copy ranges are %s; expected index..start, index.. with index = end + 1" % sorted(shapes))
    q5(run, 6)
    run.assume("a literal NUL inside a quoted string is counted as zero columns (it occupies one); not decided")


run_flow = run


def ref_quote_pairs(s):
    """the statement's reading of a row: a quoted region starts at a double quote and ends at the next double quote
    that is not escaped by a backslash *inside the region*; outside quoted regions a backslash is an ordinary
    (drawing) character.  Returns the (opening, closing) index pairs, left to right; an unbalanced quote ends the scan."""
    out, i, n = [], 0, len(s)
    while True:
        j = i
        while j < n and s[j] != '"':
            j += 1
        if j >= n:
            break
        k = j + 1
        while k < n:
            if s[k] == "\\" and k + 1 < n and s[k + 1] == '"':
                k += 2
                continue
            if s[k] == '"':
                break
            k += 1
        if k >= n:
            break
        out.append((j, k))
        i = k + 1
    return out


def q5(run, maxlen):
    """Q5 the row scanner agrees with the statement: the extracted grammar `line_parse` is compared with
    ref_quote_pairs on every string over {letter, blank, quote, backslash} up to length maxlen"""
    import itertools
    from ..grammar import GrammarError, load_parser_module
    from ..charset import Unknown
    g, mod, gfile = load_parser_module(run)
    if g is None or "line_parse" not in g.fns:
        run.missing("C15.Q5", "util::parser::line_parse")
        return
    n = 0
    for L in range(0, maxlen + 1):
        for tup in itertools.product('a "\\', repeat=L):
            text = "".join(tup)
            n += 1
            try:
                ok, pos, out = g.parse("line_parse", text)
            except (GrammarError, Unknown) as ex:
                run.bad("C15.Q5", "line-grammar-uninterpretable", gfile, "grammar line_parse: %s" % ex)
                return
            got = [tuple(x) for x in out] if ok and isinstance(out, list) else None
            want = ref_quote_pairs(text)
            if got != want:
                run.bad("C15.Q5", "quote-scanner", gfile,
                        "the row scanner finds the quoted regions %r in %r, the statement's reading is %r (a backslash outside a quoted region is a drawing character, "
                        "not an escape; regions pair up left to right)" % (got, text, want))
                return
    run.ok("C15.Q5", "line_parse agrees with the statement's reading of quotes on all %d strings over {a, blank, quote, backslash} up to length %d" % (n, maxlen), gfile)
    run.floor("C15.Q5", "strings", n, 1000)


def thorough(run):
    q5(run, 9)

