"""C18 (switches and entry points) — structural clauses on MIR:
E1 in the node builder each of the style / defs / backdrop children is control-dependent on exactly
its own include_* switch (true edge), fragment children and the root on none; E2 the cosmetic
settings (colours, font, font size, stroke width) are read only by the style-sheet builder;
E3 the override size reaches only width/height of root and backdrop and the fragment nodes do not
depend on it; E4 sibling entry points build the node by the same expression (pretty = compressed
modulo the sauron render method, to_svg = pretty, get_node = with default settings, override path =
sized path with w,h substituted).  Decides who-reads-what and control dependence, not sauron's
rendering."""
import re

from ..common import field_accesses, is_derived_impl, lib_reachable, short, where
from ..exprs import inline_calls, mentions, simplify, strip, subst_params
from ..mirlib import Expr, Program, expr_str, op_place

SETTINGS = "settings::Settings"
COSMETIC = ["stroke_color", "stroke_width", "background", "fill_color", "font_family", "font_size"]
SWITCHES = {"include_styles": "style sheet", "include_defs": "marker defs", "include_backdrop": "backdrop rect"}


def subst(e, mapping):
    """replace sub-expressions by mapping(e) when it returns non-None"""
    if not isinstance(e, tuple) or not e:
        return e
    if isinstance(e[0], str):
        r = mapping(e)
        if r is not None:
            return r
        return tuple([e[0]] + [subst(x, mapping) for x in e[1:]])
    return tuple(subst(x, mapping) for x in e)


def drop_blocks(e):
    """remove block ids (last int of call/mutated_by tuples) so that exprs of different bodies compare"""
    if not isinstance(e, tuple) or not e:
        return e
    if isinstance(e[0], str) and e[0] in ("call", "mutated_by"):
        return (e[0], e[1], drop_blocks(e[2]))
    return tuple(drop_blocks(x) for x in e)


def run(run):
    prog = run.prog
    f2n = prog.method("fragments_to_node", r"cell_buffer::CellBuffer$")
    if f2n:
        # single-use private helpers of the node builder (e.g. the leading children extracted into a function) are
        # spliced back, so that the switch rules see one body
        inl = prog.inline_single_use_helpers(f2n, skip=r"::(style|get_defs|legend_css)$")
        run.record("inlined_helpers", [short(x) for x in inl])
    if not f2n:
        run.missing("C18.E1", "CellBuffer::fragments_to_node")
        return
    b = prog.bodies[f2n]
    g = prog.cfg(f2n)
    ex = Expr(prog, f2n)
    settings_param = [l["id"] for l in b["locals"][1:b["argc"] + 1] if SETTINGS in l["ty"]]
    if len(settings_param) != 1:
        run.missing("C18.E1", "settings parameter of fragments_to_node")
        return
    sp = settings_param[0]

    def deps_of(bid):
        out = {}
        for a, s in g.control_deps(bid):
            t = b["blocks"][a]["term"]
            if t["k"] != "switch":
                out[("?", a)] = None
                continue
            e = strip(ex.operand(t["on"]))
            if e[0] == "param" and e[1] == sp and e[2]:
                field = e[2][-1]
                # true edge = the `otherwise` target of a bool switch on value 0
                true_edge = (t["values"] == [0] and s == t["targets"][-1])
                out[field] = true_edge
            else:
                out[expr_str(e)] = None
        return out

    # classify children pushed into the root's child list
    seen = {}
    style_fn = prog.method("style", r"cell_buffer::CellBuffer$")
    defs_fn = prog.method("get_defs", r"cell_buffer::CellBuffer$")
    for bid, t in prog.calls(f2n):
        name = Program.callee_name(t)
        kind = None
        if style_fn and name == style_fn:
            kind = "include_styles"
        elif defs_fn and name == defs_fn:
            kind = "include_defs"
        elif re.search(r"svg::tags::(commons::)?rect$", name):
            kind = "include_backdrop"
        elif re.search(r"Extend<T>>::extend$", name):
            kind = "fragments"
        elif re.search(r"svg::tags::(commons::)?svg$", name):
            kind = "root"
        elif name.endswith("FragmentTree::fragments_to_node"):
            kind = "fragments"
        if kind is None:
            continue
        d = deps_of(bid)
        seen.setdefault(kind, []).append((bid, t, d))
    for sw, what in SWITCHES.items():
        if sw not in seen:
            run.missing("C18.E1", "%s child (%s) in fragments_to_node" % (what, sw))
            continue
        for bid, t, d in seen[sw]:
            if set(d) == {sw} and d[sw] is True:
                run.ok("C18.E1", "%s guarded by %s" % (what, sw), where(t), "control-dependent on exactly settings.%s (true edge)" % sw)
            else:
                run.bad("C18.E1", "switch-guard/%s" % sw, where(t),
                        "the %s is control-dependent on %s, expected exactly settings.%s == true" % (
                            what, {k: v for k, v in d.items()} or "nothing (unconditional)", sw))
    for kind in ("fragments", "root"):
        if kind not in seen:
            run.missing("C18.E1", "%s construction in fragments_to_node" % kind)
            continue
        for bid, t, d in seen[kind]:
            if not d:
                run.ok("C18.E1", "%s unconditional" % kind, where(t), short(Program.callee_name(t)))
            else:
                run.bad("C18.E1", "conditional-%s" % kind, where(t), "%s (%s) is control-dependent on %s" % (kind, short(Program.callee_name(t)), sorted(d)))
    # each switch is read exactly once in the builder and nowhere else in the library
    reads, writes = field_accesses(prog, SETTINGS)
    for sw in SWITCHES:
        rs = [(p, st) for p, st in reads.get(sw, []) if not is_derived_impl(p) and not _settings_copy(st, sw)]
        where_read = sorted({p for p, _ in rs})
        if where_read == [f2n] and len(rs) == 1:
            run.ok("C18.E1", "settings.%s read once, in the node builder" % sw, where(rs[0][1]))
        else:
            run.bad("C18.E1", "switch-read/%s" % sw, where(rs[0][1]) if rs else None,
                    "settings.%s is read %d time(s) in %s; expected one read in fragments_to_node" % (sw, len(rs), [short(x) for x in where_read]))

    # ---------------- E2 cosmetics
    # the style builder = `style`, its closures and the private helpers of the module that only it (or they) call
    from ..common import module_region
    style_region = set(module_region(prog, style_fn)) if style_fn else set()
    for q in sorted(style_region - {style_fn}):
        if "{closure" in q:
            continue
        outside = [c for c, _, _ in prog.callers(q) if c not in style_region]
        if outside:
            style_region.discard(q)   # shared with other code: what it reads can end up elsewhere
    for f in COSMETIC:
        rs = [(p, st) for p, st in reads.get(f, []) if not is_derived_impl(p) and not _settings_copy(st, f)]
        readers = sorted({p for p, _ in rs})
        if not rs:
            run.bad("C18.E2", "cosmetic-unread/%s" % f, None, "settings.%s is never read: the setting has no effect on the style sheet" % f)
        elif style_fn and all(r in style_region for r in readers):
            run.ok("C18.E2", "settings.%s read only by the style builder" % f, where(rs[0][1]), "%d read(s)" % len(rs))
        else:
            bad = [r for r in rs if r[0] not in style_region]
            run.bad("C18.E2", "cosmetic-read/%s" % f, where(bad[0][1]) if bad else None,
                    "settings.%s is read outside the style-sheet builder: %s" % (f, [short(x) for x in readers]))
    run.floor("C18.E2", "settings_fields", len([f for f in COSMETIC if f in reads]), 6)

    # ---------------- E3 override size
    wh = [l["id"] for l in b["locals"][1:b["argc"] + 1] if l["ty"] == "f32"]
    if len(wh) != 2:
        run.missing("C18.E3", "w,h parameters of fragments_to_node")
    else:
        sl0 = prog.slicer(f2n)
        for l in wh:
            nm = "w" if l == wh[0] else "h"
            attr = "width" if nm == "w" else "height"
            uses = sl0.forward_uses(l)
            if not uses:
                run.bad("C18.E3", "size-unused/%s" % nm, where(b), "override size parameter `%s` is not used" % nm)
            for st, idx in uses:
                if st.get("k") == "call" and re.search(r"svg::attributes::(commons::)?%s$" % attr, Program.callee_name(st)):
                    run.ok("C18.E3", "%s -> %s attribute" % (nm, attr), where(st))
                else:
                    run.bad("C18.E3", "size-use/%s" % nm, where(st), "override size parameter `%s` is used by %s, not by the %s attribute" % (
                        nm, short(Program.callee_name(st)) if st.get("k") == "call" else st.get("rv", {}).get("k"), attr))
        # the fragment nodes must not depend on w/h
        sl = prog.slicer(f2n)
        for bid, t in prog.calls(f2n):
            if Program.callee_name(t).endswith("FragmentTree::fragments_to_node"):
                deps = set()
                for a in t["args"]:
                    deps |= sl.slice_operand(a)
                if any(o[0] == "param" and o[1] in wh for o in deps):
                    run.bad("C18.E3", "geometry-depends-on-size", where(t), "the fragment nodes depend on the override size")
                else:
                    run.ok("C18.E3", "fragment nodes independent of w,h", where(t))
    # ---------------- E4 siblings
    e4(run)
    run.assume("sauron renders a node deterministically from its structure")


run_flow = run


def _settings_copy(st, field):
    """`Settings { ..other }`: copying a field into the same field of another Settings value"""
    rv = st.get("rv") or {}
    return rv.get("k") == "agg" and (rv.get("adt") or "").endswith(SETTINGS)


def e4(run):
    """E4 siblings agree.  Every node-building function and every library entry point is brought to one normal form -
    crate-local calls inlined (in whichever direction the functions delegate to each other) down to the leaf builders
    `fragments_to_node`, `group_nodes_and_fragments`, `legend_css`, `get_size`, `CellBuffer::from`, `Settings::default`
    and the sauron render calls - and the normal forms are compared: the override builder is
    fragments_to_node(fragments, legend_css, settings, w, h).with_children(group_nodes); the sized builder, get_node and
    the five entry points are that same expression with their own (buffer, settings, w, h) substituted."""
    prog = run.prog
    need = {n: prog.method(n, r"cell_buffer::CellBuffer$") for n in ("get_node", "get_node_with_size", "get_node_override_size", "get_size",
                                                                     "fragments_to_node", "group_nodes_and_fragments", "legend_css")}
    for n, p in need.items():
        if not p:
            run.missing("C18.E4", "CellBuffer::" + n)
            return
    LEAVES = r"CellBuffer::(fragments_to_node|group_nodes_and_fragments|legend_css|get_size)$|convert::From<|Default>::default$|Node<MSG>>::render|with_children$"

    def norm(e):
        return drop_blocks(strip(simplify(inline_calls(prog, e, keep=LEAVES, depth=6))))

    def alts(p):
        out = []
        for r in Expr(prog, p).returns():
            x = norm(r)
            out.extend(strip(y) for y in x[1]) if x[0] == "phi" else out.append(x)
        return out

    gs = need["get_size"]
    P = lambda i: ("param", i, ())
    default = None

    def is_default(e):
        e = strip(e)
        return e[0] == "call" and re.search(r"Settings as core::default::Default>::default$", e[1]) is not None

    # 1. the override builder is the base expression
    ov = alts(need["get_node_override_size"])
    base = ov[0] if len(ov) == 1 else None
    ok = False
    if base is not None and base[0] == "call" and base[1].endswith("with_children") and len(base[2]) == 2:
        f2n, kids = strip(base[2][0]), strip(base[2][1])
        gnf = ("call", need["group_nodes_and_fragments"], (P(1), P(2)))
        ok = f2n[0] == "call" and f2n[1] == need["fragments_to_node"] and len(f2n[2]) == 5 and \
            strip(simplify(("field", gnf, ("1",)))) == strip(f2n[2][0]) and strip(f2n[2][1]) == ("call", need["legend_css"], (P(1),)) and \
            [strip(a) for a in f2n[2][2:]] == [P(2), P(3), P(4)] and kids == strip(simplify(("field", gnf, ("0",))))
    if ok:
        run.ok("C18.E4", "override-size builder = fragments_to_node(fragments, legend_css, settings, w, h).with_children(group_nodes)",
               where(prog.bodies[need["get_node_override_size"]]), expr_str(base)[:160])
    else:
        run.bad("C18.E4", "sibling-differs/get_node_override_size", where(prog.bodies[need["get_node_override_size"]]),
                "get_node_override_size builds `%s`" % (expr_str(base)[:240] if base is not None else "several alternatives"))
        return

    def inst(buf, st, w, h):
        return drop_blocks(strip(simplify(subst_params(base, [buf, st, w, h]))))

    def size_of(buf, st, i):
        return drop_blocks(strip(simplify(("field", ("call", gs, (buf, st)), (str(i),)))))

    # 2. the sized builder
    sz = alts(need["get_node_with_size"])
    if len(sz) == 1 and sz[0][0] == "agg" and len(sz[0][3]) == 3:
        comps = [strip(v) for _, v in sz[0][3]]
        want = [inst(P(1), P(2), size_of(P(1), P(2), 0), size_of(P(1), P(2), 1)), size_of(P(1), P(2), 0), size_of(P(1), P(2), 1)]
        if comps[0] == want[0]:
            run.ok("C18.E4", "override-size builder == sized builder with (w,h) substituted", where(prog.bodies[need["get_node_with_size"]]))
        else:
            run.bad("C18.E4", "sibling-differs/get_node_with_size", where(prog.bodies[need["get_node_with_size"]]),
                    "get_node_with_size builds `%s`, the override builder with get_size substituted is `%s`" % (expr_str(comps[0])[:200], expr_str(want[0])[:200]))
        for i, nm in ((1, "w"), (2, "h")):
            if comps[i] == want[i]:
                run.ok("C18.E4", "returned %s is get_size().%d" % (nm, i - 1), where(prog.bodies[need["get_node_with_size"]]), nontrivial=False)
            else:
                run.bad("C18.E4", "size-return/%s" % nm, where(prog.bodies[need["get_node_with_size"]]), "returned %s is %s" % (nm, expr_str(comps[i])[:100]))
    else:
        run.bad("C18.E4", "sibling-shape", where(prog.bodies[need["get_node_with_size"]]), "get_node_with_size does not return one (node, w, h)")

    # 3. get_node = the same with default settings
    gn = alts(need["get_node"])
    okg = False
    if len(gn) == 1:
        ds = []
        mentions(gn[0], lambda z: is_default(z) and ds.append(strip(z)) and False)
        if ds:
            d0 = ds[0]
            okg = gn[0] == inst(P(1), d0, size_of(P(1), d0, 0), size_of(P(1), d0, 1))
    if okg:
        run.ok("C18.E4", "get_node = get_node_with_size(default settings).0", where(prog.bodies[need["get_node"]]))
    else:
        run.bad("C18.E4", "sibling-differs/get_node", where(prog.bodies[need["get_node"]]), "get_node is `%s`" % (expr_str(gn[0])[:160] if gn else "?"))

    # 4. library entry points
    ep = {}
    for n in ("to_svg", "to_svg_string_pretty", "to_svg_string_compressed", "to_svg_with_settings", "to_svg_with_override_size"):
        p = "svgbob::" + n
        if p not in prog.bodies:
            run.missing("C18.E4", p)
            return
        ep[n] = alts(p)

    def rendered(rs, method_re):
        """(node expr) if the returned string is produced by exactly one sauron render call"""
        nodes = []
        for r in rs:
            if r[0] in ("call", "mutated_by") and re.search(method_re, r[1]):
                nodes.append(strip(r[2][0]))
            elif r[0] == "call" and r[1].endswith("String::new"):
                continue
            else:
                return None
        return nodes[0] if len(nodes) == 1 else None

    if ep["to_svg"] == ep["to_svg_string_pretty"]:
        run.ok("C18.E4", "to_svg = to_svg_string_pretty(ascii) (same expression after inlining)", where(prog.bodies["svgbob::to_svg"]))
    else:
        run.bad("C18.E4", "sibling-differs/to_svg", where(prog.bodies["svgbob::to_svg"]), "to_svg is `%s`" % " | ".join(expr_str(x) for x in ep["to_svg"])[:160])
    pn = rendered(ep["to_svg_string_pretty"], r"Node<MSG>>::render$")
    cn = rendered(ep["to_svg_string_compressed"], r"Node<MSG>>::render_to_string$")
    sn = rendered(ep["to_svg_with_settings"], r"Node<MSG>>::render$")
    on = rendered(ep["to_svg_with_override_size"], r"Node<MSG>>::render$")
    for n, v in (("to_svg_string_pretty", pn), ("to_svg_string_compressed", cn), ("to_svg_with_settings", sn), ("to_svg_with_override_size", on)):
        if v is None:
            run.bad("C18.E4", "entry-shape/%s" % n, where(prog.bodies["svgbob::" + n]),
                    "%s does not return the output of exactly one sauron render call: %s" % (n, " | ".join(expr_str(x) for x in ep[n])[:200]))
    if pn is not None and cn is not None:
        if pn == cn:
            run.ok("C18.E4", "pretty and compressed render the same node expression", where(prog.bodies["svgbob::to_svg_string_compressed"]), expr_str(pn)[:160])
        else:
            run.bad("C18.E4", "sibling-differs/pretty-vs-compressed", where(prog.bodies["svgbob::to_svg_string_compressed"]),
                    "pretty renders `%s`, compressed renders `%s`" % (expr_str(pn)[:160], expr_str(cn)[:160]))
    cbf = [q for q in prog.bodies if re.search(r"CellBuffer as core::convert::From<&str>>::from$", q)]
    buf = ("call", cbf[0], (P(1),)) if cbf else None
    if buf is None:
        run.missing("C18.E4", "CellBuffer::from(&str)")
        return
    if pn is not None:
        ds = []
        mentions(pn, lambda z: is_default(z) and ds.append(strip(z)) and False)
        okp = bool(ds) and pn == inst(buf, ds[0], size_of(buf, ds[0], 0), size_of(buf, ds[0], 1))
        if okp:
            run.ok("C18.E4", "pretty = render(CellBuffer::from(ascii).get_node_with_size(default settings).0)", where(prog.bodies["svgbob::to_svg_string_pretty"]))
        else:
            run.bad("C18.E4", "entry-node/to_svg_string_pretty", where(prog.bodies["svgbob::to_svg_string_pretty"]), "renders `%s`" % expr_str(pn)[:200])
    if sn is not None:
        if sn == inst(buf, P(2), size_of(buf, P(2), 0), size_of(buf, P(2), 1)):
            run.ok("C18.E4", "with_settings = render(CellBuffer::from(ascii).get_node_with_size(settings).0)", where(prog.bodies["svgbob::to_svg_with_settings"]))
        else:
            run.bad("C18.E4", "entry-node/to_svg_with_settings", where(prog.bodies["svgbob::to_svg_with_settings"]), "renders `%s`" % expr_str(sn)[:200])
    if on is not None:
        if on == inst(buf, P(2), P(3), P(4)):
            run.ok("C18.E4", "override_size = render(CellBuffer::from(ascii).get_node_override_size(settings, w, h))", where(prog.bodies["svgbob::to_svg_with_override_size"]))
        else:
            run.bad("C18.E4", "entry-node/to_svg_with_override_size", where(prog.bodies["svgbob::to_svg_with_override_size"]), "renders `%s`" % expr_str(on)[:200])
