"""C18 (switches and entry points) — structural clauses on MIR:
E1 in the node builder each of the style / defs / backdrop children is control-dependent on exactly
its own include_* switch (true edge), fragment children and the root on none; E2 the cosmetic
settings (colours, font, font size, stroke width) are read only by the style-sheet builder;
E3 the override size reaches only width/height of root and backdrop and the fragment nodes do not
depend on it; E4 sibling entry points build the node by the same expression (pretty = compressed
modulo the sauron render method, to_svg = pretty, get_node = with default settings, override path =
sized path with w,h substituted).  Decides who-reads-what and control dependence, not sauron's
rendering."""
import re

from ..common import field_accesses, is_derived_impl, lib_reachable, short, where
from ..exprs import inline_calls, strip
from ..mirlib import Expr, Program, expr_str, op_place

SETTINGS = "settings::Settings"
COSMETIC = ["stroke_color", "stroke_width", "background", "fill_color", "font_family", "font_size"]
SWITCHES = {"include_styles": "style sheet", "include_defs": "marker defs", "include_backdrop": "backdrop rect"}


def subst(e, mapping):
    """replace sub-expressions by mapping(e) when it returns non-None"""
    if not isinstance(e, tuple) or not e:
        return e
    if isinstance(e[0], str):
        r = mapping(e)
        if r is not None:
            return r
        return tuple([e[0]] + [subst(x, mapping) for x in e[1:]])
    return tuple(subst(x, mapping) for x in e)


def drop_blocks(e):
    """remove block ids (last int of call/mutated_by tuples) so that exprs of different bodies compare"""
    if not isinstance(e, tuple) or not e:
        return e
    if isinstance(e[0], str) and e[0] in ("call", "mutated_by"):
        return (e[0], e[1], drop_blocks(e[2]))
    return tuple(drop_blocks(x) for x in e)


def run(run):
    prog = run.prog
    f2n = prog.method("fragments_to_node", r"cell_buffer::CellBuffer$")
    if f2n:
        # single-use private helpers of the node builder (e.g. the leading children extracted into a function) are
        # spliced back, so that the switch rules see one body
        inl = prog.inline_single_use_helpers(f2n, skip=r"::(style|get_defs|legend_css)$")
        run.record("inlined_helpers", [short(x) for x in inl])
    if not f2n:
        run.missing("C18.E1", "CellBuffer::fragments_to_node")
        return
    b = prog.bodies[f2n]
    g = prog.cfg(f2n)
    ex = Expr(prog, f2n)
    settings_param = [l["id"] for l in b["locals"][1:b["argc"] + 1] if SETTINGS in l["ty"]]
    if len(settings_param) != 1:
        run.missing("C18.E1", "settings parameter of fragments_to_node")
        return
    sp = settings_param[0]

    def deps_of(bid):
        out = {}
        for a, s in g.control_deps(bid):
            t = b["blocks"][a]["term"]
            if t["k"] != "switch":
                out[("?", a)] = None
                continue
            e = strip(ex.operand(t["on"]))
            if e[0] == "param" and e[1] == sp and e[2]:
                field = e[2][-1]
                # true edge = the `otherwise` target of a bool switch on value 0
                true_edge = (t["values"] == [0] and s == t["targets"][-1])
                out[field] = true_edge
            else:
                out[expr_str(e)] = None
        return out

    # classify children pushed into the root's child list
    seen = {}
    style_fn = prog.method("style", r"cell_buffer::CellBuffer$")
    defs_fn = prog.method("get_defs", r"cell_buffer::CellBuffer$")
    for bid, t in prog.calls(f2n):
        name = Program.callee_name(t)
        kind = None
        if style_fn and name == style_fn:
            kind = "include_styles"
        elif defs_fn and name == defs_fn:
            kind = "include_defs"
        elif re.search(r"svg::tags::(commons::)?rect$", name):
            kind = "include_backdrop"
        elif re.search(r"Extend<T>>::extend$", name):
            kind = "fragments"
        elif re.search(r"svg::tags::(commons::)?svg$", name):
            kind = "root"
        elif name.endswith("FragmentTree::fragments_to_node"):
            kind = "fragments"
        if kind is None:
            continue
        d = deps_of(bid)
        seen.setdefault(kind, []).append((bid, t, d))
    for sw, what in SWITCHES.items():
        if sw not in seen:
            run.missing("C18.E1", "%s child (%s) in fragments_to_node" % (what, sw))
            continue
        for bid, t, d in seen[sw]:
            if set(d) == {sw} and d[sw] is True:
                run.ok("C18.E1", "%s guarded by %s" % (what, sw), where(t), "control-dependent on exactly settings.%s (true edge)" % sw)
            else:
                run.bad("C18.E1", "switch-guard/%s" % sw, where(t),
                        "the %s is control-dependent on %s, expected exactly settings.%s == true" % (
                            what, {k: v for k, v in d.items()} or "nothing (unconditional)", sw))
    for kind in ("fragments", "root"):
        if kind not in seen:
            run.missing("C18.E1", "%s construction in fragments_to_node" % kind)
            continue
        for bid, t, d in seen[kind]:
            if not d:
                run.ok("C18.E1", "%s unconditional" % kind, where(t), short(Program.callee_name(t)))
            else:
                run.bad("C18.E1", "conditional-%s" % kind, where(t), "%s (%s) is control-dependent on %s" % (kind, short(Program.callee_name(t)), sorted(d)))
    # each switch is read exactly once in the builder and nowhere else in the library
    reads, writes = field_accesses(prog, SETTINGS)
    for sw in SWITCHES:
        rs = [(p, st) for p, st in reads.get(sw, []) if not is_derived_impl(p) and not _settings_copy(st, sw)]
        where_read = sorted({p for p, _ in rs})
        if where_read == [f2n] and len(rs) == 1:
            run.ok("C18.E1", "settings.%s read once, in the node builder" % sw, where(rs[0][1]))
        else:
            run.bad("C18.E1", "switch-read/%s" % sw, where(rs[0][1]) if rs else None,
                    "settings.%s is read %d time(s) in %s; expected one read in fragments_to_node" % (sw, len(rs), [short(x) for x in where_read]))

    # ---------------- E2 cosmetics
    for f in COSMETIC:
        rs = [(p, st) for p, st in reads.get(f, []) if not is_derived_impl(p) and not _settings_copy(st, f)]
        readers = sorted({p for p, _ in rs})
        if not rs:
            run.bad("C18.E2", "cosmetic-unread/%s" % f, None, "settings.%s is never read: the setting has no effect on the style sheet" % f)
        elif style_fn and readers == [style_fn]:
            run.ok("C18.E2", "settings.%s read only by the style builder" % f, where(rs[0][1]), "%d read(s)" % len(rs))
        else:
            bad = [r for r in rs if r[0] != style_fn]
            run.bad("C18.E2", "cosmetic-read/%s" % f, where(bad[0][1]) if bad else None,
                    "settings.%s is read outside the style-sheet builder: %s" % (f, [short(x) for x in readers]))
    run.floor("C18.E2", "settings_fields", len([f for f in COSMETIC if f in reads]), 6)

    # ---------------- E3 override size
    wh = [l["id"] for l in b["locals"][1:b["argc"] + 1] if l["ty"] == "f32"]
    if len(wh) != 2:
        run.missing("C18.E3", "w,h parameters of fragments_to_node")
    else:
        sl0 = prog.slicer(f2n)
        for l in wh:
            nm = "w" if l == wh[0] else "h"
            attr = "width" if nm == "w" else "height"
            uses = sl0.forward_uses(l)
            if not uses:
                run.bad("C18.E3", "size-unused/%s" % nm, where(b), "override size parameter `%s` is not used" % nm)
            for st, idx in uses:
                if st.get("k") == "call" and re.search(r"svg::attributes::(commons::)?%s$" % attr, Program.callee_name(st)):
                    run.ok("C18.E3", "%s -> %s attribute" % (nm, attr), where(st))
                else:
                    run.bad("C18.E3", "size-use/%s" % nm, where(st), "override size parameter `%s` is used by %s, not by the %s attribute" % (
                        nm, short(Program.callee_name(st)) if st.get("k") == "call" else st.get("rv", {}).get("k"), attr))
        # the fragment nodes must not depend on w/h
        sl = prog.slicer(f2n)
        for bid, t in prog.calls(f2n):
            if Program.callee_name(t).endswith("FragmentTree::fragments_to_node"):
                deps = set()
                for a in t["args"]:
                    deps |= sl.slice_operand(a)
                if any(o[0] == "param" and o[1] in wh for o in deps):
                    run.bad("C18.E3", "geometry-depends-on-size", where(t), "the fragment nodes depend on the override size")
                else:
                    run.ok("C18.E3", "fragment nodes independent of w,h", where(t))
    # ---------------- E4 siblings
    e4(run)
    run.assume("sauron renders a node deterministically from its structure")


run_flow = run


def _settings_copy(st, field):
    """`Settings { ..other }`: copying a field into the same field of another Settings value"""
    rv = st.get("rv") or {}
    return rv.get("k") == "agg" and (rv.get("adt") or "").endswith(SETTINGS)


def e4(run):
    prog = run.prog
    P = "svgbob::buffer::cell_buffer::CellBuffer::"
    need = {n: prog.method(n, r"cell_buffer::CellBuffer$") for n in ("get_node", "get_node_with_size", "get_node_override_size", "get_size")}
    for n, p in need.items():
        if not p:
            run.missing("C18.E4", "CellBuffer::" + n)
            return
    sized = Expr(prog, need["get_node_with_size"]).returns()
    over = Expr(prog, need["get_node_override_size"]).returns()
    if len(sized) != 1 or len(over) != 1:
        run.bad("C18.E4", "sibling-shape", where(prog.bodies[need["get_node_with_size"]]), "node builders have several return expressions")
        return
    s = strip(sized[0])
    o = drop_blocks(strip(over[0]))
    if s[0] != "agg" or len(s[3]) != 3:
        run.bad("C18.E4", "sibling-shape", where(prog.bodies[need["get_node_with_size"]]), "get_node_with_size does not return (node, w, h)")
        return
    # delegation (the sized builder calling the override builder with get_size's values) is inlined away
    s_node = drop_blocks(strip(inline_calls(prog, dict(s[3])["0"], keep=r"^(?!.*CellBuffer::get_node_override_size$).*$", depth=1)))
    gs = need["get_size"]

    def sz(e):
        # get_size(self, settings).0 -> arg3, .1 -> arg4
        if e[0] == "field" and strip(e[1])[0] == "call" and strip(e[1])[1] == gs and e[2] in (("0",), ("1",)):
            return ("param", 3 if e[2] == ("0",) else 4, ())
        return None

    s_sub = subst(s_node, sz)
    if s_sub == o:
        run.ok("C18.E4", "override-size builder == sized builder with (w,h) substituted", where(prog.bodies[need["get_node_override_size"]]), expr_str(o)[:160])
    else:
        run.bad("C18.E4", "sibling-differs/get_node_override_size", where(prog.bodies[need["get_node_override_size"]]),
                "get_node_override_size builds `%s` but get_node_with_size builds `%s`" % (expr_str(o)[:200], expr_str(s_sub)[:200]))
    # (w,h) returned are get_size
    for i, nm in ((1, "w"), (2, "h")):
        e = strip(dict(s[3])[str(i)])
        if e[0] == "field" and strip(e[1])[0] == "call" and strip(e[1])[1] == gs and e[2] == (str(i - 1),):
            run.ok("C18.E4", "returned %s is get_size().%d" % (nm, i - 1), where(prog.bodies[need["get_node_with_size"]]), nontrivial=False)
        else:
            run.bad("C18.E4", "size-return/%s" % nm, where(prog.bodies[need["get_node_with_size"]]), "returned %s is %s" % (nm, expr_str(e)))
    # get_node = get_node_with_size(self, &Settings::default()).0
    gn = Expr(prog, need["get_node"]).returns()
    e = strip(gn[0]) if len(gn) == 1 else ("unknown",)
    ok = e[0] == "field" and e[2] == ("0",) and strip(e[1])[0] == "call" and strip(e[1])[1] == need["get_node_with_size"] and \
        strip(strip(e[1])[2][1])[0] == "call" and re.search(r"Settings as core::default::Default>::default$", strip(strip(e[1])[2][1])[1])
    if ok:
        run.ok("C18.E4", "get_node = get_node_with_size(default settings).0", where(prog.bodies[need["get_node"]]))
    else:
        run.bad("C18.E4", "sibling-differs/get_node", where(prog.bodies[need["get_node"]]), "get_node is `%s`" % expr_str(e)[:160])
    # library entry points
    ep = {}
    for n in ("to_svg", "to_svg_string_pretty", "to_svg_string_compressed", "to_svg_with_settings", "to_svg_with_override_size"):
        p = "svgbob::" + n
        if p not in prog.bodies:
            run.missing("C18.E4", p)
            return
        # helper extraction and delegation between the entry points are made invisible: crate-local calls are
        # inlined down to the node builders
        flat = []
        for r in Expr(prog, p).returns():
            x = strip(inline_calls(prog, r, keep=r"get_node_with_size$|get_node_override_size$|convert::From<|Default>::default$"))
            flat.extend(strip(y) for y in x[1]) if x[0] == "phi" else flat.append(x)
        ep[n] = [drop_blocks(x) for x in flat]

    def rendered(rs, method_re):
        """(node expr) if the returned string is produced by exactly one sauron render call"""
        nodes = []
        for r in rs:
            if r[0] == "call" and re.search(method_re, r[1]):
                nodes.append(r[2][0])
            elif r[0] == "mutated_by" and re.search(method_re, r[1]):
                nodes.append(r[2][0])
            elif r[0] == "call" and r[1].endswith("String::new"):
                continue
            else:
                return None
        return nodes[0] if len(nodes) == 1 else None

    conv = lambda argi: ("call", None)
    t = ep["to_svg"]
    if t == ep["to_svg_string_pretty"]:
        run.ok("C18.E4", "to_svg = to_svg_string_pretty(ascii) (same expression after inlining)", where(prog.bodies["svgbob::to_svg"]))
    else:
        run.bad("C18.E4", "sibling-differs/to_svg", where(prog.bodies["svgbob::to_svg"]), "to_svg is `%s`" % " | ".join(expr_str(x) for x in t)[:160])
    pn = rendered(ep["to_svg_string_pretty"], r"Node<MSG>>::render$")
    cn = rendered(ep["to_svg_string_compressed"], r"Node<MSG>>::render_to_string$")
    sn = rendered(ep["to_svg_with_settings"], r"Node<MSG>>::render$")
    on = rendered(ep["to_svg_with_override_size"], r"Node<MSG>>::render$")
    for n, v in (("to_svg_string_pretty", pn), ("to_svg_string_compressed", cn), ("to_svg_with_settings", sn), ("to_svg_with_override_size", on)):
        if v is None:
            run.bad("C18.E4", "entry-shape/%s" % n, where(prog.bodies["svgbob::" + n]),
                    "%s does not return the output of exactly one sauron render call: %s" % (n, " | ".join(expr_str(x) for x in ep[n])[:200]))
    if pn is not None and cn is not None:
        if pn == cn:
            run.ok("C18.E4", "pretty and compressed render the same node expression", where(prog.bodies["svgbob::to_svg_string_compressed"]), expr_str(pn))
        else:
            run.bad("C18.E4", "sibling-differs/pretty-vs-compressed", where(prog.bodies["svgbob::to_svg_string_compressed"]),
                    "pretty renders `%s`, compressed renders `%s`" % (expr_str(pn), expr_str(cn)))
    cb_from = lambda e: strip(e)[0] == "call" and re.search(r"CellBuffer as core::convert::From<&str>>::from$", strip(e)[1]) and strip(e)[2] == (("param", 1, ()),)
    if pn is not None:
        e = strip(pn)
        okp = e[0] == "field" and e[2] == ("0",) and strip(e[1])[0] == "call" and strip(e[1])[1] == need["get_node_with_size"] and \
            cb_from(strip(e[1])[2][0]) and strip(strip(e[1])[2][1])[0] == "call" and re.search(r"Settings as core::default::Default>::default$", strip(strip(e[1])[2][1])[1])
        if okp:
            run.ok("C18.E4", "pretty = render(CellBuffer::from(ascii).get_node_with_size(default settings).0)", where(prog.bodies["svgbob::to_svg_string_pretty"]))
        else:
            run.bad("C18.E4", "entry-node/to_svg_string_pretty", where(prog.bodies["svgbob::to_svg_string_pretty"]), "renders `%s`" % expr_str(e))
    if sn is not None:
        e = strip(sn)
        ok = e[0] == "field" and e[2] == ("0",) and strip(e[1])[0] == "call" and strip(e[1])[1] == need["get_node_with_size"] and \
            cb_from(strip(e[1])[2][0]) and strip(strip(e[1])[2][1]) == ("param", 2, ())
        if ok:
            run.ok("C18.E4", "with_settings = render(CellBuffer::from(ascii).get_node_with_size(settings).0)", where(prog.bodies["svgbob::to_svg_with_settings"]))
        else:
            run.bad("C18.E4", "entry-node/to_svg_with_settings", where(prog.bodies["svgbob::to_svg_with_settings"]), "renders `%s`" % expr_str(e))
    if on is not None:
        e = strip(on)
        ok = e[0] == "call" and e[1] == need["get_node_override_size"] and cb_from(e[2][0]) and \
            [strip(x) for x in e[2][1:]] == [("param", 2, ()), ("param", 3, ()), ("param", 4, ())]
        if ok:
            run.ok("C18.E4", "override_size = render(CellBuffer::from(ascii).get_node_override_size(settings, w, h))", where(prog.bodies["svgbob::to_svg_with_override_size"]))
        else:
            run.bad("C18.E4", "entry-node/to_svg_with_override_size", where(prog.bodies["svgbob::to_svg_with_override_size"]), "renders `%s`" % expr_str(e))
