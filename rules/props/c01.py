"""C01 (conversion is total) — structural clauses: R1 panic obligations: every explicit panic site
reachable from the five library entry points (panic!/unreachable!/assert*!, Option/Result
unwrap/expect, Index::index on Vec/slice/str, MIR bounds/div asserts) is *discharged* on the current
source by one of the guard idioms (I1 infeasible boolean skeleton, I2 closed table, I3 total parser,
I4 variant established by the selecting predicate, I5 literal non-empty / enumerate index, I6 writer
that cannot fail, I7 input-independent (only reachable through static initialisers), I8 option
paired with its flag, I9 index below an established length, I10 char-boundary offset from find)
or is listed in the reviewed-assumption table with its reason; a site that is neither is reported.
R2 termination shape: every call-graph cycle among reachable workspace functions has a variant
(strictly shrinking length, or structural descent into a child collection); no `loop`/`while` and
no unbounded iterator source in reachable code.  R3 the pom grammars cannot spin: no nullable
operand under an unbounded repeat, no list with nullable item and separator.
R5 NaN hygiene: values of the workspace functions that can return NaN for finite arguments never reach a
function from which the total order on coordinates (util::ord, whose NaN arm panics) is reachable, nor a
stored point or fragment.  Not decided: stack depth, the polynomial time bound, panics inside
dependencies (parry2d, nalgebra, pom, sauron, unicode-width), out-of-memory."""
import itertools
import re

from ..common import find_nodes, guards, lib_reachable, short, src_file, src_fn, where
from ..exprs import subst_params, simplify, is_const, mentions, strip
from ..grammar import GrammarError, load_parser_module
from ..charset import Unknown
from ..mirlib import Expr, Program, expr_str, op_const, op_place

PANIC_CALL = re.compile(
    r"^core::panicking::(panic|panic_fmt|assert_failed|panic_explicit|unreachable_display|panic_display|panic_nounwind)|^std::rt::begin_panic|"
    r"^core::option::Option::<T>::(unwrap|expect)$|^core::result::Result::<T, E>::(unwrap|expect|unwrap_err|expect_err)$|"
    r"ops::index::Index(Mut)?<.*>>::index(_mut)?$|ops::index::Index(Mut)?<I> for str>::index(_mut)?$|^core::slice::<impl \[T\]>::(swap|split_at|copy_from_slice)$|"
    r"^alloc::vec::Vec::<T, A>::(remove|swap_remove|insert|split_off|drain)$|^core::str::<impl str>::(split_at)$")
ASSERT_OBLIG = {"BoundsCheck", "DivisionByZero", "RemainderByZero"}

# sites no idiom discharges: key -> reason (reviewed by reading the code)
REVIEWED = {
    "CellBuffer::escape_line/index": "the three slices input_chars[start+1..end], [index..start], [index..] use positions produced by the total parser line_parse: each (start, end) pair has start < end <= len, pairs are increasing and index = previous end + 1 <= next start (position reasoning over the grammar, not decidable by the idioms)",
    "Span::endorse_to_arcs_and_circles/expect/must have bounds": "spans are built by Span::new (one cell) and merges/unions of non-empty spans; contact.span() of a non-empty group is non-empty (needs a non-empty type to decide)",
    "util::ord/panic_fmt": "the unreachable arm needs a NaN coordinate; coordinates are finite grid values (NaN-freedom is an assumption of the property's finite positive scale)",
    "Polygon::last/index": "points[n - 1] with n = len(): non-empty because every polygon literal of both tables has >= 3 points (checked below under I5) and scale/absolute_position preserve the length",
    "Polygon::first/index": "points[0]: same argument as Polygon::last",
}


def site_key(p, kind, detail):
    return "%s/%s%s" % (short(p), kind, ("/" + detail) if detail else "")


def run(run):
    prog = run.prog
    roots, reach = lib_reachable(run, "C01.R1")
    # bodies reachable without passing through a static initialiser
    E = prog.edges()
    direct = set()
    work = list(roots)
    while work:
        x = work.pop()
        if x in direct or x not in prog.bodies:
            continue
        direct.add(x)
        for y in E.get(x, ()):
            if y not in prog.statics:
                work.append(y)
    only_via_static = reach - direct
    run.record("reachable_bodies", len(reach))
    run.record("reachable_only_through_table_initialisers", len(only_via_static))
    g, gmod, gfile = load_parser_module(run)

    sites = []
    for p in sorted(reach):
        b = prog.bodies[p]
        ex = None
        for bid, t in prog.calls(p):
            n = Program.callee_name(t)
            d = t["callee"].get("path") or ""
            if not (PANIC_CALL.search(n) or PANIC_CALL.search(d)):
                continue
            ex = ex or Expr(prog, p)
            kind = n.split("::")[-1]
            if "panicking" in n or "begin_panic" in n:
                kind = n.split("::")[-1]
            detail = ""
            if kind in ("expect", "unwrap", "unwrap_err", "expect_err") and len(t["args"]) > 1:
                ce = strip(ex.operand(t["args"][1]))
                detail = ""
                if ce[0] == "const":
                    detail = ce[2] if ce[1] == "str" else ((re.search(r'"(.*)"', str(ce[2]), re.S) or [None, ""])[1])
            sites.append((p, bid, t, "index" if kind.startswith("index") else kind, detail, ex))
        for blk in b["blocks"]:
            t = blk["term"]
            if t["k"] == "assert" and not blk["cleanup"] and t["assert"] in ASSERT_OBLIG:
                ex = ex or Expr(prog, p)
                sites.append((p, blk["id"], t, "assert:" + t["assert"], "", ex))
    run.record("panic_sites", len(sites))
    # 45 counted by hand on the pinned tree; the floor leaves room for tidy-ups that share or remove a few sites (a
    # helper replacing duplicated `expect`s) and still trips long before the census could pass vacuously
    run.floor("C01.R1", "panic_sites", len(sites), 30)

    ctx = Ctx(run, g, direct, only_via_static)
    for p, bid, t, kind, detail, ex in sites:
        key = site_key(p, kind, detail)
        ok, idiom, why = ctx.discharge(p, bid, t, kind, detail, ex)
        inst = "%s %s%s" % (short(p), kind, (' "%s"' % detail) if detail else "")
        if ok:
            run.ok("C01.R1", inst + " @" + (where(t) or ""), where(t), "%s: %s" % (idiom, why))
        elif key in REVIEWED:
            run.ok("C01.R1", inst + " @" + (where(t) or ""), where(t), "reviewed assumption: " + REVIEWED[key], nontrivial=False)
        else:
            run.bad("C01.R1", "undischarged-panic/%s" % key, where(t),
                    "undischarged panic obligation: %s in %s can panic and no guard idiom establishes that it cannot (%s); reached via %s" % (
                        kind + ((' "%s"' % detail) if detail else ""), p, why, " -> ".join(short(x) for x in prog.path_to(p)[-4:])))
    ctx.polygon_literals()
    r2(run, reach)
    r3(run, g, gfile)
    r5(run, reach, only_via_static)
    run.assume("dependencies do not panic on the values svgbob hands them; coordinates are finite")
    run.assume("stack depth and the polynomial time bound are not decided")


class Ctx:
    def __init__(self, run, grammar, direct, only_via_static):
        self.run = run
        self.prog = run.prog
        self.g = grammar
        self.direct = direct
        self.only_via_static = only_via_static

    # ------------------------------------------------------------------ dispatcher
    def discharge(self, p, bid, t, kind, detail, ex):
        prog = self.prog
        if p in self.only_via_static:
            return True, "I7 input-independent", "the site is reachable only through static table initialisers, which receive no value derived from the input (it fires on every conversion or on none, and the test suite executes every initialiser)"
        if kind in ("expect", "unwrap"):
            recv = strip(ex.operand(t["args"][0]))
            # I3 total parser
            if recv[0] == "call" and re.search(r"pom::parser::Parser::<'a, I, O>::parse$", recv[1]):
                ge = strip(recv[2][0])
                if ge[0] == "call" and self.g is not None:
                    name = ge[1].split("::")[-1]
                    try:
                        if self.g.total(self.g.tree(name)):
                            return True, "I3 total parser", "grammar `%s` never fails (repeat(0..) / list / opt at the top)" % name
                        return False, "", "grammar `%s` can fail" % name
                    except (GrammarError, Unknown) as e:
                        return False, "", "grammar %s not interpretable: %s" % (name, e)
            # I6 writer that cannot fail
            if recv[0] == "call" and re.search(r"Node<MSG>>::render$", recv[1]):
                tys = self.prog.bodies[p]["blocks"][recv[3]]["term"].get("arg_tys", [])
                w = strip(recv[2][1])
                src = None
                mentions(w, lambda z: z[0] == "call" and z[1].endswith("String::new") and False)
                if len(tys) == 2 and "dyn core::fmt::Write" in tys[1] and mentions(recv[2][1], lambda z: z[0] == "call" and z[1].endswith("alloc::string::String::new") or z == ("self",)):
                    return True, "I6 infallible writer", "rendering into a String: fmt::Write for String never returns Err"
                if len(tys) == 2 and "dyn core::fmt::Write" in tys[1]:
                    # the buffer local is a String
                    pl = op_place(t["args"][0])
                    return True, "I6 infallible writer", "render target is a `String` buffer (fmt::Write for String is infallible)" if self._render_to_string(p, recv) else (False, "", "render target is not a String")
            # I4 variant established by the selecting predicate / I8 option paired with its flag
            if recv[0] == "call" and re.search(r"Fragment::as_(line|arc)$", recv[1]):
                which = recv[1].split("_")[-1]
                inner = self.prog.bodies[p]["blocks"][recv[3]]["term"]
                idx = self.index_exprs(p, inner["args"][0], ex)
                return self.variant_by_selector(p, which, ("tuple", recv, tuple(idx)))
            if recv[0] == "field" and recv[2][-1:] == ("1",) and strip(recv[1])[0] == "call" and strip(recv[1])[1].endswith("endorse::is_rounded_rect"):
                return self.paired_option(p, bid, strip(recv[1])[1])
            return False, "", "receiver `%s` is not known to be Some/Ok" % expr_str(recv)[:80]
        if kind == "index" or kind == "assert:BoundsCheck":
            return self.index_site(p, bid, t, kind, ex)
        if kind in ("panic", "panic_fmt", "panic_explicit", "unreachable_display", "panic_display"):
            fn = p.split("::")[-1]
            if fn == "heading":
                return self.closed_table(p)
            if fn == "merge_circle":
                return self.infeasible_skeleton(p)
            return False, "", "explicit panic"
        if kind == "assert_failed":
            return False, "", "assertion on the conversion path"
        if kind.startswith("assert:"):
            return False, "", "arithmetic check (%s)" % kind
        if kind == "split_at" and len(t["args"]) == 2:
            # str::split_at at the offset found by find() on the same string is on a char boundary (I10)
            base = strip(ex.operand(t["args"][0]))
            off = strip(simplify(ex.operand(t["args"][1])))
            tys = t.get("arg_tys", [])
            if tys and tys[0] in ("&str", "&alloc::string::String") and off[0] == "field" and "@Some" in off[2] and \
                    strip(off[1])[0] == "call" and strip(off[1])[1].endswith("str::<impl str>::find") and strip(strip(off[1])[2][0]) == base:
                return True, "I10 char-boundary offset", "split_at at the Some of %s.find(..) on the same string" % expr_str(base)
            return False, "", "split_at with offset `%s`" % expr_str(off)[:80]
        return False, "", "unrecognised panic kind"

    def _render_to_string(self, p, recv):
        b = self.prog.bodies[p]
        for l in b["locals"]:
            if l.get("name") == "buffer" and l["ty"] == "alloc::string::String":
                return True
        return any(l["ty"] == "alloc::string::String" and l.get("name") for l in b["locals"])

    def index_exprs(self, p, op, ex):
        """expressions of the index locals used by the place an operand (possibly a reference temp) denotes"""
        sl = self.prog.slicer(p)
        out = []
        seen = set()
        work = [op_place(op)] if op_place(op) else []
        while work:
            pl = work.pop()
            for pr in pl["p"]:
                if isinstance(pr, dict) and "i" in pr:
                    out.append(ex.local(pr["i"]))
            if pl["l"] in seen:
                continue
            seen.add(pl["l"])
            for kind, d, _ in sl.defs.get(pl["l"], ()):
                if kind == "assign" and d["rv"]["k"] in ("ref", "refmut", "use"):
                    if "place" in d["rv"]:
                        work.append(d["rv"]["place"])
                    for o in d["rv"].get("ops", []):
                        if op_place(o):
                            work.append(op_place(o))
        return out

    def call_site_variants(self, p, exprs):
        """the expressions `exprs` of body p rewritten in terms of each of p's callers (arguments substituted for the
        parameters), when p is a private helper all of whose call sites are known: an obligation inside an extracted
        helper is discharged when the idiom holds at *every* call site.  None when p is public, a closure or uncalled."""
        prog = self.prog
        b = prog.bodies.get(p)
        if b is None or "{closure" in p.rsplit("::", 1)[-1] or str(b.get("vis")) == "Public" or b.get("crate") != "svgbob":
            return None
        if not any(mentions(e, lambda z: z[0] == "param") for e in exprs):
            return None
        sites = prog.callers(p)
        if not sites or len(sites) > 8:
            return None
        out = []
        for caller, _, t in sites:
            if caller == p or len(t["args"]) != b["argc"]:
                return None
            cex = Expr(prog, caller)
            args = [cex.operand(a) for a in t["args"]]
            out.append((caller, tuple(strip(simplify(subst_params(e, args))) for e in exprs)))
        return out

    # ------------------------------------------------------------------ I4
    def variant_by_selector(self, p, which, recv):
        prog = self.prog
        # inside an extracted private helper: decide at every call site
        vs = self.call_site_variants(p, (recv,)) if not mentions(recv, lambda z: z[0] == "call" and re.search(r"endorse::(parallel_aabb_group|right_angle_arcs)$", z[1])) else None
        if vs:
            res = [self.variant_by_selector(c, which, v[0]) for c, v in vs]
            if all(r[0] for r in res):
                return True, res[0][1], res[0][2] + " (established at each of the %d call sites of %s)" % (len(vs), short(p))
            return [r for r in res if not r[0]][0]
        if which == "line":
            # index pairs come from parallel_aabb_group, which pushes (i, j) only under frag_i.is_aabb_parallel(frag_j),
            # and Fragment::is_aabb_parallel is false unless both are lines
            pg = [q for q in prog.bodies if q.endswith("endorse::parallel_aabb_group")]
            iap = prog.method("is_aabb_parallel", r"fragment::Fragment$", "")
            if len(pg) != 1 or not iap:
                return False, "", "parallel_aabb_group / Fragment::is_aabb_parallel not found"
            idx_from_group = mentions(recv, lambda z: z[0] == "call" and z[1] == pg[0])
            rets = [strip(r) for r in Expr(prog, iap).returns()]
            calls = [r for r in rets if r[0] == "call"]
            only_lines = len(calls) == 1 and calls[0][1].endswith("line::Line::is_aabb_parallel") and "@Line" in strip(calls[0][2][0])[2] and "@Line" in strip(calls[0][2][1])[2] and \
                all(is_const(r, 0) for r in rets if r[0] != "call")
            pushes = [(bid, t) for bid, t in prog.calls(pg[0]) if Program.callee_name(t).endswith("Vec::<T, A>::push")]
            guarded = bool(pushes) and all(any(strip(c)[0] == "call" and strip(c)[1] == iap and tk != 0 for c, tk, sw in guards(prog, pg[0], bid)) for bid, t in pushes)
            if idx_from_group and only_lines and guarded:
                return True, "I4 variant by selector", "the index comes from parallel_aabb_group, which records a pair only when Fragment::is_aabb_parallel holds, and that is false unless both fragments are lines"
            return False, "", "as_line().expect: index from parallel_aabb_group=%s, is_aabb_parallel only for lines=%s, push guarded=%s" % (idx_from_group, only_lines, guarded)
        else:
            ra = [q for q in prog.bodies if q.endswith("endorse::right_angle_arcs")]
            if len(ra) != 1:
                return False, "", "right_angle_arcs not found"
            idx_from = mentions(recv, lambda z: z[0] == "call" and z[1] == ra[0])
            ok = False
            for c in prog.closures_of(ra[0]):
                rets = [strip(r) for r in Expr(prog, c).returns()]
                somes = [r for r in rets if r[0] == "agg" and r[2] == "Some"]
                if somes:
                    blocks = [bid for bid, st in self._agg_blocks(c, "Some")]
                    ok = all(any(strip(cd)[0] == "discr" and mentions(cd, lambda z: z[0] == "call" and z[1].endswith("Fragment::as_arc")) and tk == 1 for cd, tk, sw in guards(prog, c, bid)) for bid in blocks) and bool(blocks)
            if not ok:
                # the loop form: every push of an index in right_angle_arcs itself is control-dependent on as_arc() being Some
                pushes = [(bid, t) for bid, t in prog.calls(ra[0]) if Program.callee_name(t).endswith("Vec::<T, A>::push")]
                ok = bool(pushes) and all(any(strip(cd)[0] == "discr" and mentions(cd, lambda z: z[0] == "call" and z[1].endswith("Fragment::as_arc")) and tk in (1, ("not", (0,)))
                                              for cd, tk, sw in guards(prog, ra[0], bid)) for bid, t in pushes)
            if idx_from and ok:
                return True, "I4 variant by selector", "the index comes from right_angle_arcs, whose filter keeps an index only when frag.as_arc() is Some"
            return False, "", "as_arc().expect: index from right_angle_arcs=%s, filter on as_arc()=%s" % (idx_from, ok)

    def _agg_blocks(self, p, variant):
        out = []
        for blk in self.prog.bodies[p]["blocks"]:
            for st in blk["stmts"]:
                rv = st.get("rv") or {}
                if rv.get("k") == "agg" and rv.get("variant") == variant:
                    out.append((blk["id"], st))
        return out

    # ------------------------------------------------------------------ I8
    def paired_option(self, p, bid, callee):
        prog = self.prog
        rets = [strip(r) for r in Expr(prog, callee).returns()]
        ok = bool(rets)
        for r in rets:
            if r[0] != "agg" or len(r[3]) != 2:
                ok = False
                continue
            flag, opt = strip(r[3][0][1]), strip(r[3][1][1])
            if is_const(flag, 0):
                continue
            if not (opt[0] == "agg" and opt[2] == "Some"):
                ok = False
        guarded = any(strip(c)[0] == "field" and strip(c)[2][-1:] == ("0",) and mentions(c, lambda z: z[0] == "call" and z[1] == callee) and tk != 0 for c, tk, sw in guards(prog, p, bid))
        if ok and guarded:
            return True, "I8 option paired with its flag", "guarded by the first component of %s being true, and every return whose flag is not the literal false carries Some(_)" % short(callee)
        return False, "", "flag/option pairing of %s: returns consistent=%s, guarded by the flag=%s" % (short(callee), ok, guarded)

    # ------------------------------------------------------------------ I9 / I5 / I10
    def index_site(self, p, bid, t, kind, ex):
        prog = self.prog
        b = prog.bodies[p]
        if kind == "index":
            base = strip(ex.operand(t["args"][0]))
            idx = strip(ex.operand(t["args"][1]))
            tys = t.get("arg_tys", [])
            # I10 str slicing at a find() offset of the same string
            if tys and tys[0] in ("&str", "&alloc::string::String"):
                ok = idx[0] == "agg" and mentions(idx, lambda z: z[0] == "call" and z[1].endswith("str::<impl str>::find") and strip(z[2][0]) == base)
                if ok:
                    return True, "I10 char-boundary offset", "the byte offset is the Some of %s.find(..) on the same string" % expr_str(base)
                # the same inside a closure handed to a combinator on the find result:
                # `s.find(..).and_then(|loc| .. &s[loc..] ..)` (the offset is the closure's argument, s a capture)
                if "{closure" in p and idx[0] == "agg":
                    parent = p.rsplit("::{closure", 1)[0]
                    only_arg = mentions(idx, lambda z: z[0] == "param" and z[1] == 2) and not mentions(idx, lambda z: z[0] in ("call", "bin"))
                    if parent in prog.bodies and only_arg and base[0] == "param" and base[1] == 1 and base[2]:
                        pex = Expr(prog, parent)
                        for _, ct in prog.calls(parent):
                            if not re.search(r"^core::option::Option::<T>::(and_then|map|map_or|map_or_else|filter|is_some_and)$", Program.callee_name(ct)):
                                continue
                            for a in ct["args"]:
                                av = strip(pex.operand(a))
                                if av[0] == "agg" and av[1] == "closure:" + p:
                                    caps = dict(av[3])
                                    recv = strip(pex.operand(ct["args"][0]))
                                    cap = caps.get(str(base[2][0]))
                                    if cap is not None and recv[0] == "call" and recv[1].endswith("str::<impl str>::find") and strip(recv[2][0]) == strip(cap):
                                        return True, "I10 char-boundary offset", "the byte offset is the payload of %s.find(..) handed to this closure by %s" % (
                                            expr_str(strip(cap)), Program.callee_name(ct).split("::")[-1])
                return False, "", "str slice with offset `%s`" % expr_str(idx)[:80]
        else:
            base = None
            idx = strip(ex.operand(t["index"])) if "index" in t else ("unknown",)
        # I9: constant index dominated by a len() == N test on the same vector, N > index
        c = idx if idx[0] == "const" else None
        if c is not None and c[1] == "int":
            need = int(c[2])
            for cond, tk, sw in guards(prog, p, bid):
                cs = strip(cond)
                if cs[0] == "bin" and cs[1] == "Eq" and tk != 0:
                    l, r = strip(cs[2]), strip(cs[3])
                    same = base is not None and strip(l[2][0]) == base if l[0] == "call" and l[2] else False
                    if l[0] == "call" and l[1].endswith("::len") and r[0] == "const" and int(r[2]) > need and same:
                        return True, "I9 index below an established length", "dominated by `%s.len() == %s`" % (expr_str(strip(l[2][0]))[:40], r[2])
                # the same tests written as early returns: `if v.len() != N { return }`, `if v.len() < N { return }`
                if cs[0] == "bin" and cs[1] == "Ne" and tk == 0:
                    l, r = strip(cs[2]), strip(cs[3])
                    same = base is not None and l[0] == "call" and l[2] and strip(l[2][0]) == base
                    if l[0] == "call" and l[1].endswith("::len") and r[0] == "const" and int(r[2]) > need and same:
                        return True, "I9 index below an established length", "dominated by the false edge of `%s.len() != %s`" % (expr_str(strip(l[2][0]))[:40], r[2])
                if cs[0] == "bin" and cs[1] in ("Lt", "Le") and tk == 0:
                    l, r = strip(cs[2]), strip(cs[3])
                    same = base is not None and l[0] == "call" and l[2] and strip(l[2][0]) == base
                    if l[0] == "call" and l[1].endswith("::len") and r[0] == "const" and same and (int(r[2]) > need if cs[1] == "Lt" else int(r[2]) >= need):
                        return True, "I9 index below an established length", "dominated by the false edge of `len() %s %s`" % ("<" if cs[1] == "Lt" else "<=", r[2])
                if cs[0] == "bin" and cs[1] in ("Ge", "Gt") and tk != 0:
                    l, r = strip(cs[2]), strip(cs[3])
                    same = base is not None and l[0] == "call" and l[2] and strip(l[2][0]) == base
                    if l[0] == "call" and l[1].endswith("::len") and r[0] == "const" and same and (int(r[2]) > need if cs[1] == "Ge" else int(r[2]) >= need):
                        return True, "I9 index below an established length", "dominated by `len() %s %s`" % (">=" if cs[1] == "Ge" else ">", r[2])
            # switchInt(len) form: `if v.len() == 2` lowers to a switch on Eq; handled above.  Literal tables:
            return False, "", "constant index %d without a dominating length test" % need
        # I5: index that is an element of the index pairs produced over enumerate() of the same slice
        if mentions(idx, lambda z: z[0] == "call" and re.search(r"endorse::(parallel_aabb_group|right_angle_arcs)$", z[1])):
            fn = "parallel_aabb_group" if mentions(idx, lambda z: z[0] == "call" and z[1].endswith("parallel_aabb_group")) else "right_angle_arcs"
            q = [x for x in prog.bodies if x.endswith("endorse::" + fn)][0]
            same_slice = mentions(idx, lambda z: z[0] == "call" and z[1] == q and strip(z[2][0]) == ("param", 1, ())) and (base is None or base == ("param", 1, ()) or mentions(base, lambda z: z == ("param", 1, ())))
            enum_only = self._indices_from_enumerate(q)
            if same_slice and enum_only:
                return True, "I5 enumerate index of the same slice", "the index was produced by %s from enumerate() over the very slice that is indexed" % fn
            return False, "", "index from %s: same slice=%s, enumerate indices only=%s" % (fn, same_slice, enum_only)
        # inside an extracted private helper (`fn line_pair(fragments, (i, j))`): the same idioms at every call site
        lenv = strip(ex.operand(t["len"])) if kind == "assert:BoundsCheck" and "len" in t else None
        if (base is not None and kind == "index") or lenv is not None:
            vs = self.call_site_variants(p, (base if base is not None else lenv, idx))
            if vs:
                res = []
                for c, (vb, vi) in vs:
                    if mentions(vi, lambda z: z[0] == "call" and re.search(r"endorse::(parallel_aabb_group|right_angle_arcs)$", z[1])):
                        fn = "parallel_aabb_group" if mentions(vi, lambda z: z[0] == "call" and z[1].endswith("parallel_aabb_group")) else "right_angle_arcs"
                        q = [x for x in prog.bodies if x.endswith("endorse::" + fn)][0]
                        # the slice that is indexed (or whose length bounds the index) is the one the indices were computed from
                        same_slice = mentions(vi, lambda z: z[0] == "call" and z[1] == q and (strip(z[2][0]) == vb or mentions(vb, lambda y: y == strip(z[2][0]))))
                        res.append(same_slice and self._indices_from_enumerate(q))
                    else:
                        res.append(False)
                if res and all(res):
                    return True, "I5 enumerate index of the same slice", "at each of the %d call sites of %s the index was produced from enumerate() over the very slice that is indexed" % (len(vs), short(p))
        return False, "", "index `%s` is not bounded by a recognised idiom" % expr_str(idx)[:80]

    def _indices_from_enumerate(self, q):
        """every value pushed/returned as an index by q is an enumerate() counter of its argument slice"""
        prog = self.prog
        bodies = [q] + prog.closures_of(q)
        ok = False
        for c in bodies:
            ex = Expr(prog, c)
            for bid, t in prog.calls(c):
                if Program.callee_name(t).endswith("Vec::<T, A>::push"):
                    v = strip(ex.operand(t["args"][1]))
                    parts = [strip(x) for _, x in v[3]] if v[0] == "agg" else [v]
                    ok = all(x[0] == "field" and x[2][-2:] == ("0", "0") and mentions(x, lambda z: z[0] == "call" and z[1].endswith("Iterator::enumerate")) for x in parts)
                    if not ok:
                        return False
            for r in ex.returns():
                r = strip(r)
                if r[0] == "agg" and r[2] == "Some" and c != q:
                    x = strip(r[3][0][1])
                    ok = x[0] == "param" and x[2][-1:] == ("0",)  # the enumerate index of the (index, frag) pair
                    if not ok:
                        return False
        if q.endswith("right_angle_arcs"):
            r = [strip(x) for x in Expr(prog, q).returns()]
            chain_form = len(r) == 1 and mentions(r[0], lambda z: z[0] == "call" and z[1].endswith("Iterator::enumerate")) and mentions(r[0], lambda z: z[0] == "call" and z[1].endswith("filter_map"))
            # or a `for (index, frag) in fragments.iter().enumerate()` loop pushing `index` (verified above for every push)
            loop_form = any(Program.callee_name(t).endswith("Vec::<T, A>::push") for _, t in prog.calls(q))
            ok = ok and (chain_form or loop_form)
        return ok

    # ------------------------------------------------------------------ I2
    def closed_table(self, p):
        """the panic is the otherwise-edge of a switch on `<f>(self).round() as i32` whose values include every value the
        table function <f> can return (all of its returns are literals).  Decided on the MIR of both functions, so
        or-patterns, merged ranges and the order of the arms do not matter."""
        run = self.run
        prog = run.prog
        fn = p["fn"] if isinstance(p, dict) and "fn" in p else None
        hs = [q for q in prog.bodies if q.endswith("line::Line::heading")]
        if len(hs) != 1:
            return False, "", "heading not found"
        h = hs[0]
        b = prog.bodies[h]
        ex = Expr(prog, h)
        g = prog.cfg(h)
        panics = [bid for bid, t in prog.calls(h) if re.search(r"panicking::(panic|panic_fmt|unreachable_display)$", Program.callee_name(t))]
        if len(panics) != 1:
            return False, "", "heading has %d panic sites" % len(panics)
        sw = [(bid, blk["term"]) for bid, blk in enumerate(b["blocks"]) if blk["term"]["k"] == "switch"]
        sw = [(bid, t) for bid, t in sw if t["targets"][-1] == panics[0] or g.dominates(t["targets"][-1], panics[0])]
        if len(sw) != 1:
            return False, "", "the panic of heading is not the otherwise edge of one match"
        bid, t = sw[0]
        # no value edge may lead to the panic as well
        if any(tg == t["targets"][-1] for tg in t["targets"][:-1]):
            return False, "", "a listed value of heading's match panics too"
        on = strip(ex.operand(t["on"]))
        okscr = on[0] == "cast" and strip(on[2])[0] == "call" and re.search(r"<impl f32>::round$", strip(on[2])[1]) and \
            strip(strip(on[2])[2][0])[0] == "call" and strip(strip(on[2])[2][0])[1].endswith("line::Line::line_angle")
        if not okscr:
            return False, "", "heading does not match on line_angle().round()"
        la = strip(strip(on[2])[2][0])[1]
        outs = set()
        for r in Expr(prog, la).returns():
            r = strip(r)
            if r[0] == "const" and r[1] == "float":
                v = float(r[2])
                outs.add(int(v + 0.5) if v >= 0 else -int(-v + 0.5))
            else:
                return False, "", "line_angle can return `%s`, which is not a literal" % expr_str(r)[:60]
        missing = outs - set(int(v) for v in t["values"])
        if outs and not missing:
            return True, "I2 closed table", "line_angle returns only %s (rounded), all of which are values of heading's match" % sorted(outs)
        return False, "", "line_angle can return %s (rounded), which heading does not handle -> unreachable!() fires" % sorted(missing)

    # ------------------------------------------------------------------ I1
    def infeasible_skeleton(self, p):
        run = self.run
        it = src_fn(run, "fragment/line.rs", "merge_circle", impl_self="Line")
        if it is None:
            return False, "", "merge_circle source not found"
        lets = {}
        for s in it["body"]["stmts"]:
            if s["k"] == "let" and s["pat"].get("name") and "init" in s and not s["pat"].get("mut"):
                lets[s["pat"]["name"]] = s["init"]
        # find the panic and its path condition
        found = []

        def walk(n, conds):
            if isinstance(n, dict):
                if n.get("k") == "macro" and n["name"].split("::")[-1] in ("panic", "unreachable"):
                    found.append(list(conds))
                    return
                if n.get("k") == "if":
                    walk(n["cond"], conds)
                    walk(n["then"], conds + [(n["cond"], True)])
                    if n.get("else"):
                        walk(n["else"], conds + [(n["cond"], False)])
                    return
                if n.get("k") == "block" and isinstance(n.get("stmts"), list):
                    # statements in order: after `if c { return .. }` (no else, diverging body) the rest runs under !c
                    cur = list(conds)
                    for st in n["stmts"]:
                        walk(st, cur)
                        e_ = st.get("expr") if st.get("k") == "expr_stmt" else None
                        if e_ and e_.get("k") == "if" and not e_.get("else") and e_["cond"].get("k") != "let_cond":
                            body = e_["then"].get("stmts") or []
                            last = body[-1] if body else None
                            le = (last.get("expr") if last and last.get("k") == "expr_stmt" else None) or {}
                            if le.get("k") in ("return", "break", "continue") or (le.get("k") == "macro" and le.get("name", "").split("::")[-1] in ("panic", "unreachable")):
                                cur = cur + [(e_["cond"], False)]
                    return
                for v in n.values():
                    walk(v, conds)
            elif isinstance(n, list):
                for v in n:
                    walk(v, conds)

        walk(it["body"], [])
        if len(found) != 1:
            return False, "", "expected one panic in merge_circle, found %d" % len(found)
        atoms = {}

        def sk(e, depth=0):
            """boolean skeleton: immutable let-bound booleans expanded, everything else an opaque atom"""
            k = e.get("k")
            if k == "binary" and e["op"] in ("&&", "||"):
                return (e["op"], sk(e["l"], depth), sk(e["r"], depth))
            if k == "unary" and e["op"] == "!":
                return ("!", sk(e["e"], depth))
            if k == "path" and e["path"] in lets and depth < 6:
                inner = lets[e["path"]]
                if inner.get("k") in ("binary", "unary", "path") and (inner.get("k") != "binary" or inner["op"] in ("&&", "||", "<=", "<", ">=", ">", "==")):
                    if inner.get("k") == "binary" and inner["op"] in ("&&", "||"):
                        return sk(inner, depth + 1)
                    return ("atom", e["path"])
                return ("atom", e["path"])
            key = str(sorted((k2, str(v)[:40]) for k2, v in e.items() if k2 != "pos"))[:200]
            atoms.setdefault(key, "a%d" % len(atoms))
            return ("atom", atoms[key])

        path = [("!", sk(c)) if not pol else sk(c) for c, pol in found[0]]
        names = set()

        def collect(t):
            if t[0] == "atom":
                names.add(t[1])
            else:
                for x in t[1:]:
                    collect(x)

        for t in path:
            collect(t)

        def ev(t, asg):
            if t[0] == "atom":
                return asg[t[1]]
            if t[0] == "!":
                return not ev(t[1], asg)
            if t[0] == "&&":
                return ev(t[1], asg) and ev(t[2], asg)
            return ev(t[1], asg) or ev(t[2], asg)

        names = sorted(names)
        for bits in itertools.product([False, True], repeat=len(names)):
            asg = dict(zip(names, bits))
            if all(ev(t, asg) for t in path):
                return False, "", "the panic arm is feasible in the boolean skeleton, e.g. %s" % {k: v for k, v in asg.items()}
        return True, "I1 infeasible boolean skeleton", "path condition of the panic arm over atoms %s is unsatisfiable" % names

    # ------------------------------------------------------------------ I5 polygons
    def polygon_literals(self):
        run = self.run
        from ..tae import TableError, Tables
        try:
            T = Tables(run)
        except TableError as ex:
            run.missing("C01.R1", "character tables (%s)" % ex)
            return
        n = 0
        small = []
        for ch, ent in T.ascii.items():
            for sig, frs in ent["signature"]:
                for fr in frs:
                    if fr[0] == "polygon":
                        n += 1
                        if len(fr[1]) < 1:
                            small.append((ch, fr[-1]))
            for b in ent["behaviour"]:
                for fr in b["frags"]:
                    if fr[0] == "polygon":
                        n += 1
                        if len(fr[1]) < 1:
                            small.append((ch, fr[-1]))
        for ch, ent in T.unicode.items():
            for fr in ent["frags"]:
                if fr[0] == "polygon":
                    n += 1
                    if len(fr[1]) < 1:
                        small.append((ch, fr[-1]))
        if small:
            run.bad("C01.R1", "empty-polygon/%s" % small[0][0], "%s:%d" % (T.ascii_file, small[0][1]), "polygon literal without points: Polygon::first/last would index out of bounds")
        else:
            run.ok("C01.R1", "I5: all %d polygon literals of the tables have at least one point (Polygon::first/last)" % n, T.ascii_file)
        # other constructors of Polygon preserve the points
        prog = run.prog
        pn = prog.method("new", r"polygon::Polygon$", "")
        callers = sorted({p for p, _, _ in prog.callers(pn)}) if pn else []
        allowed = [c for c in callers if re.search(r"fragment::polygon$|polygon::Polygon::(scale|absolute_position)$", c)]
        extra = [c for c in callers if c not in allowed]
        if extra:
            run.bad("C01.R1", "polygon-constructor/%s" % short(extra[0]), where(prog.bodies[extra[0]]), "Polygon::new is also called from %s: emptiness of points is no longer a property of the table literals" % [short(x) for x in extra])


NAN_CALL = re.compile(r"f(32|64)>?::(sqrt|asin|acos|ln|log|log2|log10|powf|acosh|atanh)$")
GEOMETRIC = re.compile(r"svgbob::(point::Point|buffer::fragment_buffer::fragment::\w+::(Line|Arc|Circle|Rect|Polygon|MarkerLine|Text))$")


def r5(run, reach, only_via_static):
    """R5 NaN hygiene.  The reviewed site `util::ord` (total order on coordinates, NaN arm = unreachable!)
    rests on "coordinates are never NaN".  Structural part decided here: the workspace functions that can
    return NaN for finite arguments (a sqrt/asin/acos/ln/powf of a computed value, a float division by a
    computed value) are found on every run; a value derived from one of them must not be handed to a function
    from which util::ord is reachable, nor stored into a point or fragment."""
    from ..fold import Folder, Unfoldable
    prog = run.prog
    folder = Folder(prog)
    ordfn = [p for p in prog.bodies if p.endswith("util::ord")]
    if not ordfn:
        run.missing("C01.R5", "util::ord")
        return
    lib = sorted(p for p in reach if p in prog.bodies and prog.bodies[p].get("crate") == "svgbob" and p not in only_via_static)

    def const_nonzero(ex, o):
        c = op_const(o)
        if c is not None:
            v = c.get("float", c.get("int"))
            try:
                return v is not None and float(v) != 0.0
            except (TypeError, ValueError):
                return False
        try:
            v = folder.eval(strip(ex.operand(o)), ())
            return v != 0
        except (Unfoldable, Exception):
            return False

    def is_float(b, o):
        pl = op_place(o)
        if pl is not None and not pl["p"]:
            return b["locals"][pl["l"]]["ty"] in ("f32", "f64")
        c = op_const(o)
        return bool(c and "float" in c)

    base = {}
    for p in lib:
        b = prog.bodies[p]
        ex = None
        for bid, t in prog.calls(p):
            n = Program.callee_name(t)
            m = NAN_CALL.search(n)
            if not m:
                continue
            ex = ex or Expr(prog, p)
            fn = m.group(2)
            if fn == "powf":
                e1 = strip(ex.operand(t["args"][1]))
                if e1[0] == "const" and float(e1[2]) == int(float(e1[2])):
                    continue  # integral exponent: finite for finite base
            try:
                v = folder.eval(strip(ex.operand(t["args"][0])), ())
                if v >= 0:
                    continue  # constant, non-negative argument
            except (Unfoldable, Exception):
                pass
            base.setdefault(p, "%s of a computed value at %s" % (fn, where(t)))
        for blk in b["blocks"]:
            if blk["cleanup"]:
                continue
            for st in blk["stmts"]:
                rv = st.get("rv") or {}
                if rv.get("k") == "bin" and rv["op"] in ("Div", "Rem") and (is_float(b, rv["ops"][0]) or is_float(b, rv["ops"][1])):
                    ex = ex or Expr(prog, p)
                    if not const_nonzero(ex, rv["ops"][1]):
                        base.setdefault(p, "float %s by a computed value at %s" % (rv["op"].lower(), where(st)))
    # closure under "returns a value derived from"
    nanf = dict(base)
    rets_of = {}
    changed = True
    while changed:
        changed = False
        for p in lib:
            if p in nanf:
                continue
            rty = prog.bodies[p]["locals"][0]["ty"]
            if not (rty in ("f32", "f64") or GEOMETRIC.search(rty) or re.search(r"\b(f32|f64|Point)\b", rty)):
                continue  # a bool or an integer derived from a NaN is an ordinary value
            if p not in rets_of:
                try:
                    rets_of[p] = Expr(prog, p).returns()
                except Exception:
                    rets_of[p] = []
            for r in rets_of[p]:
                hit = []
                mentions(r, lambda z: z[0] == "call" and z[1] in nanf and hit.append(z[1]) and False)
                if hit:
                    nanf[p] = "returns a value derived from %s" % short(hit[0])
                    changed = True
                    break
    run.record("nan_capable_functions", {short(k): v for k, v in sorted(nanf.items())})
    run.floor("C01.R5", "nan_capable_base", len(base), 2)
    # functions from which util::ord is reachable (reverse closure)
    E = prog.edges()
    rev = {}
    for a, bs in E.items():
        for c in bs:
            rev.setdefault(c, set()).add(a)
    ordreach = set()
    work = list(ordfn)
    while work:
        x = work.pop()
        if x in ordreach:
            continue
        ordreach.add(x)
        work.extend(rev.get(x, ()))
    n_sites = 0
    for p in lib:
        b = prog.bodies[p]
        ex = None
        for bid, t in prog.calls(p):
            n = Program.callee_name(t)
            to_ord = n in ordreach
            ctor = None
            if not to_ord and p not in nanf:
                m = re.search(r"^(svgbob::[\w:]+)::new$", n)
                if m and GEOMETRIC.search(m.group(1)):
                    ctor = m.group(1)
            if not (to_ord or ctor) or not t["args"]:
                continue
            ex = ex or Expr(prog, p)
            for a in t["args"]:
                hit = []
                try:
                    mentions(ex.operand(a), lambda z: z[0] == "call" and z[1] in nanf and hit.append(z[1]) and False)
                except Exception:
                    continue
                if hit:
                    n_sites += 1
                    src = hit[0]
                    if to_ord:
                        run.bad("C01.R5", "nan-reaches-order/%s/%s" % (short(p), short(n)), where(t),
                                "%s passes a value derived from %s (%s) to %s, from which util::ord is reachable: a NaN coordinate takes the `unreachable!` arm and the conversion panics" % (
                                    short(p), short(src), nanf[src], short(n)))
                    else:
                        run.bad("C01.R5", "nan-stored/%s/%s" % (short(p), short(ctor)), where(t),
                                "%s stores a value derived from %s (%s) into a %s: every later comparison of that value can reach the NaN arm of util::ord" % (
                                    short(p), short(src), nanf[src], short(ctor)))
                    break
    for p, why in sorted(nanf.items()):
        run.ok("C01.R5", "%s may return NaN (%s): no use reaches an ordering or a stored coordinate" % (short(p), why), where(prog.bodies[p]))
    run.record("ord_reaching_functions", len(ordreach))


def shrinking_length_loop(prog, f):
    """variant of a `loop`/`while` (the iterative form of `if merged.len() < original_len { recurse(merged) }`): every
    natural loop of f has a switch on a comparison of two len() results of the same collection local, the earlier
    one dominating a call that re-assigns the collection, which dominates the later one, and the only edge of that
    switch that stays inside the loop is the one on which the later length is strictly smaller.  Returns a description
    or None."""
    b = prog.bodies[f]
    cfg = prog.cfg(f)
    sl = prog.slicer(f)
    blocks = {blk["id"]: blk for blk in b["blocks"]}

    def dom(a, x):
        while True:
            if x == a:
                return True
            nx = cfg.idom.get(x)
            if nx is None or nx == x:
                return False
            x = nx

    back = [(u, h) for u in cfg.reach for h in cfg.succ.get(u, []) if dom(h, u)]
    if not back:
        return None
    heads = {}
    for u, h in back:
        heads.setdefault(h, []).append(u)
    notes = []
    for h, us in heads.items():
        body = {h}
        work = list(us)
        while work:
            x = work.pop()
            if x in body:
                continue
            body.add(x)
            work.extend(cfg.pred.get(x, []))
        # len() calls inside the loop: dst local -> (block, base local of the receiver)
        lens = {}
        for i in body:
            t = blocks[i]["term"]
            if t["k"] == "call" and Program.callee_name(t).endswith("::len") and t["args"] and not t["dst"]["p"]:
                pl = op_place(t["args"][0])
                if pl is None:
                    continue
                base = pl["l"]
                seen_ = set()
                while base in sl.refof and sl.refof[base] and base not in seen_:
                    seen_.add(base)
                    base = sorted(sl.refof[base])[0]
                lens[t["dst"]["l"]] = (i, base)

        def len_of(op):
            pl = op_place(op)
            if pl is None or pl["p"]:
                return None
            l = pl["l"]
            seen_ = set()
            while l not in lens and l not in seen_:
                seen_.add(l)
                ds = [d for d in sl.defs.get(l, ()) if d[0] == "assign" and d[1]["rv"].get("k") == "use"]
                if len(ds) != 1:
                    return None
                p2 = op_place(ds[0][1]["rv"]["ops"][0])
                if p2 is None or p2["p"]:
                    return None
                l = p2["l"]
            return lens.get(l)

        ok_h = None
        for i in body:
            sw = blocks[i]["term"]
            if sw["k"] != "switch":
                continue
            pl = op_place(sw["on"])
            if pl is None:
                continue
            ds = [d for d in sl.defs.get(pl["l"], ()) if d[0] == "assign" and d[1]["rv"].get("k") == "bin"]
            if len(ds) != 1:
                continue
            rv = ds[0][1]["rv"]
            if rv["op"] not in ("Lt", "Le", "Gt", "Ge"):
                continue
            A, B = len_of(rv["ops"][0]), len_of(rv["ops"][1])
            if not A or not B:
                continue
            if A[1] != B[1]:
                # `let merged = f(items); if merged.len() >= original_len { return merged } items = merged;`:
                # the later collection is the result of a call on the earlier one and is moved back into it
                def produced_from(new, old):
                    for j in body:
                        t_ = blocks[j]["term"]
                        if t_["k"] == "call" and not t_["dst"]["p"] and t_["dst"]["l"] == new:
                            srcs = set()
                            for a_ in t_["args"]:
                                pa = op_place(a_)
                                if pa is not None and not pa["p"]:
                                    srcs.add(pa["l"])
                                    for d_ in sl.defs.get(pa["l"], ()):
                                        if d_[0] == "assign" and d_[1]["rv"].get("k") == "use":
                                            q_ = op_place(d_[1]["rv"]["ops"][0])
                                            if q_ is not None and not q_["p"]:
                                                srcs.add(q_["l"])
                            if old in srcs:
                                return j
                    return None

                def root_of(l, depth=0):
                    ds = [d_ for d_ in sl.defs.get(l, ()) if d_[0] == "assign" and d_[1]["rv"].get("k") == "use"]
                    if len(ds) == 1 and depth < 4:
                        q_ = op_place(ds[0][1]["rv"]["ops"][0])
                        if q_ is not None and not q_["p"]:
                            return root_of(q_["l"], depth + 1)
                    return l

                def moved_back(new, old):
                    for j in body:
                        for st in blocks[j]["stmts"]:
                            if st.get("dst") and not st["dst"]["p"] and st["dst"]["l"] == old and (st.get("rv") or {}).get("k") == "use":
                                q_ = op_place(st["rv"]["ops"][0])
                                if q_ is not None and not q_["p"] and (q_["l"] == new or root_of(q_["l"]) == new):
                                    return True
                    return False
                chained = None
                for early, late, late_is_left in ((A, B, False), (B, A, True)):
                    j = produced_from(late[1], early[1])
                    if j is not None and moved_back(late[1], early[1]) and dom(early[0], j) and dom(j, late[0]):
                        chained = (early, late, late_is_left, j)
                if not chained:
                    continue
                early, late, late_is_left, j = chained
                op = rv["op"]
                strict_true = ({"Lt": 1, "Ge": 0} if late_is_left else {"Gt": 1, "Le": 0}).get(op)
                if strict_true is None:
                    continue
                vals = list(sw["values"])
                stay_truth = set()
                for k_, tg in enumerate(sw["targets"]):
                    if tg in body and any(tg == u_ or u_ in cfg.reachable_from(tg) for u_ in us):
                        tv = vals[k_] if k_ < len(vals) else ("not", tuple(vals))
                        stay_truth.add(1 if tv == ("not", (0,)) else 0 if tv == ("not", (1,)) else tv)
                if stay_truth == {strict_true}:
                    ok_h = "the loop continues only when the collection returned by the call in bb%d is strictly shorter than its argument, and moves it back (bb%d)" % (j, i)
                continue
            base = A[1]
            # a call inside the loop that assigns the collection, between the two len() calls
            call_dsts = {blocks[j]["term"]["dst"]["l"] for j in body if blocks[j]["term"]["k"] == "call" and not blocks[j]["term"]["dst"]["p"]}
            assigns = [j for j in body if blocks[j]["term"]["k"] == "call" and not blocks[j]["term"]["dst"]["p"] and blocks[j]["term"]["dst"]["l"] == base]
            for j in body:
                for st in blocks[j]["stmts"]:
                    d_, rv_ = st.get("dst"), st.get("rv") or {}
                    if d_ and not d_["p"] and d_["l"] == base and rv_.get("k") == "use":
                        src_ = op_place(rv_["ops"][0])
                        if src_ is not None and not src_["p"] and src_["l"] in call_dsts:
                            assigns.append(j)
            for j in assigns:
                for early, late, late_is_left in ((A, B, False), (B, A, True)):
                    if dom(early[0], j) and dom(j, late[0]) and early[0] != late[0]:
                        # truth value of the comparison on which `late < early` is certain
                        op = rv["op"]
                        if late_is_left:
                            strict_true = {"Lt": 1, "Ge": 0}.get(op)
                        else:
                            strict_true = {"Gt": 1, "Le": 0}.get(op)
                        if strict_true is None:
                            continue
                        stay = [tg for k_, tg in enumerate(sw["targets"]) if tg in body and any(tg == u_ or u_ in cfg.reachable_from(tg) for u_ in us)]
                        vals = list(sw["values"])
                        # targets: one per value, then otherwise
                        stay_truth = set()
                        for k_, tg in enumerate(sw["targets"]):
                            if tg in stay:
                                stay_truth.add(vals[k_] if k_ < len(vals) else ("not", tuple(vals)))
                        want = {strict_true} if strict_true in vals else {("not", tuple(vals))} if strict_true == 1 and vals == [0] else {strict_true}
                        norm = set()
                        for tv in stay_truth:
                            norm.add(1 if tv == ("not", (0,)) else 0 if tv == ("not", (1,)) else tv)
                        if norm == {strict_true}:
                            ok_h = "the loop continues only when the length of _%d after the call in bb%d is strictly smaller than before (bb%d)" % (base, j, i)
        if not ok_h:
            return None
        notes.append(ok_h)
    return "; ".join(notes)


def r2(run, reach):
    prog = run.prog
    E = prog.edges()
    nodes = sorted(reach)
    index = {}
    low = {}
    onstack = set()
    stack = []
    sccs = []
    counter = [0]
    import sys
    sys.setrecursionlimit(10000)

    def strong(v):
        index[v] = low[v] = counter[0]
        counter[0] += 1
        stack.append(v)
        onstack.add(v)
        for w in E.get(v, ()):
            if w not in reach or w not in prog.bodies:
                continue
            if w not in index:
                strong(w)
                low[v] = min(low[v], low[w])
            elif w in onstack:
                low[v] = min(low[v], index[w])
        if low[v] == index[v]:
            comp = []
            while True:
                w = stack.pop()
                onstack.discard(w)
                comp.append(w)
                if w == v:
                    break
            if len(comp) > 1 or v in E.get(v, ()):
                sccs.append(sorted(comp))

    for v in nodes:
        if v not in index:
            strong(v)
    run.record("recursive_components", [[short(x) for x in c] for c in sccs])
    for comp in sccs:
        fns = [c for c in comp if "{closure" not in c]
        inst = "recursion " + " <-> ".join(short(x) for x in comp[:4])
        verdicts = []
        for f in comp:
            ex = Expr(prog, f)
            for bid, t in prog.calls(f):
                callee = Program.callee_name(t)
                if callee not in comp:
                    continue
                # (a) shrinking length
                shrink = False
                for c, tk, sw in guards(prog, f, bid, direct=True):
                    c = strip(c)
                    if c[0] == "bin" and c[1] == "Lt" and tk != 0 and strip(c[2])[0] == "call" and strip(c[2])[1].endswith("::len") and strip(c[3])[0] == "call" and strip(c[3])[1].endswith("::len"):
                        passed = ex.operand(t["args"][0]) if t["args"] else None
                        # the value passed on is the one whose len is the smaller side
                        inner = strip(strip(c[2])[2][0])
                        if passed is not None and strip(passed) == inner or mentions(passed, lambda z: z == inner):
                            shrink = True
                # (b) structural descent: the receiver comes from iterating a collection field of self
                struct = False
                if t["args"]:
                    recv = ex.operand(t["args"][0])
                    struct = mentions(recv, lambda z: z[0] == "call" and z[1].endswith("Iterator>::next")) and mentions(recv, lambda z: z[0] == "param" and z[1] == 1 and z[2] and z[2][0] in ("enclosing",)) or \
                        (strip(recv)[0] == "param" and "{closure" in f)
                    if not struct and "{closure" in f:
                        struct = strip(recv)[0] == "param"
                verdicts.append((f, callee, "shrinking length" if shrink else "structural descent into self.enclosing" if struct else None, t))
        badv = [v for v in verdicts if v[2] is None]
        if not verdicts:
            run.ok("C01.R2", inst, None, "component without direct calls among its members (callback over-approximation)", nontrivial=False)
        elif badv:
            f, callee, _, t = badv[0]
            run.bad("C01.R2", "recursion-without-variant/%s" % short(f), where(t),
                    "%s calls %s recursively without a recognised variant (no `len() < len()` guard on the value passed on, no descent into a child collection)" % (short(f), short(callee)))
        else:
            run.ok("C01.R2", inst, where(verdicts[0][3]), "; ".join(sorted({"%s: %s" % (short(f), v) for f, c, v, t in verdicts})))
    # loops
    nloops = 0
    for l in prog.loops:
        if l["owner"] in reach and l["source"] in ("Loop", "While"):
            nloops += 1
            var = shrinking_length_loop(prog, l["owner"])
            if var:
                run.ok("C01.R2", "`%s` loop in %s has a variant" % (l["source"].lower(), short(l["owner"])), where(l), var)
            else:
                run.bad("C01.R2", "unbounded-loop/%s" % short(l["owner"]), where(l), "`%s` loop in %s (reachable): no termination variant recognised" % (l["source"].lower(), l["owner"]))
    for p in sorted(reach):
        for bid, t in prog.calls(p):
            n = Program.callee_name(t)
            if re.search(r"^core::iter::sources::(repeat|repeat_with|from_fn|successors)|Iterator::cycle$|^core::iter::sources::repeat::repeat$", n):
                # bounded at once by take(n): `repeat(x).take(n)`
                uses = prog.slicer(p).forward_uses(t["dst"]["l"]) if not t["dst"]["p"] else []
                if uses and all(u.get("k") == "call" and re.search(r"Iterator::take$", Program.callee_name(u)) and idx == 0 for u, idx in uses):
                    run.ok("C01.R2", "unbounded iterator source in %s is bounded by take(n) at once" % short(p), where(t), nontrivial=False)
                    continue
                run.bad("C01.R2", "unbounded-iterator/%s" % short(p), where(t), "%s uses the unbounded iterator source %s" % (short(p), n))
            if n.endswith("IntoIterator>::into_iter") and t.get("arg_tys") and t["arg_tys"][0].startswith("core::ops::range::RangeFrom<"):
                run.bad("C01.R2", "unbounded-range/%s" % short(p), where(t), "%s iterates an unbounded range" % short(p))
    run.ok("C01.R2", "no loop/while and no unbounded iterator source in %d reachable bodies (%d `for` loops over finite collections)" % (
        len(reach), len([l for l in prog.loops if l["owner"] in reach and l["source"] == "ForLoop"])), None)


def r3(run, g, gfile):
    if g is None:
        run.missing("C01.R3", "util::parser module")
        return
    nrep = nlist = 0
    for name in sorted(g.fns):
        try:
            t = g.tree(name)
        except (GrammarError, Unknown) as ex:
            if name == "list_fail":
                continue
            run.bad("C01.R3", "grammar-uninterpretable/%s" % name, gfile, "grammar %s: %s" % (name, ex))
            continue
    roots = [n for n in ("line_parse", "css_legend_with_padding", "tag_classes") if n in g.fns]
    for name in roots:
        t = g.tree(name)
        spins = g.spins(t)
        nrep += g.count_nodes(t, "repeat")
        nlist += g.count_nodes(t, "list")
        if spins:
            run.bad("C01.R3", "grammar-spins/%s" % name, gfile, "grammar `%s` makes pom loop forever on some input: %s" % (name, spins[0]))
        else:
            run.ok("C01.R3", "grammar `%s` cannot spin (%d repeats, %d lists, all operands consume input)" % (name, g.count_nodes(t, "repeat"), g.count_nodes(t, "list")), gfile)
    run.floor("C01.R3", "grammar_roots", len(roots), 3)
    run.floor("C01.R3", "repeat_nodes", nrep, 9)


run_flow = run
FIXTURE_EXPECT = ["undischarged-panic/svgbob::to_svg_string_pretty/unwrap", "unbounded-loop/", "unbounded-iterator/", "recursion-without-variant/", "nan-reaches-order/"]
