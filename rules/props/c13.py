"""C13 (catalogued circle drawings) — table clause: the catalogue's formulas (width, radius, centre,
diameter, edge increment) are pinned to the code; T1 for each of the >= 22 drawings: the edge case is
LeftEdge iff the left-most column of the drawing contains a slash; the radius is (n-1)/2 for an
n-column drawing (n/2 when flush with a slash) and the circle's horizontal extent equals the
drawing's extent; every character of the drawing lies within about one cell of the circle (gap
between the character's cell rectangle and the circle <= half a cell diagonal); the centre lies on
the drawing's vertical axis of symmetry; the diameters, which key the lookup tables, are pairwise
distinct; T2 the matched circle is taken from the localised span, stored unfilled, and re-offset by
the span's top-left corner.  Not decided: that a placed drawing yields exactly one circle and
nothing else (subset matching at run time)."""
import math
import re

from ..circles import Catalogue, gap_to_circle
from ..common import module_region, short, where
from ..exprs import ELEM, inline_calls, is_const, iter_element, mentions, simplify, strip
from ..mirlib import Expr, Program, expr_str
from ..tae import TableError

THRESH = math.sqrt(5) / 2 + 1e-9


def run(run):
    prog = run.prog
    try:
        cat = Catalogue(run)
    except TableError as ex:
        run.missing("C13.T1", "circle catalogue (%s)" % ex)
        return
    cat.conformance(run, "C13.T0")
    run.record("catalogue_entries", len(cat.entries))
    run.floor("C13.T1", "catalogue_entries", len(cat.entries), 22)
    seen_d = {}
    for e in cat.entries:
        w = "%s:%d" % (cat.file, e["line"])
        i = e["index"]
        n = e["ncols"]
        left_col = [ch for (x, y), ch in e["cells"].items() if x == 0]
        flush = any(ch in "/\\" for ch in left_col)
        inst = "circle drawing %d (%d columns x %d rows)" % (i, n, e["nrows"])
        if flush == (e["edge"] == "LeftEdge"):
            run.ok("C13.T1", inst + ": edge case agrees with the left-most glyphs", w, "%s, left column %r" % (e["edge"], "".join(left_col)))
        else:
            run.bad("C13.T1", "edge-case/%d" % i, w, "%s: declared %s but the left-most column is %r (LeftEdge iff it starts flush with a slash)" % (inst, e["edge"], "".join(left_col)))
        want_r = n / 2.0 if flush else (n - 1) / 2.0
        if abs(e["radius"] - want_r) < 1e-9:
            run.ok("C13.T1", inst + ": radius %.1f = %s" % (e["radius"], "n/2" if flush else "(n-1)/2"), w)
        else:
            run.bad("C13.T1", "radius/%d" % i, w, "%s: radius %.2f, the statement gives %.2f" % (inst, e["radius"], want_r))
        # horizontal extent = drawing's extent (from the middle of the first to the middle of the last cell, or flush)
        lo, hi = e["center"][0] - e["radius"], e["center"][0] + e["radius"]
        want_lo, want_hi = (0.0, float(n)) if flush else (0.5, n - 0.5)
        if abs(lo - want_lo) < 1e-9 and abs(hi - want_hi) < 1e-9:
            run.ok("C13.T1", inst + ": horizontal extent %.1f..%.1f equals the drawing's" % (lo, hi), w, nontrivial=False)
        else:
            run.bad("C13.T1", "extent/%d" % i, w, "%s: circle spans %.2f..%.2f, the drawing %.2f..%.2f" % (inst, lo, hi, want_lo, want_hi))
        # proximity
        worst = (0.0, None)
        for cell, ch in e["cells"].items():
            g = gap_to_circle(cell, e["center"], e["radius"])
            if g > worst[0]:
                worst = (g, (cell, ch))
        if worst[0] <= THRESH:
            run.ok("C13.T1", inst + ": every glyph within half a cell diagonal of the circle", w, "largest gap %.3f at %r" % worst)
        else:
            run.bad("C13.T1", "proximity/%d" % i, w, "%s: glyph %r at cell %r is %.2f away from the circle (centre %.2f,%.2f radius %.2f); more than about one cell" % (
                inst, worst[1][1], worst[1][0], worst[0], e["center"][0], e["center"][1], e["radius"]))
        # vertical centring: the centre lies on the horizontal axis of symmetry of the rows (within one row)
        mid_y = e["nrows"]  # rows are 2 units high: middle = nrows * 2 / 2
        if abs(e["center"][1] - mid_y) <= 1.0 + 1e-9:
            run.ok("C13.T1", inst + ": centre within half a row of the drawing's middle", w, "centre y %.2f, middle %.2f" % (e["center"][1], mid_y), nontrivial=False)
        else:
            run.bad("C13.T1", "centre-y/%d" % i, w, "%s: centre y %.2f is more than half a row from the drawing's middle %.2f" % (inst, e["center"][1], mid_y))
        if e["diameter"] in seen_d:
            run.bad("C13.T1", "diameter-clash/%d" % i, w, "%s has the same diameter key %d as drawing %d: one of them can never be matched by diameter" % (inst, e["diameter"], seen_d[e["diameter"]]))
        seen_d[e["diameter"]] = i
    run.ok("C13.T1", "diameter keys pairwise distinct", cat.file, repr(sorted(seen_d)))
    # ---------------- T2 plumbing
    ecs = [p for p in prog.bodies if p.endswith("circle_map::endorse_circle_span")]
    if len(ecs) != 1:
        run.missing("C13.T2", "endorse_circle_span")
    else:
        cls = [q for q in module_region(prog, ecs[0], stop=r"::is_subset_of$") if q != ecs[0]]
        loc = False
        for c in [ecs[0]] + cls:
            for bid, t in prog.calls(c):
                if Program.callee_name(t).endswith("span::Span::localize"):
                    loc = True
        uses = {o[1] for o in prog.slicer(ecs[0]).return_slice() if o[0] == "static"}
        if loc and "svgbob::map::circle_map::CIRCLES_SPAN" in uses:
            run.ok("C13.T2", "the search span is localised before it is compared with CIRCLES_SPAN", where(prog.bodies[ecs[0]]))
        else:
            run.bad("C13.T2", "circle-lookup", where(prog.bodies[ecs[0]]), "endorse_circle_span: localize=%s statics=%s" % (loc, sorted(uses)))
    # the lookup must not depend on the absolute position (shared rule with C06.P1)
    if len(ecs) == 1:
        POSITIONAL = re.compile(r"span::Span::(bounds|cell_bounds|top_left|localize_point|is_bounded|hit_cell|extract)$")
        for q in module_region(prog, ecs[0], stop=r"::is_subset_of$"):
            ex = Expr(prog, q)
            for bid, t in prog.calls(q):
                n = Program.callee_name(t)
                if POSITIONAL.search(n) and t["args"] and not mentions(ex.operand(t["args"][0]), lambda z: z[0] == "call" and z[1].endswith("span::Span::localize")):
                    run.bad("C13.T2", "circle-lookup-uses-absolute-position", where(t),
                            "endorse_circle_span consults %s of the un-localised span: a catalogued drawing would be matched at some positions and not at others" % short(n))
        # and every catalogue entry is tried: no filter/skip before the subset test
        r = [strip(x) for x in Expr(prog, ecs[0]).returns()]
        adaptors = set()
        for x in r:
            mentions(x, lambda z: z[0] == "call" and re.search(r"Iterator::(filter|skip|take|skip_while|take_while|step_by)$", z[1]) and adaptors.add(z[1]) and False)
        # inside the per-entry closure nothing but the cell-by-cell comparison decides (a pre-filter on sizes has
        # to agree with the catalogue's own notion of width for all 22 drawings, flush-left ones included)
        for fn in sorted(q for q in prog.bodies if re.search(r"circle_map::endorse_\w+_span$", q)):
            for q in module_region(prog, fn, stop=r"::is_subset_of$"):
                if q.count("{closure") > 1:
                    continue
                qb = prog.bodies[q]
                qex = Expr(prog, q)
                if not any(Program.callee_name(t).endswith("circle_map::is_subset_of") for _, t in prog.calls(q)):
                    continue
                nsw = 0
                for blk in qb["blocks"]:
                    sw = blk["term"]
                    if sw["k"] != "switch" or blk.get("cleanup"):
                        continue
                    nsw += 1
                    cond = qex.operand(sw["on"])
                    if not mentions(cond, lambda z: z[0] == "call" and z[1].endswith("circle_map::is_subset_of")):
                        run.bad("C13.T2", "catalogue-entry-prefiltered/%s" % short(fn), where(sw),
                                "%s rejects a catalogue entry on `%s` before comparing its cells: an exact catalogue drawing is no longer guaranteed to match its own entry" % (
                                    short(fn), expr_str(strip(cond))[:120]))
                if nsw:
                    run.ok("C13.T2", "%s: only the outcome of is_subset_of decides per catalogue entry (%d branch)" % (short(fn), nsw), where(qb))
        if adaptors:
            run.bad("C13.T2", "catalogue-entries-skipped", where(prog.bodies[ecs[0]]), "endorse_circle_span does not try every catalogue entry: %s" % sorted(short(a) for a in adaptors))
        else:
            run.ok("C13.T2", "every catalogue entry is tried (rev().find_map over CIRCLES_SPAN, no filter)", where(prog.bodies[ecs[0]]))
    cs = "svgbob::map::circle_map::CIRCLES_SPAN"
    init = [p for p in prog.bodies if p.startswith(cs + "::{closure#0}::{closure#0}")]
    okc = False
    for p in init:
        for r in Expr(prog, p).returns():
            r = strip(r)
            if r[0] == "agg" and r[1] == "tuple":
                c = strip(r[3][0][1])
                if c[0] == "call" and c[1].endswith("circle::Circle::new") and is_const(c[2][2], 0) and \
                        strip(c[2][0])[0] == "call" and strip(c[2][0])[1].endswith("CircleArt::center") and \
                        strip(c[2][1])[0] == "call" and strip(c[2][1])[1].endswith("CircleArt::radius") and \
                        (lambda sp: sp[0] == "call" and sp[1].endswith("span::Span::localize"))(strip(simplify(inline_calls(prog, r[3][1][1], keep=r"span::Span::localize$")))):
                    okc = True
    # ... and one entry per catalogue drawing: the table is collected from an iteration over all of CIRCLE_MAP (helpers
    # inlined), with no adaptor that drops entries (the arc tables legitimately skip the three smallest drawings)
    root = cs + "::{closure#0}"
    if root in prog.bodies:
        whole = False
        for r in Expr(prog, root).returns():
            r = strip(simplify(inline_calls(prog, r, keep=r"span::Span::localize$")))
            uses_map = mentions(r, lambda z: z[0] == "static" and z[1].endswith("circle_map::CIRCLE_MAP"))
            dropping = []
            mentions(r, lambda z: z[0] == "call" and re.search(r"Iterator>?::(skip|take|filter|filter_map|step_by|skip_while|take_while|nth|last|find\w*)$|<impl \[T\]>::(split_at|split_first|split_last|get|chunks\w*|windows)$|ops::index::Index<", z[1]) and dropping.append(z[1]) and False)
            if uses_map and not dropping and r[0] == "call" and re.search(r"FromIterator<.*>>::from_iter$|Iterator::collect$", r[1]):
                whole = True
            elif dropping:
                run.bad("C13.T2", "circles-span-partial", where(prog.bodies[root]),
                        "CIRCLES_SPAN is not built from every drawing of CIRCLE_MAP: the iteration goes through %s, so some catalogued circles can never be matched" % sorted({short(d) for d in dropping}))
        if whole:
            run.ok("C13.T2", "CIRCLES_SPAN is collected from an un-adapted iteration over all of CIRCLE_MAP", where(prog.bodies[root]))
        elif not any(v["key"].endswith("circles-span-partial") for v in run.violations):
            run.bad("C13.T2", "circles-span-partial", where(prog.bodies[root]), "CIRCLES_SPAN is not collected from an iteration over CIRCLE_MAP")
    else:
        run.missing("C13.T2", "initialiser of CIRCLES_SPAN")
    if not okc and root in prog.bodies:
        # the entries seen through the iterator chain: `helper().map(|(art, span)| (Circle::new(..), span)).collect()` with a
        # helper that yields (art, localised span) is the same table
        for r in Expr(prog, root).returns():
            r = strip(r)
            if r[0] == "call" and re.search(r"FromIterator<.*>>::from_iter$|Iterator::collect$", r[1]) and r[2]:
                el = iter_element(prog, r[2][0])
                if el is not None and el[0] == "agg" and len(el[3]) == 2:
                    c = strip(el[3][0][1])
                    sp = strip(simplify(inline_calls(prog, el[3][1][1], keep=r"span::Span::localize$")))
                    item_ok = lambda a: strip(a) == ELEM or (strip(a)[0] == "field" and strip(strip(a)[1]) == ELEM) or strip(a)[0] == "param"
                    if c[0] == "call" and c[1].endswith("circle::Circle::new") and is_const(c[2][2], 0) and \
                            strip(c[2][0])[0] == "call" and strip(c[2][0])[1].endswith("CircleArt::center") and item_ok(strip(c[2][0])[2][0]) and \
                            strip(c[2][1])[0] == "call" and strip(c[2][1])[1].endswith("CircleArt::radius") and strip(strip(c[2][1])[2][0]) == strip(strip(c[2][0])[2][0]) and \
                            sp[0] == "call" and sp[1].endswith("span::Span::localize"):
                        okc = True
    if okc:
        run.ok("C13.T2", "CIRCLES_SPAN entries = (Circle::new(center(), radius(), unfilled), localised span)", cat.file)
    else:
        run.bad("C13.T2", "circles-span-init", cat.file, "CIRCLES_SPAN is not built from (Circle::new(art.center(), art.radius(), false), span.localize())")
    run.assume("matching of a placed drawing against the catalogue (subset test at run time) is not decided")


run_flow = run
