"""C12 (canvas = last cell + one cell of margin, everything drawn lies inside) — structural clauses:
M1 size formula: width = scale x (max_col + 2) x cell_width, height = scale x (max_row + 2) x
cell_height, the empty drawing falling back to cell (0,0); bounds() = min/max of the occupied
cells' x and y; M2 every CellBuffer field that carries cell positions and is read on the rendering
path is also read by bounds() (what is rendered is bounded); M3 table containment (TAE): every
fragment of every behaviour entry and Unicode glyph stays inside its own cell, or reaches at most
one cell to the left/top only under a condition that *implies* a character in that column/row
(decided by setting the atoms of that column/row to their absent-neighbour value and testing the
residual formula for satisfiability), and at most one cell to the right/bottom (the margin);
M4 (with C13's catalogue) every catalogue circle stays within its drawing's rows/columns plus
the margin.  Not decided: geometry after merging (merged lines only span the union of their parts),
text width (font dependent)."""
import itertools
import math
import re
from fractions import Fraction

from .. import tae_conf
from ..common import field_accesses, is_derived_impl, lib_reachable, short, where
from ..exprs import simplify, factors, is_const, mentions, strip, terms, uncast
from ..mirlib import Expr, Program, expr_str
from ..tae import DIRS, DIR_OFF, TableError, Tables, arc_geometry, frag_points

F = Fraction


def frag_box(fr):
    pts = frag_points(fr)
    xs = [float(p[1]) for p in pts]
    ys = [float(p[2]) for p in pts]
    x0, x1, y0, y1 = min(xs), max(xs), min(ys), max(ys)
    if fr[0] == "circle":
        r = float(fr[2])
        return x0 - r, y0 - r, x1 + r, y1 + r
    if fr[0] == "arc":
        g = arc_geometry(fr)
        if g is not None:
            return g["box"]
    return x0, y0, x1, y1


def satisfiable_without(T, cond, absent_dirs):
    """can `cond` hold when the neighbours in absent_dirs do not exist?"""
    atoms = []
    for a in T.atoms_of(cond):
        if a not in atoms:
            atoms.append(a)
    free = [a for a in atoms if a[1] not in absent_dirs]
    fixed = {}
    for a in atoms:
        if a[1] in absent_dirs:
            # absent neighbour = Property::empty(): ch ' ', no signature
            fixed[a] = (a[2] == "is" and a[3][0][1] == " ")
    if len(free) > 16:
        return True

    def ev(c, asg):
        k = c[0]
        if k == "true":
            return True
        if k == "false":
            return False
        if k == "and":
            return ev(c[1], asg) and ev(c[2], asg)
        if k == "or":
            return ev(c[1], asg) or ev(c[2], asg)
        if k == "not":
            return not ev(c[1], asg)
        return asg[c]

    for bits in itertools.product([False, True], repeat=len(free)):
        asg = dict(fixed)
        asg.update(zip(free, bits))
        if ev(cond, asg):
            return True
    return False


LEFT_COL = {"top_left", "left", "bottom_left"}
RIGHT_COL = {"top_right", "right", "bottom_right"}
TOP_ROW = {"top_left", "top", "top_right"}
BOTTOM_ROW = {"bottom_left", "bottom", "bottom_right"}
EPS = 1e-6



def bounds_by_fold(prog, bd):
    """bounds() written as one `fold` over the cells with a tuple of running extremes.  The closure touches the
    coordinates only through min / max / comparisons, so its meaning is fixed by its results on every ordering of a few
    distinct cells: it is evaluated (path by path, integers only) on all permutations of three cells with pairwise distinct
    x and y, from the empty accumulator, and the accumulator positions that end up in Cell::new(.., ..) of the result must
    be (min x, min y) / (max x, max y).  Returns (ok, reason)."""
    import itertools
    from ..mirlib import paths as mir_paths
    from ..exprs import closure_of
    rets = [strip(simplify(r)) for r in Expr(prog, bd).returns()]
    some = [r for r in rets if r[0] == "agg" and r[2] == "Some"]
    if len(some) != 1:
        return False, ""
    tup = strip(some[0][3][0][1])
    if not (tup[0] == "agg" and len(tup[3]) == 2):
        return False, ""
    folds = []
    mentions(tup, lambda z: z[0] == "call" and re.search(r"Iterator::fold$", z[1]) and len(z[2]) == 3 and folds.append(z) and False)
    if len({id(f) for f in folds}) < 1 or any(strip(f) != strip(folds[0]) for f in folds):
        return False, ""
    f = strip(folds[0])
    src, init, clv = strip(f[2][0]), strip(f[2][1]), strip(f[2][2])
    e = src
    while e[0] == "call" and re.search(r"::(iter|deref|into_iter|keys)$", e[1]) and e[2]:
        e = strip(e[2][0])
    if not (e[0] == "param" and e[1] == 1 and not e[2]):
        return False, "the fold does not run over the cell map itself"
    if not (init[0] == "agg" and init[2] == "None"):
        return False, "the fold does not start from None"
    cl, _caps = closure_of(clv)
    if cl not in prog.bodies:
        return False, ""
    ps = mir_paths(prog, cl)
    if not ps:
        return False, "the fold closure is not loop free"

    def ev(x, env):
        x = strip(x)
        k = x[0]
        if k == "const":
            return int(x[2])
        if k == "param":
            v = env[x[1]]
            for fld in x[2]:
                v = proj(v, fld)
            return v
        if k == "field":
            v = ev(x[1], env)
            for fld in x[2]:
                v = proj(v, fld)
            return v
        if k == "discr":
            v = ev(x[1], env)
            return 1 if v[0] == "Some" else 0
        if k == "agg" and x[2] in ("Some", "None"):
            return ("Some", ev(x[3][0][1], env)) if x[2] == "Some" else ("None",)
        if k == "agg" and x[1] == "tuple":
            return ("tuple", tuple(ev(v_, env) for _, v_ in x[3]))
        if k == "call" and re.search(r"cmp::(Ord::)?(min|max)$|Ord>?::(min|max)$", x[1]) and len(x[2]) == 2:
            a_, b_ = ev(x[2][0], env), ev(x[2][1], env)
            return min(a_, b_) if x[1].endswith("min") else max(a_, b_)
        if k == "call" and re.search(r"Deref>::deref$|Clone>::clone$", x[1]) and x[2]:
            return ev(x[2][0], env)
        if k == "bin" and x[1] in ("Lt", "Le", "Gt", "Ge", "Eq", "Ne"):
            a_, b_ = ev(x[2], env), ev(x[3], env)
            return int({"Lt": a_ < b_, "Le": a_ <= b_, "Gt": a_ > b_, "Ge": a_ >= b_, "Eq": a_ == b_, "Ne": a_ != b_}[x[1]])
        raise ValueError("unsupported %s" % (x[:2],))

    def proj(v, fld):
        if isinstance(fld, str) and fld.startswith("@"):
            if v[0] != fld[1:]:
                raise ValueError("variant")
            return v
        if isinstance(v, tuple) and v and v[0] == "Some" and str(fld) == "0":
            return v[1]
        if isinstance(v, tuple) and v and v[0] == "tuple":
            return v[1][int(fld)]
        if isinstance(v, dict):
            return v[fld]
        raise ValueError("projection %r of %r" % (fld, v))

    def step(acc, cell):
        env = {2: acc, 3: cell}
        for conds, ret in ps:
            taken = True
            for c, tk in conds:
                if strip(c)[0] == "const":
                    continue
                v = int(ev(c, env))
                if (isinstance(tk, tuple) and v in tk[1]) or (not isinstance(tk, tuple) and v != tk):
                    taken = False
                    break
            if taken:
                return ev(ret, env)
        raise ValueError("no path")

    cells = [{"x": 5, "y": 30}, {"x": 7, "y": 10}, {"x": 2, "y": 20}]
    want = {"minx": 2, "maxx": 7, "miny": 10, "maxy": 30}
    layout = None
    try:
        for perm in itertools.permutations(cells):
            acc = ("None",)
            for c in perm:
                acc = step(acc, c)
            if acc[0] != "Some" or acc[1][0] != "tuple" or len(acc[1][1]) != 4:
                return False, "the fold does not accumulate four extremes"
            vals = acc[1][1]
            lay = {}
            for name, v in want.items():
                pos = [i for i, got in enumerate(vals) if got == v]
                if len(pos) != 1:
                    return False, "the accumulated tuple is %r for the cells %r" % (vals, [(c["x"], c["y"]) for c in perm])
                lay[name] = pos[0]
            if layout is not None and lay != layout:
                return False, "the accumulator's layout depends on the order of the cells"
            layout = lay
    except (ValueError, KeyError, IndexError, TypeError) as ex_:
        return False, "the fold closure is not a min/max accumulation the evaluator understands (%s)" % ex_
    # which accumulator positions reach the two cells of the result
    def pos_of(a):
        a = strip(a)
        digits = [f for f in a[2] if str(f).isdigit()] if a[0] == "field" else []
        return int(digits[-1]) if digits and mentions(a, lambda z: z[0] == "call" and re.search(r"Iterator::fold$", z[1])) else None
    got = []
    for _, cell in tup[3]:
        cell = strip(cell)
        if not (cell[0] == "call" and cell[1].endswith("cell::Cell::new") and len(cell[2]) == 2):
            return False, ""
        got.append((pos_of(cell[2][0]), pos_of(cell[2][1])))
    if got == [(layout["minx"], layout["miny"]), (layout["maxx"], layout["maxy"])]:
        return True, ""
    return False, "the corners are built from accumulator positions %r, the extremes sit at %r" % (got, layout)


def run(run):
    prog = run.prog
    # ---------------- M1
    gs = prog.method("get_size", r"cell_buffer::CellBuffer$")
    bd = prog.method("bounds", r"cell_buffer::CellBuffer$")
    if not gs or not bd:
        run.missing("C12.M1", "CellBuffer::get_size / bounds")
    else:
        b = prog.bodies[gs]
        rets = [strip(r) for r in Expr(prog, gs).returns()]
        if len(rets) != 1 or rets[0][0] != "agg" or len(rets[0][3]) != 2:
            run.bad("C12.M1", "size-shape", where(b), "get_size does not return one (w, h) tuple")
        else:
            for (nm, comp), axis, coord, dim in zip(rets[0][3], ("width", "height"), ("x", "y"), ("width", "height")):
                fs = [strip(f) for f in factors(comp)]
                is_scale = lambda f: f[0] == "param" and f[2] and f[2][-1] == "scale"
                is_cell = lambda f: f[0] == "call" and re.search(r"cell::Cell::%s$" % dim, f[1])
                count = [f for f in fs if not is_scale(f) and not is_cell(f)]
                ok = len(fs) == 3 and len([f for f in fs if is_scale(f)]) == 1 and len([f for f in fs if is_cell(f)]) == 1 and len(count) == 1
                detail = ""
                alt_form = False
                if ok:
                    # `match self.bounds() { Some((_, br)) => br.x + 2, None => 2 }`: the two arms are {2, max + 2}
                    c0 = uncast(count[0])
                    if c0[0] == "phi" and len(c0[1]) == 2:
                        alts = [uncast(a) for a in c0[1]]
                        consts = [a for a in alts if is_const(a, 2)]
                        others = [a for a in alts if not is_const(a)]
                        if len(consts) == 1 and len(others) == 1:
                            ts0 = [strip(t) for t in terms(others[0])]
                            two0 = [t for t in ts0 if is_const(t, 2)]
                            rest0 = [t for t in ts0 if not is_const(t)]
                            if len(ts0) == 2 and len(two0) == 1 and len(rest0) == 1:
                                r0 = rest0[0]
                                alt_form = r0[0] == "field" and tuple(r0[2])[-2:] == ("1", coord) and "@Some" in r0[2] and \
                                    strip(r0[1])[0] == "call" and strip(r0[1])[1] == bd and strip(strip(r0[1])[2][0]) == ("param", 1, ())
                if ok and alt_form:
                    pass
                elif ok:
                    c = uncast(count[0])
                    ts = [strip(t) for t in terms(c)]
                    two = [t for t in ts if is_const(t, 2)]
                    rest = [t for t in ts if not is_const(t)]
                    ok = len(ts) == 2 and len(two) == 1 and len(rest) == 1
                    if ok:
                        r = rest[0]
                        # unwrap_or(bounds(self), (Cell::new(0,0), Cell::new(0,0))).1.<coord>
                        ok = r[0] == "field" and r[2] == ("1", coord) and strip(r[1])[0] == "call" and strip(r[1])[1].endswith("unwrap_or")
                        if not ok and r[0] == "phi" and len(r[1]) == 2:
                            # `match self.bounds() { Some((_, br)) => br, None => Cell::new(0, 0) }.<coord>`
                            alts_ = [strip(a_) for a_ in r[1]]
                            zero_cell = [a_ for a_ in alts_ if a_[0] == "field" and a_[2] == (coord,) and strip(a_[1])[0] == "call" and strip(a_[1])[1].endswith("cell::Cell::new") and all(is_const(z_, 0) for z_ in strip(a_[1])[2])]
                            from_b = [a_ for a_ in alts_ if a_[0] == "field" and tuple(a_[2])[-2:] == ("1", coord) and "@Some" in a_[2] and strip(a_[1])[0] == "call" and strip(a_[1])[1] == bd and strip(strip(a_[1])[2][0]) == ("param", 1, ())]
                            if len(zero_cell) == 1 and len(from_b) == 1:
                                ok = True
                                alt_form = True
                        if ok and alt_form:
                            pass
                        elif ok:
                            u = strip(r[1])
                            src = strip(u[2][0])
                            dflt = strip(u[2][1])
                            ok = src[0] == "call" and src[1] == bd and strip(src[2][0]) == ("param", 1, ())
                            zero = lambda e: strip(e)[0] == "call" and strip(e)[1].endswith("cell::Cell::new") and all(is_const(a, 0) for a in strip(e)[2])
                            ok = ok and dflt[0] == "agg" and len(dflt[3]) == 2 and all(zero(x) for _, x in dflt[3])
                            detail = "" if ok else "bounds source / empty-drawing default differ"
                        else:
                            detail = "count is not bounds().1.%s + 2" % coord
                    else:
                        detail = "count `%s` is not (max %s + 2)" % (expr_str(c)[:80], coord)
                else:
                    detail = "factors are %s" % [expr_str(f)[:50] for f in fs]
                if ok:
                    run.ok("C12.M1", "canvas %s = scale x (max %s + 2) x Cell::%s()" % (axis, "column" if coord == "x" else "row", dim), where(b), expr_str(comp)[:160])
                else:
                    run.bad("C12.M1", "size-formula/%s" % axis, where(b), "canvas %s is `%s`: %s" % (axis, expr_str(comp)[:200], detail))
        # bounds = (min x, min y), (max x, max y) over the cell map
        bb = prog.bodies[bd]
        rets = [strip(r) for r in Expr(prog, bd).returns()]
        some = [r for r in rets if r[0] == "agg" and r[2] == "Some"]
        cls = {c.split("::")[-1]: [strip(r) for r in Expr(prog, c).returns()] for c in prog.closures_of(bd)}
        ok = len(some) == 1
        selective = ""
        if ok:
            tup = strip(some[0][3][0][1])
            ok = tup[0] == "agg" and len(tup[3]) == 2
            if ok:
                for idx, (_, cell) in enumerate(tup[3]):
                    cell = strip(cell)
                    if not (cell[0] == "call" and cell[1].endswith("cell::Cell::new") and len(cell[2]) == 2):
                        ok = False
                        continue
                    for a, coord in zip(cell[2], ("x", "y")):
                        a = strip(a)
                        # into_option(minmax(map(iter(..), closure))).@Some.0.<idx>
                        sel = [f for f in a[2] if f.isdigit()] if a[0] == "field" else []
                        cl = []
                        mentions(a, lambda z: z[0] == "agg" and str(z[1]).startswith("closure:") and cl.append(z[1].split("::")[-1]) and False)
                        mm = mentions(a, lambda z: z[0] == "call" and z[1].endswith("Itertools::minmax"))
                        crd = cls.get(cl[0], [()])[0] if cl else ()
                        good = mm and sel and sel[-1] == str(idx) and crd and crd[0] == "param" and crd[2][-1:] == (coord,)
                        # the extremes are taken over *all* cells of the map: minmax(map(self.iter(), |..| coord)) with
                        # nothing between the map's iterator and the projection (no filter, no helper that selects)
                        mmz = []
                        mentions(a, lambda z: z[0] == "call" and z[1].endswith("Itertools::minmax") and mmz.append(z) and False)
                        if good and mmz:
                            e = strip(mmz[0][2][0])
                            direct = e[0] == "call" and re.search(r"Iterator::map$", e[1]) and e[2]
                            if direct:
                                e = strip(e[2][0])
                                while e[0] == "call" and re.search(r"::(iter|deref|into_iter|keys)$", e[1]) and e[2]:
                                    e = strip(e[2][0])
                                direct = e[0] == "param" and e[1] == 1
                            if not direct:
                                good = False
                                selective = "the cells are taken from `%s`, not directly from the cell map" % expr_str(strip(mmz[0][2][0]))[:100]
                        ok = ok and bool(good)
        if not ok:
            # the same extremes accumulated in a `for` loop: every definition of a coordinate is `cell.c` of an item of
            # the iteration over all keys/entries of the map, or min/max (the right one) of the running value and `cell.c`
            some2 = [strip(simplify(r)) for r in rets]
            some2 = [r for r in some2 if r[0] == "agg" and r[2] == "Some"]
            if len(some2) == 1:
                tup = strip(some2[0][3][0][1])
                if tup[0] == "agg" and len(tup[3]) == 2:
                    good_all = True
                    for idx, (_, cell) in enumerate(tup[3]):
                        cell = strip(cell)
                        if not (cell[0] == "call" and cell[1].endswith("cell::Cell::new") and len(cell[2]) == 2):
                            good_all = False
                            continue
                        want_op = "min" if idx == 0 else "max"
                        for a, coord in zip(cell[2], ("x", "y")):
                            state = {"items": 0, "ops": 0, "bad": None}

                            def item_ok(e):
                                e = strip(e)
                                if e[0] != "field" or tuple(e[2])[-1:] != (coord,):
                                    return False
                                nx = []
                                mentions(e, lambda z: z[0] == "call" and z[1].endswith("Iterator>::next") and nx.append(z) and False)
                                if not nx:
                                    return False
                                calls_ = []
                                mentions(nx[0], lambda z: z[0] in ("call", "mutated_by") and calls_.append(z[1]) and False)
                                plain = all(re.search(r"Iterator>::next$|::keys$|::iter$|IntoIterator>?::into_iter$|[dD]eref>?::deref$", c_) for c_ in calls_)
                                over_self = mentions(nx[0], lambda z: z == ("param", 1, ()))
                                return plain and over_self

                            def walk(e, depth=0):
                                e = strip(e)
                                if depth > 12 or e[0] == "deep":
                                    return
                                if e[0] == "phi":
                                    for x in e[1]:
                                        walk(x, depth + 1)
                                    return
                                if e[0] == "call" and re.search(r"cmp::(Ord::)?(min|max)$|Ord>?::(min|max)$", e[1]) and len(e[2]) == 2:
                                    if not e[1].endswith(want_op):
                                        state["bad"] = "uses %s for the %s corner" % (e[1].split("::")[-1], "top-left" if idx == 0 else "bottom-right")
                                    state["ops"] += 1
                                    for x in e[2]:
                                        walk(x, depth + 1)
                                    return
                                if item_ok(e):
                                    state["items"] += 1
                                    return
                                state["bad"] = "contains `%s`" % expr_str(e)[:60]

                            walk(a)
                            if state["bad"] or not state["items"] or not state["ops"]:
                                good_all = False
                                selective = state["bad"] or "no running min/max over the cells found"
                    ok = good_all
        if not ok:
            fold_ok, why_fold = bounds_by_fold(prog, bd)
            if fold_ok:
                ok = True
            elif why_fold:
                selective = selective or why_fold
        if ok:
            run.ok("C12.M1", "bounds() = ((min x, min y), (max x, max y)) of the occupied cells", where(bb))
        else:
            run.bad("C12.M1", "bounds-shape", where(bb), "bounds() is not the min/max of the x and y of all cells%s: %s" % (
                (" (" + selective + ")") if selective else "", " | ".join(expr_str(r)[:120] for r in rets)))
    # ---------------- M2 rendered => bounded
    cbadt = prog.adts.get("svgbob::buffer::cell_buffer::CellBuffer")
    if not cbadt or not bd:
        run.missing("C12.M2", "CellBuffer")
    else:
        reads, writes = field_accesses(prog, "cell_buffer::CellBuffer")
        def fields_read_from(root):
            reach = prog.reachable([root])
            out = set()
            for f, rs in reads.items():
                for p, st in rs:
                    if p in reach and not is_derived_impl(p):
                        out.add(f)
            return out
        render_roots = [p for p in (prog.method("get_node_with_size", r"cell_buffer::CellBuffer$"), prog.method("get_node_override_size", r"cell_buffer::CellBuffer$")) if p]
        rendered = set()
        for r in render_roots:
            rendered |= fields_read_from(r)
        bounded = fields_read_from(bd)
        for f in cbadt["variants"][0]["fields"]:
            carries_cells = "cell::Cell" in f["ty"]
            inst = "CellBuffer.%s" % f["name"]
            if not carries_cells:
                run.ok("C12.M2", inst + " carries no cell positions", where(cbadt), f["ty"][:60], nontrivial=False)
            elif f["name"] in rendered and f["name"] not in bounded:
                run.bad("C12.M2", "unbounded-position-field/CellBuffer.%s" % f["name"], where(cbadt),
                        "CellBuffer.%s holds cell positions that are rendered but bounds() never reads it: what it places can lie outside the canvas" % f["name"])
            else:
                run.ok("C12.M2", inst + " is seen by bounds()", where(cbadt), "rendered=%s bounded=%s" % (f["name"] in rendered, f["name"] in bounded))
    # ---------------- M3 table containment
    tae_conf.check(run, "C12.T0")
    try:
        T = Tables(run)
    except TableError as ex:
        run.missing("C12.M3", "character tables (%s)" % ex)
        return
    n_frag = 0
    n_out = 0
    for ch, ent in sorted(T.ascii.items()):
        for b in ent["behaviour"]:
            for fr in b["frags"]:
                n_frag += 1
                x0, y0, x1, y1 = frag_box(fr)
                w = "%s:%d" % (T.ascii_file, fr[-1])
                key = "%s#%d" % (ch, b["index"])
                outside = x0 < -EPS or y0 < -EPS or x1 > 1 + EPS or y1 > 2 + EPS
                if not outside:
                    continue
                n_out += 1
                probs = []
                if x0 < -1 - EPS or y0 < -2 - EPS or x1 > 2 + EPS or y1 > 4 + EPS:
                    probs.append("reaches more than one cell beyond its own cell (box %.2f,%.2f..%.2f,%.2f)" % (x0, y0, x1, y1))
                if x0 < -EPS and satisfiable_without(T, b["cond"], LEFT_COL):
                    probs.append("reaches %.2f cells to the left although its condition does not require any character in the left column" % -x0)
                if y0 < -EPS and satisfiable_without(T, b["cond"], TOP_ROW):
                    probs.append("reaches %.2f rows up although its condition does not require any character in the row above" % (-y0 / 2))
                if probs:
                    run.bad("C12.M3", "table-overhang/%s/%s" % (key, fr[0]), w, "entry '%s' entry %d, %s: %s" % (ch, b["index"], fr[0], "; ".join(probs)))
                else:
                    run.ok("C12.M3", "entry %r#%d %s leaves its cell only towards required neighbours / into the margin" % (ch, b["index"], fr[0]), w,
                           "box %.2f,%.2f..%.2f,%.2f" % (x0, y0, x1, y1))
    for ch, ent in sorted(T.unicode.items()):
        for fr in ent["frags"]:
            n_frag += 1
            x0, y0, x1, y1 = frag_box(fr)
            if x0 < -EPS or y0 < -EPS or x1 > 2 + EPS or y1 > 4 + EPS:
                run.bad("C12.M3", "glyph-overhang/%s" % ("U+%04X" % ord(ch)), "%s:%d" % (T.unicode_file, fr[-1]),
                        "glyph %r: %s reaches outside cell+margin (box %.2f,%.2f..%.2f,%.2f) unconditionally" % (ch, fr[0], x0, y0, x1, y1))
            elif x1 > 1 + EPS or y1 > 2 + EPS:
                n_out += 1
                run.ok("C12.M3", "glyph %r %s stays within the one-cell margin" % (ch, fr[0]), "%s:%d" % (T.unicode_file, fr[-1]))
    run.ok("C12.M3", "%d table fragments folded; %d leave their own cell and were examined" % (n_frag, n_out), T.ascii_file)
    run.floor("C12.M3", "table_fragments", n_frag, 400)
    run.floor("C12.M3", "overhanging_fragments", n_out, 10)
    # ---------------- M4 catalogue circles
    try:
        from ..circles import Catalogue
        cat = Catalogue(run)
        for ent in cat.entries:
            cx, cy, r = ent["center"][0], ent["center"][1], ent["radius"]
            wcells, hrows = ent["width"], ent["height"]
            probs = []
            if cx - r < -1e-6 or cy - r < -1e-6:
                probs.append("overhangs the top/left of its drawing (centre %.2f,%.2f radius %.2f)" % (cx, cy, r))
            if cx + r > wcells + 1 + 1e-6 or cy + r > 2 * hrows + 2 + 1e-6:
                probs.append("overhangs the drawing plus one-cell margin to the right/bottom")
            w = "%s:%d" % (cat.file, ent["line"])
            if probs:
                run.bad("C12.M4", "circle-overhang/%d" % ent["index"], w, "catalogue circle %d: %s" % (ent["index"], "; ".join(probs)))
            else:
                run.ok("C12.M4", "catalogue circle %d (radius %.2f) lies within its drawing plus margin" % (ent["index"], r), w)
        run.floor("C12.M4", "catalogue_circles", len(cat.entries), 20)
    except ImportError:
        run.note("M4 not built yet")
    run.assume("text extent is font dependent and not bounded here")


run_flow = run
