"""C02 (one well-formed XML document that round-trips the text) — structural clauses:
S1 sink census: every sauron constructor call reachable from the entry points that receives a string
puts only harmless text into the document: constants free of markup characters, numbers, format!
of such, the output of a *verified* escaping function, or (class attribute) tokens of the
identifier grammar; S2 each escaping function is `chars().map(table).collect()` where the table
(interpreted exactly over all 1 114 112 scalar values) leaves no `< & >`, no character outside the
XML 1.0 Char production and no bare CR unchanged, drops only characters XML cannot represent, and
replaces the others by an entity that decodes to the same character (round trip); S3 the root is
`svg` with the SVG namespace constant and numeric width/height, and every entry point returns the
output of exactly one render call of one node.  sauron's serializer (quotes attributes with ",
writes text leaves verbatim) is trusted as read."""
import re

from ..charset import CS, NON_XML
from ..common import short, where
from ..exprs import inline_calls, strip
from ..mirlib import Expr, Program, expr_str
from ..sinks import FORBIDDEN, SinkAnalysis

CR = CS.of("\r")


def sink_rules(run, pid):
    sa = SinkAnalysis(run, pid)
    if sa.grammar is None:
        run.missing(pid + ".S1", "util::parser module (identifier grammar)")
    res = sa.census(pid)
    n_str = 0
    for p, t, kind, ok, why in res:
        name = Program.callee_name(t)
        inst = "%s <- %s" % (short(name), short(p))
        trivial = why.startswith("no string-typed") or why.startswith("node/attribute") or why == "constant"
        if ok:
            run.ok(pid + ".S1", inst + " @" + (where(t) or ""), where(t), "%s sink: %s" % (kind, why), nontrivial=not trivial)
        else:
            run.bad(pid + ".S1", "unproven-sink/%s/%s" % (short(p), short(name)), where(t),
                    "%s sink %s in %s: %s" % (kind, short(name), p, why))
        if kind in ("text", "attr") and not why.startswith("no string-typed"):
            n_str += 1
    run.record("sink_calls", sa.stats)
    run.floor(pid + ".S1", "sauron_constructor_calls", sa.stats["sinks"], 40)
    run.floor(pid + ".S1", "string_sinks", n_str, 12)
    run.floor(pid + ".S1", "text_sinks", sa.stats["by_kind"].get("text", 0), 2)
    return sa


def escaper_rules(run, pid, sa, roundtrip=True):
    n = 0
    for path, esc in sorted(sa.escapers.items()):
        if esc is None:
            continue
        n += 1
        w = esc["where"]
        inst = "escaping table of %s" % short(path)
        leak = esc["identity"] & FORBIDDEN["text"]
        if leak:
            run.bad(pid + ".S2", "escaper-leak/%s" % short(esc["fn"]), w,
                    "%s leaves %s unchanged (markup characters or characters outside the XML Char production)" % (short(esc["fn"]), leak.describe(6)))
        else:
            run.ok(pid + ".S2", inst + ": identity set excludes < & > and non-XML characters", w,
                   "identity set = %d characters" % esc["identity"].count())
        if roundtrip:
            if esc["identity"] & CR:
                run.bad(pid + ".S2", "escaper-cr/%s" % short(esc["fn"]), w,
                        "%s leaves a bare carriage return unchanged; XML parsers normalize it to a line feed, so the text does not round-trip" % short(esc["fn"]))
            else:
                run.ok(pid + ".S2", inst + ": CR is not emitted bare", w)
            lost = esc["dropped"] - (NON_XML | CS.of(0))
            if lost:
                run.bad(pid + ".S2", "escaper-drops/%s" % short(esc["fn"]), w,
                        "%s drops representable characters %s (text would not round-trip)" % (short(esc["fn"]), lost.describe(6)))
            else:
                run.ok(pid + ".S2", inst + ": only unrepresentable characters are dropped", w, esc["dropped"].describe(8))
            for pr in esc["problems"]:
                run.bad(pid + ".S2", "escaper-entity/%s/%s" % (short(esc["fn"]), re.sub(r"[^A-Za-z0-9&#;]+", "_", pr)[:60]), w, pr)
            if not esc["problems"]:
                run.ok(pid + ".S2", inst + ": every replacement decodes to the matched character", w,
                       ", ".join("%s=>%r" % (a, v) for a, k, v, _ in esc["entries"] if k == "const"))
        else:
            for pr in esc["problems"]:
                if "not interpretable" in pr or "not recognised" in pr or "not exhaustive" in pr:
                    run.bad(pid + ".S2", "escaper-entity/%s/%s" % (short(esc["fn"]), re.sub(r"[^A-Za-z0-9&#;]+", "_", pr)[:60]), w, pr)
    run.floor(pid + ".S2", "verified_escaping_functions", n, 1)


def run(run):
    sa = sink_rules(run, "C02")
    escaper_rules(run, "C02", sa)
    prog = run.prog
    # ---------------- S3 root shape
    f2n = prog.method("fragments_to_node", r"cell_buffer::CellBuffer$")
    if not f2n:
        run.missing("C02.S3", "CellBuffer::fragments_to_node")
    else:
        rets = Expr(prog, f2n).returns()
        b = prog.bodies[f2n]
        for r in rets:
            r = strip(r)
            if r[0] != "call" or not re.search(r"svg::tags::(commons::)?svg$", r[1]):
                run.bad("C02.S3", "root-not-svg", where(b), "the node builder returns `%s`, not an svg(..) element" % expr_str(r)[:100])
                continue
            attrs = strip(r[2][0])
            items = [strip(x) for _, x in attrs[3]] if attrs[0] == "agg" else []
            have = {}
            for it in items:
                if it[0] == "call":
                    have[it[1].split("::")[-1]] = it
            ns = have.get("xmlns")
            if ns and strip(ns[2][0]) == ("const", "str", "http://www.w3.org/2000/svg"):
                run.ok("C02.S3", "root carries xmlns=http://www.w3.org/2000/svg", where(b))
            else:
                run.bad("C02.S3", "root-namespace", where(b), "root svg element lacks the constant SVG namespace (%s)" % (expr_str(ns) if ns else "no xmlns"))
            for dim in ("width", "height"):
                d = have.get(dim)
                t = sa.term_of(f2n, d) if d else None
                if d and t and t["arg_tys"] == ["f32"]:
                    run.ok("C02.S3", "root %s is numeric (f32)" % dim, where(t))
                else:
                    run.bad("C02.S3", "root-%s" % dim, where(b), "root svg element has no numeric %s" % dim)
    for n in ("to_svg_string_pretty", "to_svg_string_compressed", "to_svg_with_settings", "to_svg_with_override_size"):
        p = "svgbob::" + n
        if p not in prog.bodies:
            run.missing("C02.S3", p)
            continue
        # the returned string is the output of exactly one sauron render call and nothing else is written into it
        # (helpers and delegation to another entry point are inlined first)
        flat = []
        for r in Expr(prog, p).returns():
            x = strip(inline_calls(prog, r, keep=r"CellBuffer::|convert::From<|Default>::default$"))
            flat.extend(strip(y) for y in x[1]) if x[0] == "phi" else flat.append(x)
        renders, others = [], []
        for x in flat:
            if x[0] in ("call", "mutated_by") and re.search(r"Node<MSG>>::render(_to_string)?$", x[1]):
                renders.append(x)
            elif x[0] == "call" and x[1].endswith("String::new"):
                continue
            else:
                others.append(x)
        if len(renders) == 1 and not others:
            run.ok("C02.S3", "%s returns one rendered node" % n, where(prog.bodies[p]))
        else:
            run.bad("C02.S3", "entry-render/%s" % n, where(prog.bodies[p]), "%s returns %d rendered nodes and %d other values (%s)" % (
                n, len(renders), len(others), "; ".join(expr_str(o)[:60] for o in others[:2])))
    run.assume("sauron 0.61 writes text leaves verbatim and attribute values between double quotes (render.rs read)")
    run.assume("feature with-dom (no escaping, output goes to the DOM) is out of scope")


run_flow = run
