"""C16 (legend entries become CSS rules, {tags} style the enclosing shape) — structural clauses:
L1 the rule text is `.svgbob .<name>{ <declarations> }` (format template decoded from MIR and
instantiated symbolically), one per legend entry in entry order, joined by newlines; L2 when the
legend parses, only the text before `# Legend:` reaches the drawing pipeline and the parsed entries
become the css styles, otherwise the whole input is drawn; L3 the extracted pom grammars accept /
reject the identifier, tag and entry witnesses of the statement; L4 tags are tried on the deepest
enclosing shape first (children are visited before the shape itself is tested), a tag is added to
the class list *instead of* being kept as text, anything else is kept as enclosed text.
Not decided: which shapes geometrically enclose a tag (can_fit's float test)."""
import re

from ..common import guards, short, where
from ..exprs import bool_function, is_const, inline_calls, simplify, mentions_deep, subst_closure, closure_of, format_parts, mentions, strip
from ..grammar import GrammarError, load_parser_module
from ..charset import Unknown
from ..mirlib import Expr, Program, expr_str


def run(run):
    prog = run.prog
    # ---------------- L1 rule template
    lc = prog.method("legend_css", r"cell_buffer::CellBuffer$")
    if not lc:
        run.missing("C16.L1", "CellBuffer::legend_css")
    else:
        b = prog.bodies[lc]
        rets = [strip(r) for r in Expr(prog, lc).returns()]
        ok_shape = False
        if len(rets) == 1 and rets[0][0] == "call" and re.search(r"::join$", rets[0][1]) and len(rets[0][2]) == 2:
            sep = strip(rets[0][2][1])
            lst = strip(rets[0][2][0])
            if sep == ("const", "str", "\n"):
                run.ok("C16.L1", "rules joined by a newline", where(b))
            else:
                run.bad("C16.L1", "rule-separator", where(b), "css rules are joined by %s, not by a newline" % expr_str(sep))
            def check_template(body_path, r, item_is):
                fp = format_parts(r)
                if fp is None:
                    run.bad("C16.L1", "rule-template", where(prog.bodies[body_path]), "rule text is not a recognisable format!: %s" % expr_str(r)[:120])
                    return
                pieces, args = fp
                names = [item_is(strip(a)) for kind, a in args]
                itn = iter(names)
                text = "".join(p[1] if p[0] == "lit" else next(itn, "?") for p in pieces)
                if text == ".svgbob .NAME{ DECL }":
                    run.ok("C16.L1", "rule template instantiates to `.svgbob .NAME{ DECL }`", where(prog.bodies[body_path]), repr(pieces))
                else:
                    run.bad("C16.L1", "rule-template", where(prog.bodies[body_path]),
                            "the css rule for entry (NAME, DECL) is `%s`, the documented form is `.svgbob .NAME{ DECL }`" % text)
            # alternative shape: a `for` loop pushing one formatted rule per entry
            if lst[0] == "phi" and not ok_shape:
                pushes = [x for x in lst[1] if strip(x)[0] == "mutated_by" and strip(x)[1].endswith("Vec::<T, A>::push")]
                inits = [x for x in lst[1] if strip(x)[0] == "call" and re.search(r"Vec::<T>::new$|vec::from_elem|Vec::<T, A>::with_capacity", strip(x)[1])]
                if len(pushes) == 1 and len(pushes) + len(inits) == len(lst[1]):
                    val = strip(pushes[0])[2][1]
                    over = mentions(val, lambda z: z[0] == "call" and re.search(r"<impl \[T\]>::iter$", z[1]) and strip(z[2][0]) == ("param", 1, ("css_styles",)))
                    rev = mentions(val, lambda z: z[0] == "call" and re.search(r"Iterator::rev$|sort|Iterator::skip|Iterator::take|Iterator::filter", z[1]))
                    if over and not rev:
                        ok_shape = True
                        run.ok("C16.L1", "one rule per css_styles entry, in entry order (for loop over the slice, no reordering adaptor)", where(b))
                        def item_is(a):
                            if a[0] == "field" and mentions(a, lambda z: z[0] == "call" and z[1].endswith("Iterator>::next")):
                                idx = [f for f in a[2] if f.isdigit()]
                                return {"0": "NAME", "1": "DECL"}.get(idx[-1] if idx else "", "?")
                            return "?"
                        check_template(lc, val, item_is)
            # `Itertools::join` straight on the mapped iterator (no intermediate Vec): the receiver is the iterator itself
            if lst[0] == "phi" and not ok_shape:
                alts_ = [strip(x) for x in lst[1] if not (strip(x)[0] == "mutated_by" and re.search(r"::join$", strip(x)[1]))]
                if len(alts_) == 1:
                    lst = alts_[0]
            if lst[0] == "call" and re.search(r"Iterator::map$", lst[1]):
                lst = ("call", "core::iter::traits::iterator::Iterator::collect", (lst,), 0)
            if lst[0] == "call" and re.search(r"Iterator::collect$", lst[1]):
                mp = strip(lst[2][0])
                if mp[0] == "call" and re.search(r"Iterator::map$", mp[1]):
                    src = strip(mp[2][0])
                    cl, caps = closure_of(mp[2][1])
                    if src[0] == "call" and re.search(r"<impl \[T\]>::iter$", src[1]) and strip(src[2][0]) == ("param", 1, ("css_styles",)) and cl in prog.bodies:
                        ok_shape = True
                        run.ok("C16.L1", "one rule per css_styles entry, in entry order (slice iter, no reordering adaptor)", where(b))
                        for r in Expr(prog, cl).returns():
                            fp = format_parts(r)
                            if fp is None:
                                run.bad("C16.L1", "rule-template", where(prog.bodies[cl]), "rule text is not a recognisable format!: %s" % expr_str(r)[:120])
                                continue
                            pieces, args = fp
                            names = []
                            for kind, a in args:
                                a = strip(a)
                                # the declarations may pass through the (verified, C02.S2) text escaper or a borrow
                                while a[0] == "call" and a[2] and re.search(r"::escape_html_text$|[dD]eref>?::deref$|::as_str$|::as_ref$|::borrow$|::clone$|ToString>?::to_string$", a[1]):
                                    a = strip(a[2][0])
                                names.append({("0",): "NAME", ("1",): "DECL"}.get(tuple(f for f in a[2] if f.isdigit()), "?") if a[0] == "param" and a[1] == 2 else "?")
                            it = iter(names)
                            text = "".join(p[1] if p[0] == "lit" else next(it, "?") for p in pieces)
                            if text == ".svgbob .NAME{ DECL }":
                                run.ok("C16.L1", "rule template instantiates to `.svgbob .NAME{ DECL }`", where(prog.bodies[cl]), repr(pieces))
                            else:
                                run.bad("C16.L1", "rule-template", where(prog.bodies[cl]),
                                        "the css rule for entry (NAME, DECL) is `%s`, the documented form is `.svgbob .NAME{ DECL }`" % text)
        if not ok_shape and ((len(rets) == 1 and rets[0][0] == "phi") or len(rets) == 3):
            # a String accumulated in a loop: `for (i, (class, styles)) in self.css_styles.iter().enumerate() { if i > 0 { css.push('\n') }
            # css.push_str(&rule(class, styles)) }` (the rule may be built by a helper, inlined here)
            alts = [strip(x) for x in rets[0][1]] if len(rets) == 1 else list(rets)
            inits = [x for x in alts if x[0] == "call" and re.search(r"String::(new|with_capacity)$", x[1])]
            seps = [x for x in alts if x[0] == "mutated_by" and x[1].endswith("String::push") and len(x[2]) == 2]
            rules_ = [x for x in alts if x[0] == "mutated_by" and x[1].endswith("String::push_str") and len(x[2]) == 2]
            if len(inits) == 1 and len(seps) == 1 and len(rules_) == 1 and len(alts) == 3:
                sepv = strip(seps[0][2][1])
                rule_e = strip(inline_calls(prog, rules_[0][2][1], keep=r"escape_html_text$"))
                while rule_e[0] == "call" and re.search(r"[dD]eref>?::deref$|::as_str$|::as_ref$|::borrow$", rule_e[1]) and rule_e[2]:
                    rule_e = strip(rule_e[2][0])
                over = mentions(rule_e, lambda z: z[0] == "call" and re.search(r"<impl \[T\]>::iter$", z[1]) and strip(z[2][0]) == ("param", 1, ("css_styles",)))
                rev = mentions(rule_e, lambda z: z[0] == "call" and re.search(r"Iterator::rev$|sort|Iterator::skip|Iterator::take|Iterator::filter|step_by", z[1]))
                # the separator is pushed before every entry but the first
                sep_guard = False
                for bid_, t_ in prog.calls(lc):
                    if Program.callee_name(t_).endswith("String::push"):
                        for c_, tk_, sw_ in guards(prog, lc, bid_, direct=True):
                            c_ = strip(c_)
                            if c_[0] == "bin" and ((c_[1] == "Gt" and is_const(c_[3], 0) and tk_ != 0) or (c_[1] == "Ne" and is_const(c_[3], 0) and tk_ != 0) or
                                                    (c_[1] == "Eq" and is_const(c_[3], 0) and tk_ == 0)) and \
                                    mentions(c_[2], lambda z: z[0] == "call" and z[1].endswith("Iterator::enumerate")):
                                sep_guard = True
                if sepv == ("const", "int", 10) and over and not rev and sep_guard:
                    ok_shape = True
                    run.ok("C16.L1", "rules joined by a newline", where(b))
                    run.ok("C16.L1", "one rule per css_styles entry, in entry order (loop over the slice, separator before every entry but the first)", where(b))

                    def item_is2(a):
                        while a[0] == "call" and a[2] and re.search(r"::escape_html_text$|[dD]eref>?::deref$|::as_str$|::as_ref$|::borrow$|::clone$|ToString>?::to_string$", a[1]):
                            a = strip(a[2][0])
                        if a[0] == "field" and mentions(a, lambda z: z[0] == "call" and z[1].endswith("Iterator>::next")):
                            idx = [f for f in a[2] if str(f).isdigit()]
                            return {"0": "NAME", "1": "DECL"}.get(idx[-1] if idx else "", "?")
                        return "?"
                    fp = format_parts(rule_e)
                    if fp is None:
                        run.bad("C16.L1", "rule-template", where(b), "rule text is not a recognisable format!: %s" % expr_str(rule_e)[:120])
                    else:
                        pieces, args = fp
                        itn = iter([item_is2(strip(a)) for kind, a in args])
                        text = "".join(p_[1] if p_[0] == "lit" else next(itn, "?") for p_ in pieces)
                        if text == ".svgbob .NAME{ DECL }":
                            run.ok("C16.L1", "rule template instantiates to `.svgbob .NAME{ DECL }`", where(b), repr(pieces))
                        else:
                            run.bad("C16.L1", "rule-template", where(b), "the css rule for entry (NAME, DECL) is `%s`, the documented form is `.svgbob .NAME{ DECL }`" % text)
        if not ok_shape:
            run.bad("C16.L1", "rule-shape", where(b), "legend_css is not `css_styles.iter().map(format).collect().join(\"\\n\")`: %s" % (
                expr_str(rets[0])[:160] if rets else "?"))
    # ---------------- L2 legend cut (path-sensitive; helpers of the conversion spliced in, so `if let` nests, `?`,
    # combinator closures turned helpers and a `split_legend` function all have the same three paths)
    cf = prog.method("from", r"cell_buffer::CellBuffer$", r"From<&str>")
    if not cf:
        run.missing("C16.L2", "From<&str> for CellBuffer")
    else:
        l2_combinator(run, cf) or l2_paths(run, cf) or l2_shape(run, cf)
    # ---------------- L3 grammar witnesses
    g, mod, gfile = load_parser_module(run)
    if g is None:
        run.missing("C16.L3", "util::parser")
    else:
        W = [
            ("ident", "abc", True, "abc"), ("ident", "_a1", True, "_a1"), ("ident", "A_b9", True, "A_b9"), ("ident", "x", True, "x"),
            ("ident", "1a", False, None), ("ident", "-a", False, None), ("ident", "", False, None), ("ident", " a", False, None),
            ("ident", "ab-c", True, "ab"), ("ident", "ab c", True, "ab"),
            ("tag_classes", "{a}", True, ["a"]), ("tag_classes", "{a,b}", True, ["a", "b"]), ("tag_classes", "{w1,_x,Y}", True, ["w1", "_x", "Y"]),
            ("tag_classes", "{a", False, None), ("tag_classes", "a}", False, None), ("tag_classes", "{a b}", False, None),
            ("tag_classes", "{a,}", False, None), ("tag_classes", "{1}", False, None),
            ("tag_classes", "{a.b}", False, None), ("tag_classes", "{a<b}", False, None),
            ("class_and_style", "a = {fill:red}", True, ("a", "fill:red")), ("class_and_style", "a={fill:red}", True, ("a", "fill:red")),
            ("class_and_style", "big_1 \t=  {x:y; z:w}", True, ("big_1", "x:y; z:w")), ("class_and_style", "a = {}", True, ("a", "")),
            ("class_and_style", "a = {x{y}}", False, None), ("class_and_style", "a = fill", False, None), ("class_and_style", "= {x}", False, None),
            ("class_and_style", "a {x}", False, None), ("class_and_style", "a = {x", False, None),
            # the whole legend: the entries in order; text after the last well-formed entry does not undo the entries before it
            # (the caller draws the *whole* input, legend included, when this grammar fails)
            ("<legend>", "# Legend:\na = {x}\nb = {y}\n", True, [("a", "x"), ("b", "y")]),
            ("<legend>", "# Legend:\na = {x}", True, [("a", "x")]),
            ("<legend>", "# Legend:\na = {x}\n\nb = {y}\n", True, [("a", "x")]),
            ("<legend>", "# Legend:\na = {x}\nsome note\n", True, [("a", "x")]),
            ("<legend>", "# Legend:\na = {x}\nnot-a-name = {y}\n", True, [("a", "x")]),
            ("<legend>", "# Legend:\na = {x}\nb = {y{z}}\n", True, [("a", "x")]),
            ("<legend>", "Legend:\na = {x}\n", False, None),
        ]
        n = 0
        from ..grammar import entry_grammar
        legend_g = entry_grammar(prog, "util::parser::parse_css_legend")
        if legend_g is None:
            run.missing("C16.L3", "grammar run by parse_css_legend")
        for gname, text, want_ok, want_out in W:
            if gname == "<legend>":
                if legend_g is None:
                    continue
                gname = legend_g
            if gname not in g.fns:
                run.missing("C16.L3", "grammar " + gname)
                continue
            try:
                ok, pos, out = g.parse(gname, text)
            except (GrammarError, Unknown) as ex:
                run.bad("C16.L3", "grammar-uninterpretable/%s" % gname, gfile, "grammar %s: %s" % (gname, ex))
                break
            n += 1
            if isinstance(out, tuple):
                out = tuple(out)
            if isinstance(want_out, list) and isinstance(out, list):
                out = [tuple(x) if isinstance(x, (list, tuple)) else x for x in out]
            good = (ok == want_ok) and (not want_ok or out == want_out or (isinstance(want_out, tuple) and tuple(out) == want_out))
            if good:
                run.ok("C16.L3", "%s on %r" % (gname, text), gfile, "-> %s" % (repr(out) if ok else "rejected"), nontrivial=True)
            else:
                run.bad("C16.L3", "grammar-witness/%s/%s" % (gname, re.sub(r"[^A-Za-z0-9_{},= ]", "?", text)), gfile,
                        "grammar `%s` on %r: %s, expected %s" % (gname, text, ("accepts -> %r" % (out,)) if ok else "rejects",
                                                                 ("accept -> %r" % (want_out,)) if want_ok else "reject"))
        run.floor("C16.L3", "witnesses", n, 25)
    # ---------------- L4 deepest first / tag instead of text
    ed = prog.method("enclose_deep_first", r"FragmentTree$")
    if not ed:
        run.missing("C16.L4", "FragmentTree::enclose_deep_first")
    else:
        b = prog.bodies[ed]
        cfg = prog.cfg(ed)
        ex = Expr(prog, ed)
        rec = [(bid, t) for bid, t in prog.calls(ed) if Program.callee_name(t) == ed]
        fit = [(bid, t) for bid, t in prog.calls(ed) if Program.callee_name(t).endswith("FragmentTree::can_fit")]
        nxt = [(bid, t) for bid, t in prog.calls(ed) if re.search(r"Iterator>::next$", Program.callee_name(t))
               and mentions(ex.operand(t["args"][0]), lambda z: z[0] == "param" and z[1] == 1 and "enclosing" in z[2])]
        if len(rec) == 1 and len(fit) == 1 and len(nxt) == 1:
            # the self test happens only after the child loop is exhausted, and never before a child is tried
            c1 = cfg.dominates(nxt[0][0], fit[0][0])
            c2 = not cfg.dominates(fit[0][0], rec[0][0]) and fit[0][0] not in cfg.reachable_from(0, removed=[nxt[0][0]])
            c3 = rec[0][0] not in cfg.reachable_from(fit[0][0])
            if c1 and c2 and c3:
                run.ok("C16.L4", "children are tried before the shape itself (deepest first)", where(fit[0][1]),
                       "child-iterator next() dominates can_fit; no path from can_fit back to the recursive call")
            else:
                run.bad("C16.L4", "deepest-first", where(fit[0][1]),
                        "enclose_deep_first tests the shape itself before (or without) trying its children: dominance next->can_fit=%s, can_fit-before-children=%s, loop-after-fit=%s" % (c1, not c2, not c3))
            # every child is offered the candidate: the loop iterates self.enclosing directly (no filter/skip/take adaptor)
            adaptors = set()
            def _coll(z):
                if z[0] in ("call", "mutated_by"):
                    adaptors.add(z[1])
                return False
            mentions(ex.operand(nxt[0][1]["args"][0]), _coll)
            alien = sorted(a for a in adaptors if not re.search(
                r"IntoIterator>::into_iter$|IntoIterator::into_iter$|::iter_mut$|::iter$|Deref(Mut)?>::deref(_mut)?$|Iterator::rev$|Iterator>::next$|Iterator::next$", a))
            child = strip(ex.operand(rec[0][1]["args"][0]))
            from_next = mentions(child, lambda z: z[0] == "call" and z[1].endswith("Iterator>::next")) or mentions(child, lambda z: z[0] == "call" and z[1].endswith("Iterator::next"))
            if alien or not from_next:
                run.bad("C16.L4", "children-skipped", where(nxt[0][1]),
                        "enclose_deep_first does not offer the tag to every enclosed child: the child iteration goes through %s" % ([short(a) for a in alien] or "something that is not the loop item"))
            else:
                run.ok("C16.L4", "every enclosed child is offered the candidate (plain iteration over self.enclosing)", where(nxt[0][1]))
            ra = strip(ex.operand(rec[0][1]["args"][1]))
            if ra == ("param", 2, ()):
                run.ok("C16.L4", "recursion passes the same candidate to each child", where(rec[0][1]), nontrivial=False)
            else:
                run.bad("C16.L4", "recursion-arg", where(rec[0][1]), "recursive call passes %s" % expr_str(ra))
        elif len(rec) == 0 and len(fit) == 1 and len(nxt) == 0:
            # `self.enclosing.iter_mut().any(|child| child.enclose_deep_first(other))` followed by the test of the shape itself
            anys = []
            for bid, t in prog.calls(ed):
                if re.search(r"Iterator>?::any$", Program.callee_name(t)) and len(t["args"]) == 2:
                    src = strip(ex.operand(t["args"][0]))
                    plain = True

                    def unphi(x):
                        # a value that is only mutated through &mut afterwards: its single initial definition
                        while x[0] == "phi":
                            base_ = [strip(a) for a in x[1] if strip(a)[0] != "mutated_by"]
                            if len(base_) != 1:
                                break
                            x = base_[0]
                        return x
                    src = unphi(src)
                    while src[0] == "call" and src[2]:
                        if not re.search(r"::iter_mut$|::iter$|IntoIterator>?::into_iter$|Deref(Mut)?>::deref(_mut)?$|Iterator::rev$", src[1]):
                            plain = False
                        src = unphi(strip(src[2][0]))
                    cl, caps = closure_of(strip(ex.operand(t["args"][1])))
                    if plain and src[0] == "param" and src[1] == 1 and "enclosing" in src[2] and cl in prog.bodies:
                        crec = [(b2, t2) for b2, t2 in prog.calls(cl) if Program.callee_name(t2) == ed]
                        if len(crec) == 1:
                            cex = Expr(prog, cl)
                            child = strip(cex.operand(crec[0][1]["args"][0]))
                            cand = strip(cex.operand(crec[0][1]["args"][1]))
                            cand_ok = cand[0] == "param" and cand[1] == 1 and cand[2] and strip(caps.get(str(cand[2][0]), ("unknown",))) == ("param", 2, ())
                            rets = [strip(r) for r in cex.returns()]
                            whole = len(rets) == 1 and rets[0][0] == "call" and rets[0][1] == ed
                            if child[0] == "param" and child[1] == 2 and cand_ok and whole:
                                anys.append((bid, t))
            if len(anys) == 1:
                ab = anys[0][0]
                c1 = cfg.dominates(ab, fit[0][0])
                c2 = fit[0][0] not in cfg.reachable_from(0, removed=[ab])
                c3 = ab not in cfg.reachable_from(fit[0][0])
                if c1 and c2 and c3:
                    run.ok("C16.L4", "children are tried before the shape itself (deepest first)", where(fit[0][1]),
                           "`enclosing.iter_mut().any(|child| child.enclose_deep_first(other))` dominates can_fit")
                    run.ok("C16.L4", "every enclosed child is offered the candidate (plain iteration over self.enclosing)", where(anys[0][1]))
                    run.ok("C16.L4", "recursion passes the same candidate to each child", where(anys[0][1]), nontrivial=False)
                else:
                    run.bad("C16.L4", "deepest-first", where(fit[0][1]), "enclose_deep_first tests the shape itself before (or without) trying its children")
            else:
                run.bad("C16.L4", "deep-first-shape", where(b), "the children of the shape are not offered the candidate by a plain iteration over self.enclosing")
        else:
            run.bad("C16.L4", "deep-first-shape", where(b), "expected one recursive call, one can_fit and one child iterator (found %d/%d/%d)" % (len(rec), len(fit), len(nxt)))
        ext = [(bid, t) for bid, t in prog.calls(ed) if re.search(r"Extend<T>>::extend$", Program.callee_name(t))
               and strip(ex.operand(t["args"][0])) == ("param", 1, ("css_tag",))]
        psh = [(bid, t) for bid, t in prog.calls(ed) if re.search(r"Vec::<T, A>::push$", Program.callee_name(t))
               and strip(ex.operand(t["args"][0])) == ("param", 1, ("enclosing",))]
        is_tag = lambda z: z[0] == "call" and z[1].endswith("Fragment::as_css_tag")
        if len(ext) == 1 and len(psh) == 1:
            def empty_guard(bid):
                for c, tk, sw in guards(prog, ed, bid):
                    c = strip(c)
                    if c[0] == "call" and re.search(r"Vec::<T, A>::is_empty$", c[1]) and mentions(c, is_tag):
                        return tk
                    if c[0] == "un" and c[1] == "Not" and mentions(c, is_tag):
                        return ("neg", tk)
                return None
            ge, gp = empty_guard(ext[0][0]), empty_guard(psh[0][0])
            fitg = lambda bid: any(strip(c)[0] == "call" and strip(c)[1].endswith("FragmentTree::can_fit") and tk != 0 for c, tk, sw in guards(prog, ed, bid))
            if ge is not None and gp is not None and ge != gp and fitg(ext[0][0]) and fitg(psh[0][0]):
                # which side is the tag side?  extend must be on is_empty == false
                tag_side_ok = (ge == 0) or (isinstance(ge, tuple) and ge[0] == "neg" and ge[1] != 0)
                if tag_side_ok and mentions(ex.operand(ext[0][1]["args"][1]), is_tag):
                    run.ok("C16.L4", "a tag extends the class list and is not kept as text; non-tags are kept as enclosed text", where(ext[0][1]))
                else:
                    run.bad("C16.L4", "tag-branches-swapped", where(ext[0][1]), "the class list is extended on the branch where as_css_tag() is empty")
            else:
                run.bad("C16.L4", "tag-or-text", where(ext[0][1]),
                        "class-list extension and enclosed-text push are not the two exclusive branches of `as_css_tag().is_empty()` under can_fit (guards: %r / %r)" % (ge, gp))
        else:
            run.bad("C16.L4", "tag-shape", where(b), "expected one css_tag.extend and one enclosing.push in enclose_deep_first (found %d/%d)" % (len(ext), len(psh)))
    # ---------------- L5 "inside" = bounding box inside bounding box
    l5(run)
    # ---------------- L6 every parsed entry is kept, in order
    l6(run)
    # ---------------- L7 the box of a line-like shape
    chord_box_rule(run, "C16.L7")
    run.assume("the float comparisons of can_fit are exact on the values compared (no tolerance); what bounds() returns for each shape is C12's/C05's matter")


VEC_REWRITE = re.compile(r"Vec::<T, A>::(iter_mut|retain|retain_mut|dedup\w*|insert|remove|swap_remove|clear|truncate|pop|drain|split_off|resize\w*)$|"
                         r"<impl \[T\]>::(iter_mut|sort\w*|reverse|swap|rotate_\w+|fill\w*|last_mut|first_mut|get_mut)$|IndexMut<.*>>::index_mut$|DerefMut>::deref_mut$")


def l6(run):
    """L6 [N]: "every `name = {declarations}` entry ... yields the CSS rule ..., in order".  Between the legend parser and
    the rule template (L1) sits the list `CellBuffer.css_styles`: it is only ever *appended to* with all parsed entries
    (`extend(parsed)` or a loop pushing every item), never rewritten in place, de-duplicated, sorted or truncated."""
    prog = run.prog
    writers, appends = [], []
    for p in sorted(prog.bodies):
        if prog.bodies[p].get("crate") != "svgbob":
            continue
        ex = None
        for bid, t in prog.calls(p):
            if not t["args"]:
                continue
            ex = ex or Expr(prog, p)
            a0 = strip(ex.operand(t["args"][0]))
            tgt = a0
            while tgt[0] == "call" and re.search(r"Deref(Mut)?>::deref(_mut)?$", tgt[1]) and tgt[2]:
                tgt = strip(tgt[2][0])
            if tgt[0] not in ("param", "field") or tuple(tgt[2])[-1:] != ("css_styles",):
                continue
            n = Program.callee_name(t)
            if VEC_REWRITE.search(n):
                writers.append((p, t, n))
            elif re.search(r"Vec::<T, A>::append$", n) and len(t["args"]) == 2 and \
                    (lambda v: any(strip(a_)[0] == "param" and not strip(a_)[2] for a_ in (v[1] if v[0] == "phi" else [v])) and
                     all(strip(a_)[0] in ("param", "mutated_by") for a_ in (v[1] if v[0] == "phi" else [v])))(strip(ex.operand(t["args"][1]))):
                appends.append((p, t, n))   # `self.css_styles.append(&mut parsed)`: moves every entry over, in order
            elif re.search(r"Extend<.*>>::extend$|Vec::<T, A>::extend_from_slice$", n) and len(t["args"]) == 2:
                src = strip(ex.operand(t["args"][1]))
                whole = src[0] == "param" and not src[2] or (src[0] == "call" and re.search(r"into_iter$|::iter$|Clone>::clone$", src[1]) and strip(src[2][0])[0] == "param" and not strip(src[2][0])[2])
                (appends if whole else writers).append((p, t, n if whole else n + " of a derived collection"))
            elif re.search(r"Vec::<T, A>::push$", n) and len(t["args"]) == 2:
                from ..common import guards as _g
                gs = _g(prog, p, bid, direct=True)
                per_item = len(gs) == 1 and strip(gs[0][0])[0] == "discr" and mentions(gs[0][0], lambda z: z[0] == "call" and z[1].endswith("Iterator>::next")) and gs[0][1] == 1
                item = strip(ex.operand(t["args"][1]))
                of_param = mentions(item, lambda z: z[0] == "call" and z[1].endswith("Iterator>::next")) and mentions(item, lambda z: z[0] == "param" and z[1] >= 2 and not z[2])
                (appends if per_item and of_param else writers).append((p, t, n if per_item and of_param else n + " under a condition"))
    for p, t, n in writers:
        run.bad("C16.L6", "css-list-rewritten/%s" % short(p), where(t),
                "%s changes the stored legend entries with %s: an entry can be replaced, dropped or moved, so not every `name = {..}` yields its rule in order" % (short(p), short(n)))
    if appends and not writers:
        run.ok("C16.L6", "the parsed legend entries are only appended, all of them, in order (%d site(s))" % len(appends), where(appends[0][1]))
    elif not appends and not writers:
        run.missing("C16.L6", "the site that stores the parsed legend entries (css_styles)")


def l5(run):
    """`Fragment::can_fit(self, other)` is the statement's test "lies inside the bounding box of the shape": the four
    coordinate-wise comparisons between `self.bounds()` and `other.bounds()`, inclusive, and nothing else.  Decided as
    a boolean function over the comparisons the body branches on (helpers inlined except `bounds()` itself), so the
    order of the conjuncts, early returns or a helper in between do not matter; an inset, a tolerance or a shape-dependent
    variant of the box is not one of the four comparisons and is reported."""
    prog = run.prog
    fc = [p for p in prog.bodies if p.endswith("fragment::Fragment::can_fit")]
    tc = [p for p in prog.bodies if p.endswith("fragment_tree::FragmentTree::can_fit")]
    if len(fc) != 1 or len(tc) != 1:
        run.missing("C16.L5", "Fragment::can_fit / FragmentTree::can_fit")
        return
    r = [strip(simplify(x)) for x in Expr(prog, tc[0]).returns()]
    ok = len(r) == 1 and r[0][0] == "call" and r[0][1] == fc[0] and \
        [strip(a) for a in r[0][2]] == [("param", 1, ("fragment", "fragment")), ("param", 2, ("fragment", "fragment"))]
    if ok:
        run.ok("C16.L5", "FragmentTree::can_fit = self.fragment.can_fit(other.fragment)", where(prog.bodies[tc[0]]))
    else:
        run.bad("C16.L5", "tree-can-fit", where(prog.bodies[tc[0]]), "FragmentTree::can_fit is `%s`, not the shape's can_fit on the two fragments" % (expr_str(r[0])[:120] if r else "?"))

    def coord(e):
        """(who, corner, axis) when e is `bounds(param who).<corner>[.0 ..].<x|y>` through any Deref calls"""
        fields = []
        e = strip(e)
        for _ in range(12):
            if e[0] == "field":
                fields = list(e[2]) + fields
                e = strip(e[1])
            elif e[0] == "call" and re.search(r"Deref(<.*>)?>?::deref$|Deref for .*>::deref$", e[1]) and e[2]:
                e = strip(e[2][0])
            else:
                break
        if e[0] != "call" or not e[1].endswith("Bounds>::bounds") or len(e[2]) != 1:
            return None
        who = strip(e[2][0])
        if who[0] != "param" or who[1] not in (1, 2) or who[2] != ():
            return None
        if len(fields) < 2 or fields[0] not in ("0", "1") or fields[-1] not in ("x", "y") or any(f not in ("0", "coords") for f in fields[1:-1]):
            return None
        return (who[1], fields[0], fields[-1])

    FLIP = {"Le": "Ge", "Ge": "Le", "Lt": "Gt", "Gt": "Lt"}

    def atom(c):
        if c[0] != "bin" or c[1] not in FLIP:
            return None
        a, b = coord(c[2]), coord(c[3])
        if a is None or b is None or a[0] == b[0] or a[1:] != b[1:]:
            return None
        op = c[1]
        if a[0] == 2:
            a, b, op = b, a, FLIP[op]
        # the strict comparisons are the complements of the inclusive ones (coordinates are not NaN: C01.R5)
        if op == "Lt":
            return ("not", "Ge:%s.%s" % (a[1], a[2]))
        if op == "Gt":
            return ("not", "Le:%s.%s" % (a[1], a[2]))
        return "%s:%s.%s" % (op, a[1], a[2])

    atoms, table = bool_function(prog, fc[0], atom, keep=r"Bounds>::bounds$")
    want = ["Ge:1.x", "Ge:1.y", "Le:0.x", "Le:0.y"]
    if atoms is None:
        run.bad("C16.L5", "can-fit-not-box-containment", where(prog.bodies[fc[0]]),
                "Fragment::can_fit is not the coordinate-wise comparison of self.bounds() with other.bounds(): %s" % table)
    elif sorted(atoms) == want and all(v == all(k) for k, v in table.items()):
        run.ok("C16.L5", "Fragment::can_fit = self.bounds() contains other.bounds() (4 inclusive comparisons, conjunction)", where(prog.bodies[fc[0]]))
    else:
        run.bad("C16.L5", "can-fit-not-box-containment", where(prog.bodies[fc[0]]),
                "Fragment::can_fit decides on %s; expected the conjunction of self.tl.x <= other.tl.x, self.tl.y <= other.tl.y, self.br.x >= other.br.x, self.br.y >= other.br.y" % atoms)


run_flow = run



def l2_shape(run, cf, R="C16.L2"):
    """the original shape-based form of L2 (kept as fallback when the body is not loop-free)"""
    prog = run.prog
    ex = Expr(prog, cf)
    b = prog.bodies[cf]
    finds = [t for _, t in prog.calls(cf) if Program.callee_name(t).endswith("str::<impl str>::find")]
    legend_const = None
    for t in finds:
        a = strip(ex.operand(t["args"][1]))
        if a[0] == "const":
            legend_const = a[2]
    if legend_const == "# Legend:":
        run.ok(R, "legend starts at input.find(\"# Legend:\")", where(finds[0]))
    else:
        run.bad(R, "legend-marker", where(b), "the legend marker searched for is %r" % (legend_const,))
    is_find = lambda z: z[0] == "call" and z[1].endswith("str::<impl str>::find")
    sb_calls = [(bid, t) for bid, t in prog.calls(cf) if re.search(r"StringBuffer as core::convert::From<&str>>::from$", Program.callee_name(t))]
    parse_calls = [(bid, t) for bid, t in prog.calls(cf) if Program.callee_name(t).endswith("parser::parse_css_legend")]
    # the parse may sit in a closure handed to a combinator on the find result:
    # `input.find(..).and_then(|loc| parse_css_legend(&input[loc..]).ok().map(|css| (loc, css)))`
    closure_parse = None
    if not parse_calls:
        for q in prog.closures_of(cf):
            for cbid, ct in prog.calls(q):
                if Program.callee_name(ct).endswith("parser::parse_css_legend"):
                    for bid, t in prog.calls(cf):
                        for a in t["args"]:
                            cl_, caps_ = closure_of(strip(ex.operand(a)))
                            if cl_ == q and re.search(r"Option::<T>::(and_then|map)$", Program.callee_name(t)):
                                recv = ex.operand(t["args"][0])
                                payload = ("field", recv, ("@Some", "0"))
                                closure_parse = (bid, t, subst_closure(Expr(prog, q).operand(ct["args"][0]), caps_, (payload,)))
        if closure_parse:
            parse_calls = [(closure_parse[0], closure_parse[1])]
    add_calls = [(bid, t) for bid, t in prog.calls(cf) if Program.callee_name(t).endswith("CellBuffer::add_css_styles")]
    cut, whole = [], []
    for bid, t in sb_calls:
        a = strip(ex.operand(t["args"][0]))
        if a == ("param", 1, ()):
            whole.append((bid, t))
        elif a[0] == "call" and "Index" in a[1] and strip(a[2][0]) == ("param", 1, ()):
            rng = strip(a[2][1])
            if rng[0] == "agg" and str(rng[1]).endswith("RangeTo") and mentions(rng, is_find):
                cut.append((bid, t))
    if len(cut) == 1 and len(whole) == 1 and len(sb_calls) == 2:
        run.ok(R, "drawing input is input[..legend_start] when the legend parses, the whole input otherwise", where(cut[0][1]))
    else:
        run.bad(R, "legend-cut", where(b), "expected one StringBuffer::from(&input[..loc]) and one StringBuffer::from(input); found %d cut / %d whole / %d total" % (
            len(cut), len(whole), len(sb_calls)))
    # the cut branch is taken exactly when parse_css_legend returned Ok, and its entries are added
    if len(parse_calls) == 1 and len(add_calls) == 1:
        pa = strip(closure_parse[2]) if closure_parse else strip(ex.operand(parse_calls[0][1]["args"][0]))
        if pa[0] == "call" and "Index" in pa[1] and str(strip(pa[2][1])[1]).endswith("RangeFrom") and mentions(pa, is_find):
            run.ok(R, "legend parser receives input[legend_start..]", where(parse_calls[0][1]))
        else:
            run.bad(R, "legend-parse-input", where(parse_calls[0][1]), "parse_css_legend receives %s" % expr_str(pa)[:100])
        aa = ex.operand(add_calls[0][1]["args"][1])
        if mentions_deep(prog, aa, lambda z: z[0] == "call" and z[1].endswith("parser::parse_css_legend")):
            run.ok(R, "parsed entries become the css styles", where(add_calls[0][1]))
        else:
            run.bad(R, "legend-entries-dropped", where(add_calls[0][1]), "add_css_styles does not receive the parse result")
        if cut:
            gs = guards(prog, cf, cut[0][0])
            on_ok = any(mentions_deep(prog, c, lambda z: z[0] == "call" and z[1].endswith("parser::parse_css_legend")) for c, tk, sw in gs)
            if on_ok:
                run.ok(R, "the cut is control-dependent on the legend parse result", where(cut[0][1]))
            else:
                run.bad(R, "legend-cut-unconditional", where(cut[0][1]), "the input is cut at `# Legend:` without regard to the parse result")
    else:
        run.bad(R, "legend-parse-shape", where(b), "expected one parse_css_legend and one add_css_styles call (found %d / %d)" % (len(parse_calls), len(add_calls)))



def l2_combinator(run, cf, R="C16.L2"):
    """L2 when the decision sits in a closure handed to `Option::and_then`:
    `let legend = input.find("# Legend:").and_then(|loc| { let css = parse_css_legend(&input[loc..]).ok()?; Some((loc, css)) });`
    followed by one construction fed by `match legend { Some((loc, css)) => (&input[..loc], css), None => (input, vec![]) }`.
    Decided on the two paths of From<&str> and the paths of the closure.  Returns True if this is the form (verdict given)."""
    from ..mirlib import paths as mir_paths
    prog = run.prog
    b = prog.bodies[cf]
    ps = mir_paths(prog, cf, with_calls=True)
    if not ps or len(ps) != 2:
        return False
    sel = None
    for conds, ret, calls in ps:
        for c, tk in conds:
            c = strip(c)
            if c[0] == "discr" and strip(c[1])[0] == "call" and re.search(r"Option::<T>::and_then$", strip(c[1])[1]):
                sel = strip(c[1])
    if sel is None:
        return False
    recv, clv = strip(sel[2][0]), strip(sel[2][1])
    cl, caps = closure_of(clv)
    problems = []
    if not (recv[0] == "call" and recv[1].endswith("str::<impl str>::find") and strip(recv[2][0]) == ("param", 1, ()) and strip(recv[2][1]) == ("const", "str", "# Legend:")):
        problems.append("the legend is not located by input.find(\"# Legend:\")")
    if cl not in prog.bodies or not all(strip(v) == ("param", 1, ()) for v in caps.values()):
        problems.append("the and_then closure captures something else than the input")
    else:
        cps = mir_paths(prog, cl) or []
        somes = 0
        for conds, ret in cps:
            r = strip(simplify(ret))
            parse_ok = None
            for c, tk in conds:
                c = strip(c)
                if c[0] == "discr" and mentions(c, lambda z: z[0] == "call" and z[1].endswith("parser::parse_css_legend")):
                    inner = strip(c[1])
                    via_branch = inner[0] == "call" and inner[1].endswith("Try>::branch")
                    truth = (tk == 0) if via_branch else (tk == (1 if mentions(inner, lambda z: z[0] == "call" and re.search(r"Result::<T, E>::ok$", z[1])) else 0))
                    parse_ok = truth
            if r[0] == "agg" and r[2] == "Some":
                somes += 1
                t_ = strip(r[3][0][1])
                if parse_ok is not True:
                    problems.append("the closure returns Some although the legend did not parse")
                elif not (t_[0] == "agg" and len(t_[3]) == 2 and strip(t_[3][0][1]) == ("param", 2, ()) and mentions(t_[3][1][1], lambda z: z[0] == "call" and z[1].endswith("parser::parse_css_legend"))):
                    problems.append("the closure does not return (loc, parsed entries)")
                else:
                    pcs = []
                    mentions(t_[3][1][1], lambda z: z[0] == "call" and z[1].endswith("parser::parse_css_legend") and pcs.append(z) and False)
                    pa = strip(pcs[0][2][0])
                    if not (pa[0] == "call" and re.search(r"ops::index::Index<.*::index$", pa[1]) and mentions(pa[2][1], lambda z: z[0] == "agg" and str(z[1]).endswith("RangeFrom") and strip(dict(z[3])["start"]) == ("param", 2, ()))):
                        problems.append("parse_css_legend does not receive input[loc..]")
            elif not ((r[0] == "agg" and r[2] == "None") or (r[0] == "call" and "from_residual" in r[1])):
                problems.append("the closure returns `%s`" % expr_str(r)[:60])
        if somes != 1:
            problems.append("the closure has %d Some results" % somes)
    seen = set()
    for conds, ret, calls in ps:
        st = None
        for c, tk in conds:
            c = strip(c)
            if c[0] == "discr" and strip(c[1]) == sel:
                st = "some" if tk == 1 else "none"
        sbs = [c for c in calls if re.search(r"StringBuffer as core::convert::From<&str>>::from$", c[1])]
        adds = [c for c in calls if c[1].endswith("CellBuffer::add_css_styles")]
        if st is None or len(sbs) != 1:
            problems.append("a path builds %d string buffers" % len(sbs))
            continue
        seen.add(st)
        src = strip(simplify(sbs[0][2][0]))
        sty = strip(simplify(adds[0][2][1])) if adds else None
        if st == "some":
            cut_ok = src[0] == "call" and re.search(r"ops::index::Index<.*::index$", src[1]) and strip(src[2][0]) == ("param", 1, ()) and \
                mentions(src[2][1], lambda z: z[0] == "agg" and str(z[1]).endswith("RangeTo") and mentions(z, lambda y: y[0] == "field" and strip(y[1]) == sel and tuple(y[2])[-3:] == ("@Some", "0", "0")))
            sty_ok = sty is not None and sty[0] == "field" and strip(sty[1]) == sel and tuple(sty[2])[-3:] == ("@Some", "0", "1")
            if not cut_ok:
                problems.append("with a legend the drawing is `%s`, not input[..loc]" % expr_str(src)[:60])
            if not sty_ok:
                problems.append("the styles added are `%s`, not the parsed entries" % (expr_str(sty)[:60] if sty else "none"))
        else:
            if src != ("param", 1, ()):
                problems.append("without a legend the drawing is `%s`, not the whole input" % expr_str(src)[:60])
            if sty is not None and not (sty[0] == "call" and re.search(r"Vec::<T>::new$", sty[1])) and not (sty[0] == "agg" and not sty[3]):
                problems.append("without a legend `%s` is added as styles" % expr_str(sty)[:60])
    if seen != {"some", "none"}:
        problems.append("the two outcomes of the legend search are not both handled")
    if problems:
        # not (a correct instance of) this form: the other two recognisers decide; if they cannot either, they report
        run.note("%s: and_then form of the legend decision not established: %s" % (R, "; ".join(sorted(set(problems)))[:300]))
        return False
    run.ok(R, "legend (combinator form): input.find(marker).and_then(parse ok -> (loc, entries)); Some -> input[..loc] drawn + entries added, None -> whole input", where(b))
    return True


def l2_paths(run, cf, R="C16.L2"):
    """L2 decided on the feasible paths of From<&str>: (1) no `# Legend:` -> the whole input is drawn; (2) marker found and
    the legend parses -> input[..marker] is drawn and the parsed entries are added; (3) marker found but the legend does
    not parse -> the whole input is drawn and nothing is added.  Returns True if it reached a verdict."""
    from ..mirlib import paths as mir_paths
    prog = run.prog
    prog.inline_single_use_helpers(cf, allow_option=True, same_file=True, skip=r"::(escape_line|add_css_styles)$")
    ps = mir_paths(prog, cf, with_calls=True)
    if not ps:
        return False
    is_find = lambda z: z[0] == "call" and z[1].endswith("str::<impl str>::find")
    is_parse = lambda z: z[0] == "call" and z[1].endswith("parser::parse_css_legend")

    def state(conds, pred):
        st = None
        for c, tk in conds:
            c = strip(c)
            if c[0] != "discr" or not mentions(c, pred):
                continue
            inner = strip(c[1])
            via_branch = inner[0] == "call" and inner[1].endswith("Try>::branch")
            target = strip(inner[2][0]) if via_branch else inner
            through_ok = False
            while target[0] == "call" and re.search(r"Result::<T, E>::ok$", target[1]) and target[2]:
                target = strip(target[2][0])
                through_ok = True
            if not pred(target):
                continue
            one = tk in (1, ("not", (0,)))
            zero = tk in (0, ("not", (1,)))
            if via_branch:
                st = "yes" if zero else "no" if one else st     # Continue = present / Ok
            elif pred is is_find:
                st = "yes" if one else "no" if zero else st     # Option: Some = 1
            elif through_ok:
                st = "yes" if one else "no" if zero else st     # .ok(): Some = 1
            else:
                st = "yes" if zero else "no" if one else st     # Result: Ok = 0
        return st

    marker = set()
    n_legend = n_plain = 0
    problems = []
    for conds, ret, calls in ps:
        f, pz = state(conds, is_find), state(conds, is_parse)
        for c in calls:
            if is_find(c) and len(c[2]) == 2 and strip(c[2][1])[0] == "const":
                marker.add(strip(c[2][1])[2])
        sbs = [c for c in calls if re.search(r"StringBuffer as core::convert::From<&str>>::from$", c[1])]
        adds = [c for c in calls if c[1].endswith("CellBuffer::add_css_styles")]
        if len(sbs) != 1:
            problems.append("a path draws %d texts" % len(sbs))
            continue
        drawn = strip(simplify(sbs[0][2][0]))
        while drawn[0] == "call" and re.search(r"[dD]eref>?::deref$|::as_str$|::as_ref$|::borrow$", drawn[1]) and drawn[2]:
            drawn = strip(drawn[2][0])
        whole = drawn == ("param", 1, ())
        loc_ok = lambda e: mentions(e, lambda z: z[0] == "field" and "@Some" in z[2] and is_find(strip(z[1])) and strip(strip(z[1])[2][0]) == ("param", 1, ()))
        cut = (drawn[0] == "call" and "Index" in drawn[1] and strip(drawn[2][0]) == ("param", 1, ()) and strip(drawn[2][1])[0] == "agg" and
               str(strip(drawn[2][1])[1]).endswith("RangeTo") and loc_ok(drawn[2][1])) or \
              (drawn[0] == "field" and tuple(drawn[2])[-1:] == ("0",) and strip(drawn[1])[0] == "call" and strip(drawn[1])[1].endswith("str::<impl str>::split_at") and
               strip(strip(drawn[1])[2][0]) == ("param", 1, ()) and loc_ok(strip(drawn[1])[2][1]))
        parsed_added = any(mentions(a[2][1], is_parse) for a in adds if len(a[2]) == 2)
        # (a path that adds a value without the parse result, e.g. an empty vec, adds nothing)
        legend_path = f == "yes" and pz == "yes"
        if legend_path:
            n_legend += 1
            # the parser got the text from the marker on
            pcs = [c for c in calls if is_parse(c)]
            parg = strip(simplify(pcs[0][2][0])) if pcs else ("unknown",)
            from_marker = (parg[0] == "call" and "Index" in parg[1] and strip(parg[2][0]) == ("param", 1, ()) and str(strip(parg[2][1])[1]).endswith("RangeFrom") and loc_ok(parg[2][1])) or \
                (parg[0] == "field" and tuple(parg[2])[-1:] == ("1",) and strip(parg[1])[0] == "call" and strip(parg[1])[1].endswith("str::<impl str>::split_at") and loc_ok(strip(parg[1])[2][1]))
            if not cut:
                problems.append("with a well-formed legend the text drawn is `%s`, not the input up to the marker" % expr_str(drawn)[:80])
            if not parsed_added:
                problems.append("with a well-formed legend the parsed entries are not added to the css styles")
            if not from_marker:
                problems.append("the legend parser receives `%s`, not the input from the marker on" % expr_str(parg)[:80])
        else:
            n_plain += 1
            if not whole:
                problems.append("without a (well-formed) legend (marker %s, parse %s) the text drawn is `%s`, not the whole input" % (f, pz, expr_str(drawn)[:80]))
            if parsed_added:
                problems.append("css entries are added on a path where the legend did not parse")
    if marker != {"# Legend:"}:
        problems.append("the legend marker searched for is %r" % sorted(marker))
    if n_legend < 1 or n_plain < 2:
        problems.append("expected the three cases no marker / legend parses / legend does not parse, found %d legend and %d plain paths" % (n_legend, n_plain))
    b = prog.bodies[cf]
    if n_legend == 0:
        return False   # the legend path is not visible at this level (e.g. inside a combinator closure): shape rule decides
    if problems:
        run.bad(R, "legend-cut", where(b), "; ".join(sorted(set(problems)))[:400])
    else:
        run.ok(R, "legend starts at input.find(\"# Legend:\")", where(b))
        run.ok(R, "drawing input is input[..legend_start] when the legend parses, the whole input otherwise (3 feasible paths)", where(b))
        run.ok(R, "legend parser receives input[legend_start..]; parsed entries become the css styles", where(b))
        run.ok(R, "the cut is control-dependent on the legend parse result", where(b))
    return True

def thorough(run):
    """bounded-exhaustive comparison of the extracted identifier / tag / legend-entry grammars with the language the
    statement describes, over every string up to length 5 (tags, entries: 6) on an alphabet that contains one
    representative of every character class the grammars distinguish"""
    import itertools
    g, mod, gfile = load_parser_module(run)
    if g is None:
        run.missing("C16.L3", "util::parser")
        return
    ID = r"[A-Za-z_][A-Za-z0-9_]*"
    refs = {
        "ident": (re.compile(r"^(%s)" % ID), lambda m: m.group(1), "aZ1_- {", 5),
        # `{}` is accepted with zero classes and stays ordinary text downstream (L4)
        "tag_classes": (re.compile(r"^\{((?:%s(?:,%s)*)?)\}" % (ID, ID)), lambda m: m.group(1).split(",") if m.group(1) else [], "a1_,{} .", 6),
        "class_and_style": (re.compile(r"^(%s)[ \t]*=[ \t]*\{([^{}]*)\}" % ID), lambda m: (m.group(1), m.group(2)), "a1= {}\t;", 6),
    }
    for gname, (rx, outf, sigma, maxlen) in refs.items():
        if gname not in g.fns:
            run.missing("C16.L3", "grammar " + gname)
            continue
        n = 0
        bad = None
        for L in range(0, maxlen + 1):
            for tup in itertools.product(sigma, repeat=L):
                text = "".join(tup)
                n += 1
                try:
                    ok, pos, out = g.parse(gname, text)
                except (GrammarError, Unknown) as ex:
                    bad = (text, "uninterpretable: %s" % ex)
                    break
                m = rx.match(text)
                want_ok = m is not None
                if ok != want_ok:
                    bad = (text, "%s, the statement's language %s it" % ("accepts -> %r" % (out,) if ok else "rejects", "contains" if want_ok else "does not contain"))
                    break
                if ok:
                    want = outf(m)
                    got = tuple(out) if isinstance(want, tuple) else out
                    if got != want:
                        bad = (text, "yields %r, expected %r" % (out, want))
                        break
            if bad:
                break
        if bad:
            run.bad("C16.L3", "grammar-language/%s" % gname, gfile, "grammar `%s` on %r: %s (bounded-exhaustive comparison)" % (gname, bad[0], bad[1]))
        else:
            run.ok("C16.L3", "grammar `%s` agrees with the statement's language on all %d strings over %r up to length %d" % (gname, n, sigma, maxlen), gfile)



def chord_box_rule(run, rule):
    """The box used for "inside" (L5) and for grouping is, for the two line-like shapes, spanned by the end points alone:
    `Bounds for Line` and `Bounds for Arc` read `start` and `end` and nothing else (helpers inlined).  A box that also
    depends on the radius or a computed centre reaches into cells the arc never touches: a tag or a neighbouring drawing
    there would be claimed by the arc (shared with C10: far-away drawings must not influence each other)."""
    prog = run.prog
    for ty in ("line::Line", "arc::Arc"):
        ps = [p for p in prog.bodies if re.search(r"<svgbob::[\w:]*%s as svgbob::[\w:]*Bounds>::bounds$" % re.escape(ty), p)]
        if len(ps) != 1:
            run.missing(rule, "Bounds for %s" % ty.split("::")[-1])
            continue
        used = set()
        for r in Expr(prog, ps[0]).returns():
            r = simplify(inline_calls(prog, r, depth=3))
            mentions(r, lambda z: z[0] == "param" and z[1] == 1 and z[2] and used.add(z[2][0]) and False)
            mentions(r, lambda z: z[0] == "param" and z[1] == 1 and not z[2] and used.add("<whole value>") and False)
        if used == {"start", "end"}:
            run.ok(rule, "%s::bounds is spanned by start and end only" % ty.split("::")[-1], where(prog.bodies[ps[0]]))
        else:
            run.bad(rule, "bounds-beyond-endpoints/%s" % ty.split("::")[-1], where(prog.bodies[ps[0]]),
                    "%s::bounds depends on %s: the box can reach into cells the shape does not touch, so text or tags of another drawing that lie there are treated as enclosed by it" % (ty.split("::")[-1], sorted(used)))
