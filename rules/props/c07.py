"""C07 (determinism / statelessness) — sufficient structural argument D1-D5, decided on the MIR of
every body reachable from the library entry points, the CLI and the server handlers:
D1 no user-written unsafe; D2 every static is immutable, not thread-local, and either Freeze or a
sync Lazy/OnceLock whose payload (through workspace ADTs and closure captures) contains no
interior-mutability type; D3 no ambient-state API (env, clock, fs, net, pid, thread id, rand,
pointer->integer casts, {:p}) on the conversion path; D4 every iteration over a RandomState-hashed
container is order-neutralised (keyed writes into an ordered map, nothing else escapes the loop);
D5 hash lookups are unrestricted.  Conclusion: the returned bytes are a function of the arguments
and of process-constant tables.  Not decided: determinism of dependencies (sauron, parry2d, pom)."""
import re

from ..common import lib_reachable, short, type_paths, where
from ..mirlib import Program, op_const, op_place

INTERIOR = re.compile(
    r"^(core|std)::cell::|^(std|core)::sync::(atomic|Mutex|RwLock|Condvar|mpsc|OnceLock|LazyLock|poison|mutex|rwlock|once_lock|lazy_lock|once)|"
    r"^core::sync::atomic|^once_cell::|^parking_lot|^std::thread::|^lazy_static|^std::rc::|^alloc::rc::|^tokio::sync")
LAZY_OK = re.compile(r"^(?:once_cell::sync::Lazy|once_cell::sync::OnceCell|std::sync::(?:lazy_lock::)?LazyLock|std::sync::(?:once_lock::)?OnceLock)<(?P<payload>.*)>$")

AMBIENT = re.compile(
    r"^std::env::|^std::time::|^std::fs::|^std::net::|^std::process::id|^std::thread::|^rand|^getrandom|"
    r"^std::hash::random::RandomState::new|^std::io::stdin|^std::os::|^core::fmt::Pointer|"
    r"^std::collections::hash::map::RandomState|^std::sys::|^tokio::time|^std::path::Path::(exists|is_file|is_dir|metadata)|"
    r"^core::fmt::rt::Argument::<'_>::new_pointer|^std::ptr::addr|^core::ptr::.*::(addr|expose_provenance)$")

HASH_TY = re.compile(r"std::collections::hash::(map::HashMap|set::HashSet)<")
HASH_ITER_METHOD = re.compile(
    r"^std::collections::hash::(map::HashMap|set::HashSet)::<.*>::"
    r"(iter|iter_mut|keys|values|values_mut|into_keys|into_values|drain|retain|extract_if|"
    r"difference|symmetric_difference|intersection|union)$")
ORDERED_MAP = re.compile(r"^alloc::collections::btree::map::BTreeMap<|^indexmap::map::IndexMap<")


def payload_problems(prog, ty, seen=None, trail=()):
    """interior-mutability types reachable from a type string through workspace ADTs"""
    seen = seen if seen is not None else set()
    probs = []
    for p in sorted(type_paths(ty)):
        if INTERIOR.search(p):
            probs.append((p, trail))
        if p in prog.adts and p not in seen:
            seen.add(p)
            for v in prog.adts[p]["variants"]:
                for f in v["fields"]:
                    probs += payload_problems(prog, f["ty"], seen, trail + ("%s.%s" % (short(p), f["name"]),))
    return probs


def run(run):
    prog = run.prog
    roots, reach = lib_reachable(run, "C07", ("lib", "cli", "server"))
    run.record("entry_points", roots)
    run.record("reachable_bodies", len(reach))
    run.floor("C07", "reachable_bodies", len(reach), 300)

    # ---------------- D1 unsafe
    user_unsafe = [u for u in prog.unsafe_blocks if u["source"] != "CompilerGenerated"]
    for u in user_unsafe:
        run.bad("C07.D1", "unsafe-block/%s" % short(u["owner"]), where(u), "user-written unsafe block in %s" % u["owner"])
    for u in prog.unsafe_items:
        if not (u["span"] or {}).get("exp"):
            run.bad("C07.D1", "unsafe-impl/%s" % where(u).split(":")[0], where(u), "hand-written unsafe impl")
    n_unsafe_fn = 0
    for p, b in prog.bodies.items():
        if b.get("unsafe_fn"):
            n_unsafe_fn += 1
            run.bad("C07.D1", "unsafe-fn/%s" % short(p), where(b), "unsafe fn %s" % p)
    run.ok("C07.D1", "unsafe census: %d compiler-generated (format_args) blocks ignored, 0 user blocks, %d unsafe fns"
           % (len(prog.unsafe_blocks) - len(user_unsafe), n_unsafe_fn), nontrivial=False)

    # ---------------- D2 statics
    nstat = 0
    for p, s in sorted(prog.statics.items()):
        nstat += 1
        inst = "static " + short(p)
        if s["mutable"]:
            run.bad("C07.D2", "static-mut/%s" % short(p), where(s), "static mut %s: shared mutable state" % p)
            continue
        if s["thread_local"]:
            run.bad("C07.D2", "thread-local/%s" % short(p), where(s), "thread_local static %s" % p)
            continue
        ty = s["ty"]
        if s["freeze"]:
            run.ok("C07.D2", inst, where(s), "immutable, Freeze (%s)" % ty[:60], nontrivial=False)
            continue
        m = LAZY_OK.match(ty)
        if not m:
            run.bad("C07.D2", "static-interior-mutability/%s" % short(p), where(s),
                    "static %s: type %s is not Freeze and is not a recognised sync lazy cell" % (p, ty))
            continue
        probs = payload_problems(prog, m.group("payload"))
        if probs:
            for bad_ty, trail in probs[:3]:
                run.bad("C07.D2", "static-payload/%s/%s" % (short(p), bad_ty), where(s),
                        "static %s: payload contains interior-mutability type %s via %s" % (p, bad_ty, " > ".join(trail) or "type"))
        else:
            run.ok("C07.D2", inst, where(s), "sync lazy cell, payload free of interior mutability")
    run.floor("C07.D2", "statics", nstat, 8)
    # closures stored in tables: capture types
    ncl = 0
    for p in sorted(reach):
        b = prog.bodies[p]
        for blk in b["blocks"]:
            for st in blk["stmts"]:
                rv = st.get("rv")
                if not rv or rv.get("k") != "agg" or rv.get("agg") != "closure":
                    continue
                ncl += 1
                for op in rv["ops"]:
                    pl = op_place(op)
                    if pl is None:
                        continue
                    ty = b["locals"][pl["l"]]["ty"]
                    for pr in pl["p"]:
                        if isinstance(pr, dict) and "ty" in pr:
                            ty = pr["ty"]
                    probs = payload_problems(prog, ty)
                    for bad_ty, trail in probs[:1]:
                        run.bad("C07.D2", "closure-capture/%s/%s" % (short(rv["closure"]), bad_ty), where(st),
                                "closure %s captures %s (interior mutability)" % (rv["closure"], ty))
    run.ok("C07.D2", "closure captures: %d closure creations in reachable bodies inspected" % ncl)
    # thread-local refs
    for p in sorted(reach):
        for blk in prog.bodies[p]["blocks"]:
            for st in blk["stmts"]:
                rv = st.get("rv")
                if rv and rv.get("k") == "tlsref":
                    run.bad("C07.D2", "tls-ref/%s" % short(p), where(st), "thread-local access in %s" % p)

    # ---------------- D3 ambient APIs (library + server handler path; the CLI's own fs/stdin use is its job)
    lib_roots, lib_reach = lib_reachable(run, "C07.D3", ("lib",))
    srv = prog.reachable([r for r in roots if r.startswith("svgbob_server::") and not r.endswith("::main")])
    scope = set(lib_reach) | {p for p in srv if p in prog.bodies}
    ncalls = 0
    for p in sorted(scope):
        b = prog.bodies[p]
        for bid, t in prog.calls(p):
            ncalls += 1
            for name in {t["callee"].get("path"), t["callee"].get("resolved")} - {None}:
                if AMBIENT.search(name):
                    run.bad("C07.D3", "ambient-api/%s/%s" % (short(p), name), where(t),
                            "%s calls ambient-state API %s (reached via %s)" % (p, name, " -> ".join(short(x) for x in prog.path_to(p)[-4:])))
        for _, st, op in prog.all_operands(p):
            c = op_const(op)
            if c and c.get("fn") and AMBIENT.search(c["fn"]):
                run.bad("C07.D3", "ambient-api/%s/%s" % (short(p), c["fn"]), where(st), "%s references ambient-state API %s" % (p, c["fn"]))
        for blk in b["blocks"]:
            for st in blk["stmts"]:
                rv = st.get("rv")
                if rv and rv.get("k") == "cast" and re.search(r"PointerExposeProvenance|PointerWithExposedProvenance", rv.get("cast", "")):
                    if not (st.get("span") or {}).get("exp"):
                        run.bad("C07.D3", "ptr-int-cast/%s" % short(p), where(st), "pointer<->integer cast in %s" % p)
    run.ok("C07.D3", "ambient API census over %d bodies / %d call sites" % (len(scope), ncalls))
    run.floor("C07.D3", "call_sites", ncalls, 2000)

    # ---------------- D4 hash-ordered iteration
    sites = []
    for p in sorted(reach):
        for bid, t in prog.calls(p):
            c = t["callee"]
            decl = c.get("path") or ""
            res = c.get("resolved") or ""
            g0 = (c.get("generics") or [""])[0]
            hit = False
            if HASH_ITER_METHOD.search(decl) or HASH_ITER_METHOD.search(res):
                hit = True
            elif decl.endswith("IntoIterator::into_iter") and HASH_TY.search(g0):
                hit = True
            elif re.search(r"Iterator::(next|for_each|fold|map|collect)", decl) and re.search(r"^std::collections::hash::(map|set)::(Iter|IntoIter|Keys|Values|Drain)", g0):
                hit = False  # the consumer of an iterator already counted at its creation
            if hit:
                sites.append((p, bid, t))
    run.record("hash_iteration_sites", [(short(p), where(t)) for p, _, t in sites])
    for p, bid, t in sites:
        ok, why = neutralised(prog, p, bid, t)
        if ok:
            run.ok("C07.D4", "hash iteration in %s" % short(p), where(t), why)
        else:
            run.bad("C07.D4", "hash-order-escapes/%s" % short(p), where(t),
                    "iteration over a RandomState-hashed container in %s is not order-neutralised: %s" % (p, why))
    run.floor("C07.D4", "hash_iteration_sites", len(sites), 1)
    # ordered containers that carry the pipeline: their payload type must stay ordered
    for adt, need in (("svgbob::buffer::fragment_buffer::FragmentBuffer", ORDERED_MAP),
                      ("svgbob::buffer::cell_buffer::CellBuffer", ORDERED_MAP)):
        a = prog.adts.get(adt)
        if not a:
            run.missing("C07.D4", "ADT " + adt)
            continue
        f0 = a["variants"][0]["fields"][0]
        if need.search(f0["ty"]):
            run.ok("C07.D4", "%s.%s is an ordered map" % (short(adt), f0["name"]), where(a), f0["ty"][:70], nontrivial=False)
        else:
            run.bad("C07.D4", "unordered-pipeline-container/%s" % short(adt), where(a),
                    "%s.%s has type %s; its iteration order feeds merging and output order" % (adt, f0["name"], f0["ty"]))

    run.assume("dependencies (sauron, parry2d, nalgebra, pom, unicode-width, itertools, indexmap) are deterministic")
    run.assume("default feature set; cfg(test) code excluded")


run_flow = run
FIXTURE_EXPECT = ["unsafe-block/", "static-mut/", "thread-local/", "static-interior-mutability/", "ambient-api/", "hash-order-escapes/"]


def neutralised(prog, p, bid, t):
    """the only accepted shape: `for (k, v) in &hash { ... ordered.keyed_insert(k, ..) ... }`:
    the iterator value flows only into Iterator::next, and every call in the body that receives a
    `&mut` is either that `next` or a method of a workspace type wrapping an ordered map that also
    receives a key-typed argument derived from the iteration item."""
    b = prog.bodies[p]
    sl = prog.slicer(p)
    it_local = t["dst"]["l"]
    # uses of the iterator local (and of locals it is moved to)
    aliases = {it_local}
    changed = True
    while changed:
        changed = False
        for blk in b["blocks"]:
            for st in blk["stmts"]:
                rv = st.get("rv")
                if not rv:
                    continue
                srcs = [op_place(o) for o in rv.get("ops", [])] + ([rv["place"]] if "place" in rv else [])
                if any(s is not None and s["l"] in aliases for s in srcs):
                    if st["dst"]["l"] not in aliases:
                        aliases.add(st["dst"]["l"])
                        changed = True
    item_locals = set()
    for bid2, t2 in prog.calls(p):
        uses = [op_place(o) for o in t2["args"]]
        if any(u is not None and u["l"] in aliases for u in uses):
            name = t2["callee"].get("path") or ""
            if bid2 == bid:
                continue
            if name.endswith("Iterator::next") or name.endswith("IntoIterator::into_iter"):
                if name.endswith("IntoIterator::into_iter"):
                    aliases.add(t2["dst"]["l"])
                else:
                    item_locals.add(t2["dst"]["l"])
                continue
            return False, "the hash iterator flows into %s (order escapes through an adaptor/collector)" % name
    # every &mut-taking call
    for bid2, t2 in prog.calls(p):
        muts = [i for i, ty in enumerate(t2.get("arg_tys", [])) if ty.startswith("&mut")]
        if not muts:
            continue
        name = Program.callee_name(t2)
        if name.endswith("Iterator>::next") or (t2["callee"].get("path") or "").endswith("Iterator::next"):
            continue
        recv_ty = t2["arg_tys"][muts[0]][5:].strip()
        adt = prog.adts.get(recv_ty.split("<")[0])
        if adt is None:
            return False, "call %s mutates %s, which is not a workspace ordered-map wrapper" % (short(name), recv_ty)
        f0 = adt["variants"][0]["fields"][0]["ty"] if adt["variants"] and adt["variants"][0]["fields"] else ""
        if not ORDERED_MAP.search(f0):
            return False, "call %s mutates %s whose storage %s is not an ordered map" % (short(name), recv_ty, f0[:50])
        # a key argument derived from the iteration item
        keyed = False
        for op in t2["args"][1:]:
            o = sl.slice_operand(op)
            if any(x[0] == "call" and x[1].endswith("Iterator>::next") for x in o):
                keyed = True
        if not keyed:
            return False, "call %s is not keyed by the iteration item" % short(name)
    return True, "loop body only performs keyed inserts into an ordered map (BTreeMap); iterator consumed by `for`"
