"""C14 (arrowheads, bullets, rounded corners) — table clause decided by table abstract evaluation:
T0 model conformance; T1 arrows: for every behaviour entry and glyph with an arrow-tagged polygon, the
polygon is filled, the tag points away from every neighbour the condition positively tests, the vertex
farthest along that direction (the tip) lies exactly on the axis of the tested neighbour's segment,
the other vertices lie strictly on both sides of it, and the entry's stub line ends before the tip
(exact rationals; all eight directions; ASCII and Unicode triangles); T2 bullets: the circle literals
of `*`, `o`, `O` map through the thresholds of Line::merge_circle (read from the source and folded) to
the documented marker kinds filled / open / big open; every marker variant constructed in reachable
code has a Display string with `.start_marked_<s>` / `.end_marked_<s>` CSS rules whose url(#id)
names a <marker id> emitted by get_defs; the class templates of the marker line use the same
prefixes; the marked end is the circle's centre; T3 corners: for every entry whose arc is tested
against two non-opposite neighbours, the arc's end points coincide with end points of the entry's
lines or lie on the tested neighbours' cells, and the arc's centre (SVG end-point semantics with
Arc::new's normalisation) lies on the inner side of the corner, at the axis-aligned corner for
axis-parallel neighbours; T4 continuity: the table is evaluated cell by cell on rounded outlines of every corner
style (widths 1..4 x side rows 0..3 exhaust the 3x3 neighbourhoods of all sizes): no outline cell falls back to
text and every fragment end meets another fragment.  Not decided: the merge of polygon + line into one marker line at run
time, catalogue arcs of big circles."""
import math
import re
from fractions import Fraction

from .. import tae_conf
from ..common import find_nodes, lib_reachable, short, src_file, src_fn, where
from ..exprs import closure_of, format_parts, mentions, strip
from ..mirlib import Expr, Program, expr_str
from ..tae import DIRS, DIR_OFF, TableError, Tables, arc_geometry, on_segment

F = Fraction
TAG_DIR = {"ArrowTop": (0, -1), "ArrowBottom": (0, 1), "ArrowLeft": (-1, 0), "ArrowRight": (1, 0),
           "ArrowTopLeft": (-1, -1), "ArrowTopRight": (1, -1), "ArrowBottomLeft": (-1, 1), "ArrowBottomRight": (1, 1)}
OPPOSITE = {"top_left": "bottom_right", "top": "bottom", "top_right": "bottom_left", "left": "right",
            "right": "left", "bottom_left": "top_right", "bottom": "top", "bottom_right": "top_left"}


def positive_atoms(c, neg=False, out=None):
    out = out if out is not None else []
    k = c[0]
    if k == "atom":
        if not neg:
            out.append(c)
    elif k in ("and", "or"):
        positive_atoms(c[1], neg, out)
        positive_atoms(c[2], neg, out)
    elif k == "not":
        positive_atoms(c[1], not neg, out)
    return out


def sgn(v):
    return (v > 0) - (v < 0)


def check_arrow(poly, axis, away, stub_lines, segment_end=True):
    """axis: (P, Q) points of the line the arrow terminates (own-cell coordinates) or None;
    away: (dx, dy) sign vector pointing from the line towards the arrow.  Returns list of problems."""
    probs = []
    pts = poly[1]
    if not poly[2]:
        probs.append("the arrow polygon is not filled")
    tags = [t for t in poly[3] if t in TAG_DIR]
    if len(tags) != 1:
        probs.append("expected exactly one arrow tag, found %r" % (poly[3],))
        return probs
    td = TAG_DIR[tags[0]]
    # the tag must point away from the line (component-wise sign agreement where the direction is defined)
    if away is not None:
        if (away[0] != 0 and sgn(td[0]) != sgn(away[0])) or (away[1] != 0 and sgn(td[1]) != sgn(away[1])) or \
                (away[0] == 0 and td[0] != 0) or (away[1] == 0 and td[1] != 0):
            probs.append("tag %s does not point away from the tested neighbour (expected direction %r)" % (tags[0], away))
    if axis is not None:
        P, Q = axis
        ux, uy = Q[1] - P[1], Q[2] - P[2]
        # orient u along `away`
        if away is not None and (ux * away[0] + uy * away[1]) < 0:
            ux, uy = -ux, -uy
        proj = lambda p: p[1] * ux + p[2] * uy
        cross = lambda p: (p[1] - P[1]) * uy - (p[2] - P[2]) * ux
        tip = max(pts, key=proj)
        if cross(tip) != 0:
            probs.append("the tip (%s,%s) is not on the axis of the line it terminates" % (tip[1], tip[2]))
        others = [p for p in pts if p is not tip]
        signs = {sgn(cross(p)) for p in others}
        if not ({1, -1} <= signs):
            probs.append("the base does not straddle the line's axis (base vertices on side(s) %r)" % sorted(signs))
        for ln in stub_lines:
            if max(proj(ln[1]), proj(ln[2])) > proj(tip):
                probs.append("the stub line reaches beyond the tip")
        if segment_end and max(proj(P), proj(Q)) > proj(tip):
            probs.append("the tip does not lie beyond the end of the neighbour's segment")
    else:
        # no axis: the extreme vertex along the tag direction must be unique (a tip) and the others on both sides of the
        # line through the tip along the tag direction
        ux, uy = F(td[0]), F(td[1] * 2 if td[0] != 0 and td[1] != 0 else td[1])
        proj = lambda p: p[1] * ux + p[2] * uy
        tip = max(pts, key=proj)
        if [proj(p) for p in pts].count(proj(tip)) != 1:
            probs.append("no unique tip along the tag direction %s" % tags[0])
    return probs


def run(run):
    prog = run.prog
    tae_conf.check(run, "C14.T0")
    try:
        T = Tables(run)
    except TableError as ex:
        run.missing("C14.T1", "character tables (%s)" % ex)
        return
    t1(run, T)
    t2(run, T)
    t3(run, T)
    t4(run, T)
    t5(run, T)
    run.assume("the run-time merge of polygon + line into a marker line (Polygon tags -> markers) is not decided")


def t1(run, T):
    n = 0
    for ch, ent in sorted(T.ascii.items()):
        for b in ent["behaviour"]:
            polys = [fr for fr in b["frags"] if fr[0] == "polygon" and any(t in TAG_DIR for t in fr[3])]
            if not polys:
                continue
            pos = positive_atoms(b["cond"])
            lines = [fr for fr in b["frags"] if fr[0] == "line"]
            for poly in polys:
                n += 1
                w = "%s:%d" % (T.ascii_file, poly[-1])
                inst = "arrow of %r entry %d (%s)" % (ch, b["index"], ",".join(poly[3]))
                axis = None
                away = None
                overlap = [a for a in pos if a[2] in ("line_overlap", "line_strongly_overlap", "line_weakly_overlap")]
                isat = [a for a in pos if a[2] == "is"]
                tested = overlap or isat
                probs = []
                if tested:
                    d = tested[0][1]
                    off = DIR_OFF[d]
                    away = (-off[0], -off[1])
                    if len({a[1] for a in tested}) > 1:
                        # several alternative neighbours (or): every one must be consistent with the tag; use each in turn
                        pass
                    if overlap:
                        a = overlap[0]
                        p, q = a[3]
                        P = ("pt", p[1] + off[0], p[2] + 2 * off[1])
                        Q = ("pt", q[1] + off[0], q[2] + 2 * off[1])
                        axis = (P, Q)
                probs += check_arrow(poly, axis, away, lines)
                if probs:
                    run.bad("C14.T1", "arrow/%s#%d" % (ch, b["index"]), w, "%s: %s" % (inst, "; ".join(probs)))
                else:
                    run.ok("C14.T1", inst, w, "tip on axis, base straddling, pointing %s" % ("away from " + tested[0][1] if tested else "along its tag"))
    for ch, ent in sorted(T.unicode.items()):
        for poly in ent["frags"]:
            if poly[0] != "polygon" or not any(t in TAG_DIR for t in poly[3]):
                continue
            n += 1
            w = "%s:%d" % (T.unicode_file, poly[-1])
            tags = [t for t in poly[3] if t in TAG_DIR]
            td = TAG_DIR[tags[0]]
            m = ("pt", F(1, 2), F(1))
            Q = ("pt", m[1] + td[0], m[2] + 2 * td[1])
            lines = [fr for fr in ent["frags"] if fr[0] == "line"]
            probs = check_arrow(poly, (m, Q), td, [], segment_end=False)
            inst = "arrow glyph %r (%s)" % (ch, tags[0])
            if probs:
                run.bad("C14.T1", "arrow-glyph/U+%04X" % ord(ch), w, "%s: %s" % (inst, "; ".join(probs)))
            else:
                run.ok("C14.T1", inst, w, "tip on the cell's centre axis, base straddling")
    run.floor("C14.T1", "arrow_polygons", n, 25)


def t2(run, T):
    prog = run.prog
    # thresholds of merge_circle from the source
    it = src_fn(run, "fragment/line.rs", "merge_circle", impl_self="Line")
    mc = prog.method("merge_circle", r"line::Line$", "")
    if it is None or not mc:
        run.missing("C14.T2", "Line::merge_circle")
        return
    w = "%s:%d" % (it["_file"], it["pos"][0])
    chain = find_nodes(it["body"], lambda n: n.get("k") == "let" and n["pat"].get("name") == "marker")
    kinds = []
    ok_chain = False
    sel_if = chain[0]["init"] if chain and chain[0].get("init", {}).get("k") == "if" else None
    if sel_if is None:
        # the selection moved into a helper of the file (`fn circle_marker(circle) -> Option<Marker>`): the one `if` chain
        # of the file that starts with `.is_filled` and names Marker variants
        _f, _v = src_file(run, "fragment/line.rs")
        cands_ = find_nodes(_v, lambda n: n.get("k") == "if" and n["cond"].get("k") == "field" and n["cond"]["member"] == "is_filled" and
                            find_nodes(n["then"], lambda m: m.get("k") == "path" and m["path"].startswith("Marker::"))) if _v else []
        if len(cands_) == 1 and mc and any(Program.callee_name(t_).startswith("svgbob::") and "Marker" in str(prog.bodies.get(Program.callee_name(t_), {}).get("sig", "")) for _, t_ in prog.calls(mc)):
            sel_if = cands_[0]
    if sel_if is not None:
        e = sel_if
        def variant(blk):
            v = find_nodes(blk, lambda n: n.get("k") == "path" and n["path"].startswith("Marker::"))
            return v[0]["path"].split("::")[-1] if v else None
        c1 = e["cond"]
        if c1.get("k") == "field" and c1["member"] == "is_filled":
            kinds.append(("filled", variant(e["then"])))
            e2 = e["else"]
            if e2 and e2.get("k") == "if":
                c2 = e2["cond"]
                if c2.get("k") == "binary" and c2["op"] in (">=", ">") and c2["l"].get("k") == "field" and c2["l"]["member"] == "radius":
                    try:
                        thr = T.ev(c2["r"], {})
                        kinds.append(((c2["op"], thr), variant(e2["then"])))
                        kinds.append(("else", variant(e2["else"])))
                        ok_chain = True
                    except TableError:
                        pass
    if not ok_chain:
        run.bad("C14.T2", "marker-thresholds", w, "merge_circle's marker selection is not `filled -> .., radius >= unit -> .., else ..`; the bullet kinds cannot be established")
        return
    thr = kinds[1][0][1]
    cm = find_nodes(it["body"], lambda n: n.get("k") == "let" and n["pat"].get("name") == "can_merge")
    rmax = None
    if cm:
        le = find_nodes(cm[0]["init"], lambda n: n.get("k") == "binary" and n["op"] == "<=" and n["l"].get("k") == "field" and n["l"]["member"] == "radius")
        if le:
            try:
                rmax = T.ev(le[0]["r"], {})
            except TableError:
                rmax = None

    def kind_of(circle):
        if circle[3]:
            return kinds[0][1]
        big = circle[2] >= thr if kinds[1][0][0] == ">=" else circle[2] > thr
        return kinds[1][1] if big else kinds[2][1]

    want = {"*": ("Circle", "filled"), "o": ("OpenCircle", "open"), "O": ("BigOpenCircle", "big open")}
    for ch, (variant_want, doc) in want.items():
        ent = T.ascii.get(ch)
        if ent is None:
            run.missing("C14.T2", "table entry for bullet %r" % ch)
            continue
        circles = []
        for b in ent["behaviour"]:
            for fr in b["frags"]:
                if fr[0] == "circle" and positive_atoms(b["cond"]):
                    circles.append((b, fr))
        if not circles:
            run.bad("C14.T2", "bullet-no-circle/%s" % ch, "%s:%d" % (T.ascii_file, ent["line"]), "bullet %r yields no circle when attached to a line" % ch)
            continue
        for b, fr in circles:
            k = kind_of(fr)
            m = ("pt", F(1, 2), F(1))
            probs = []
            if k != variant_want:
                probs.append("becomes marker %s, documented kind is %s (%s)" % (k, variant_want, doc))
            if rmax is not None and fr[2] > rmax:
                probs.append("radius %s exceeds merge_circle's limit %s, so it is never attached" % (fr[2], rmax))
            if fr[1] != m:
                probs.append("is centred at (%s,%s), not at the centre of the cell" % (fr[1][1], fr[1][2]))
            ww = "%s:%d" % (T.ascii_file, fr[-1])
            if probs:
                run.bad("C14.T2", "bullet-kind/%s" % ch, ww, "bullet %r: circle %s" % (ch, "; ".join(probs)))
            else:
                run.ok("C14.T2", "bullet %r -> %s marker (radius %s, threshold %s)" % (ch, k, fr[2], thr), ww)
    # marked end = circle.center, on every path (path-sensitive evaluation; helper constructors inlined and projections
    # simplified, so `Line::new_noswap(a, c, b)` + `marker_line(l.start, l.end, ..)` and a direct
    # `marker_line(a, circle.center, ..)` have the same normal form)
    from ..mirlib import paths as mir_paths
    from ..exprs import inline_calls, simplify
    ps = mir_paths(prog, mc)
    if ps is None:
        run.bad("C14.T2", "marker-end", where(prog.bodies[mc]), "merge_circle is not a loop-free body with a bounded number of paths; the marked end cannot be established")
    else:
        n_some, bad_paths = 0, []
        for conds, ret in ps:
            r = strip(simplify(inline_calls(prog, ret, keep=r"^(?!.*(line::Line::new_noswap|line::Line::new|fragment::marker_line)$).*$")))
            if r[0] == "agg" and r[2] == "None":
                continue
            n_some += 1
            ml = strip(r[3][0][1]) if r[0] == "agg" and r[2] == "Some" and r[3] else ("unknown",)
            if ml[0] == "agg" and ml[2] == "MarkerLine" and ml[3]:
                ml = strip(ml[3][0][1])
            okp = ml[0] == "call" and ml[1].endswith("marker_line::MarkerLine::new") and len(ml[2]) == 5
            if okp:
                st_, en_, br_, sm_, em_ = [strip(x) for x in ml[2]]
                okp = en_ == ("param", 2, ("center",)) and st_[0] == "param" and st_[1] == 1 and st_[2] in (("start",), ("end",)) and \
                    sm_[0] == "agg" and sm_[2] == "None" and em_[0] == "agg" and em_[2] == "Some"
            if not okp:
                bad_paths.append(expr_str(ml)[:140])
        if bad_paths or not n_some:
            run.bad("C14.T2", "marker-end", where(prog.bodies[mc]),
                    "merge_circle: on some path the result is `%s`: the marker line does not run from an end point of the line to the circle's centre with the marker at its end" % (
                        bad_paths[0] if bad_paths else "no Some(..) result"))
        else:
            run.ok("C14.T2", "on all %d merging paths the marker line ends at the circle's centre and carries the marker at that end" % n_some, where(prog.bodies[mc]))
    # Display strings of Marker
    disp = src_fn(run, "fragment/marker_line.rs", "fmt", impl_self="Marker", impl_trait="fmt::Display")
    names = {}
    if disp:
        m = disp["body"]["stmts"][0]["expr"] if disp["body"]["stmts"] else {}
        for arm in m.get("arms", []):
            v = arm["pat"].get("path", "").split("::")[-1]
            lit = find_nodes(arm["body"], lambda n: n.get("k") == "lit" and n.get("ty") == "str")
            if lit:
                names[v] = lit[0]["v"]
    if not names:
        run.missing("C14.T2", "Display for Marker")
        return
    # variants constructed in reachable code
    roots, reach = lib_reachable(run, "C14.T2")
    built = set()
    for p in reach:
        for blk in prog.bodies[p]["blocks"]:
            for st in blk["stmts"]:
                rv = st.get("rv") or {}
                if rv.get("k") == "agg" and (rv.get("adt") or "").endswith("marker_line::Marker") and not re.search(r"as core::(clone|fmt)", p):
                    built.add(rv["variant"])
    run.record("marker_variants_constructed", sorted(built))
    # CSS rules and marker ids
    f, v = src_file(run, "svgbob/src/buffer/cell_buffer.rs")
    jss = find_nodes(v, lambda n: n.get("k") == "macro" and n.get("name", "").endswith("jss") and "tt" in n)
    selectors = {}
    if jss:
        tt = jss[0]["tt"]
        i = 0
        while i < len(tt):
            t = tt[i]
            if "l" in t and isinstance(t["l"], dict) and t["l"].get("ty") == "str":
                sel = t["l"]["v"]
                j = i + 1
                while j < len(tt) and "g" not in tt[j]:
                    j += 1
                if j < len(tt):
                    body = tt[j]["inner"]
                    vals = [x["l"]["v"] for x in body if "l" in x and isinstance(x["l"], dict) and x["l"].get("ty") == "str"]
                    selectors[sel] = vals
                    i = j
            i += 1
    ids = set()
    class_of_id = {}
    for fn in find_nodes(v, lambda n: n.get("k") == "fn" and n.get("name", "").endswith("_marker")):
        idc = find_nodes(fn["body"], lambda n: n.get("k") == "call" and n["func"].get("path") == "id" and n["args"] and n["args"][0].get("ty") == "str")
        cls = find_nodes(fn["body"], lambda n: n.get("k") == "call" and n["func"].get("path", "").endswith("class") and n["args"] and n["args"][0].get("ty") == "str")
        if idc:
            ids.add(idc[0]["args"][0]["v"])
            class_of_id[idc[0]["args"][0]["v"]] = [c["args"][0]["v"] for c in cls]
    # marker definitions emitted by get_defs, resolved on MIR (ids / classes may be parameters of a shared helper)
    emitted_list = []
    gdp = prog.method("get_defs", r"cell_buffer::CellBuffer$", "")
    if gdp:
        reach_defs = [q for q in prog.reachable([gdp]) if q in prog.bodies and prog.bodies[q]["crate"] == "svgbob"]

        def const_values(path, e, depth=0):
            """string constants an expression can take, following parameters to the call sites (depth 2)"""
            e = strip(e)
            if e[0] == "const" and e[1] == "str":
                return [e[2]]
            if e[0] == "param" and not e[2] and depth < 2:
                out = []
                for caller, bid, t in prog.callers(path):
                    if caller in reach_defs and e[1] - 1 < len(t["args"]):
                        out += const_values(caller, Expr(prog, caller).operand(t["args"][e[1] - 1]), depth + 1)
                return out
            return []

        for q in reach_defs:
            qex = Expr(prog, q)
            ids_here, cls_here = [], []
            has_marker = any(re.search(r"svg::tags::(commons::)?marker$", Program.callee_name(t)) for _, t in prog.calls(q))
            if not has_marker:
                continue
            for bid, t in prog.calls(q):
                n = Program.callee_name(t)
                if re.search(r"attribute_macros::commons::id$", n):
                    ids_here.append(const_values(q, qex.operand(t["args"][0])))
                if re.search(r"attribute_macros::commons::class$", n):
                    cls_here.append(const_values(q, qex.operand(t["args"][0])))
            # a helper called k times yields k definitions, position-wise
            k = max([len(x) for x in ids_here] + [0])
            for i in range(k):
                mid = ids_here[0][i] if ids_here and i < len(ids_here[0]) else None
                mcl = [c[i] if len(c) == k else (c[0] if c else None) for c in cls_here]
                emitted_list.append((mid, [c for c in mcl if c]))
        # the same on the fully inlined expression of get_defs (any nesting of helper constructors): every
        # `marker(attributes, children)` node with the string constants of its id(..) and of the class(..) of its children
        from ..exprs import inline_calls
        inl = []
        try:
            for r in Expr(prog, gdp).returns():
                tree = inline_calls(prog, r, depth=6)
                found = []
                mentions(tree, lambda z: z[0] == "call" and re.search(r"svg::tags::(commons::)?marker$", z[1]) and len(z[2]) >= 2 and found.append(z) and False)
                for mk in found:
                    idv, clv = [], []
                    mentions(mk[2][0], lambda z: z[0] == "call" and re.search(r"attribute_macros::commons::id$", z[1]) and z[2] and
                             strip(z[2][0])[0] == "const" and idv.append(strip(z[2][0])[2]) and False)
                    mentions(mk[2][1], lambda z: z[0] == "call" and re.search(r"attribute_macros::commons::class$", z[1]) and z[2] and
                             strip(z[2][0])[0] == "const" and clv.append(strip(z[2][0])[2]) and False)
                    if len(idv) == 1:
                        inl.append((idv[0], clv))
        except Exception:
            inl = []
        if len(inl) >= len([m for m, _ in emitted_list if m]) and inl:
            emitted_list = inl
    emitted = {m for m, _ in emitted_list if m}
    dup = sorted({m for m, _ in emitted_list if m and [x for x, _ in emitted_list].count(m) > 1})
    if dup:
        run.bad("C14.T2", "marker-id-duplicate/%s" % ",".join(dup), f, "get_defs emits several <marker> elements with id %s: url(#id) references resolve to the first one only" % dup)
    if emitted_list:
        class_of_id = {}
        for m, cl in emitted_list:
            class_of_id.setdefault(m, cl)
    run.record("marker_ids_emitted", sorted(emitted))
    run.floor("C14.T2", "marker_definitions", len(emitted_list), 5)
    fill_class = {"Circle": "filled", "OpenCircle": "bg_filled", "BigOpenCircle": "bg_filled"}
    for variant in sorted(built):
        s = names.get(variant)
        if s is None:
            run.bad("C14.T2", "marker-display/%s" % variant, "%s:%d" % (disp["_file"], disp["pos"][0]), "Marker::%s has no Display string" % variant)
            continue
        probs = []
        for side, prop in (("start", "marker_start"), ("end", "marker_end")):
            sel = ".svgbob .%s_marked_%s" % (side, s)
            if sel not in selectors:
                probs.append("no CSS rule `%s`" % sel)
                continue
            urls = [x for x in selectors[sel] if x.startswith("url(#")]
            if len(urls) != 1:
                probs.append("rule `%s` has no single url(#id)" % sel)
                continue
            mid = urls[0][5:-1]
            if mid not in emitted:
                probs.append("rule `%s` refers to #%s, which get_defs does not emit" % (sel, mid))
            elif mid != s:
                probs.append("rule `%s` refers to marker #%s" % (sel, mid))
            elif variant in fill_class and fill_class[variant] not in class_of_id.get(mid, []):
                probs.append("marker #%s is drawn with class %r, expected %r" % (mid, class_of_id.get(mid), fill_class[variant]))
        if probs:
            run.bad("C14.T2", "marker-css/%s" % variant, f, "Marker::%s (`%s`): %s" % (variant, s, "; ".join(probs)))
        else:
            run.ok("C14.T2", "Marker::%s: Display `%s` <-> CSS rules <-> <marker id=%s>" % (variant, s, s), f)
    run.floor("C14.T2", "marker_variants", len(built), 3)
    # class templates
    mln = [p for p in prog.bodies if re.search(r"From<svgbob::buffer::fragment_buffer::fragment::marker_line::MarkerLine> for sauron_core::vdom::node::Node<MSG>>::from$", p)]
    if len(mln) == 1:
        ex = Expr(prog, mln[0])
        prefixes = []
        for bid, t in prog.calls(mln[0]):
            if re.search(r"commons::class$", Program.callee_name(t)):
                fp = format_parts(ex.operand(t["args"][0]))
                if fp:
                    pieces, args = fp
                    if len(pieces) == 2 and pieces[0][0] == "lit" and pieces[1] == ("arg",) and len(args) == 1:
                        fld = [f for f in strip(args[0][1])[2] if not f.startswith("@")] if strip(args[0][1])[0] in ("param", "field") else []
                        prefixes.append((pieces[0][1], [x for x in strip(args[0][1])[2] if x in ("start_marker", "end_marker")] if strip(args[0][1])[0] == "param" else fld))
        # ... or built inside `ml.<side>_marker.map(|marker| class(format!("<side>_marked_{}", marker)))`: the argument is
        # the item of the Option the closure is mapped over
        for q in prog.closures_of(mln[0]):
            qex = Expr(prog, q)
            for bid, t in prog.calls(q):
                if not re.search(r"commons::class$", Program.callee_name(t)):
                    continue
                fp = format_parts(qex.operand(t["args"][0]))
                if not fp:
                    continue
                pieces, args = fp
                if not (len(pieces) == 2 and pieces[0][0] == "lit" and pieces[1] == ("arg",) and len(args) == 1 and strip(args[0][1])[:2] == ("param", 2)):
                    continue
                side = None
                for _, pt in prog.calls(mln[0]):
                    if re.search(r"Option::<T>::(map|and_then)$", Program.callee_name(pt)) and len(pt["args"]) == 2 and closure_of(ex.operand(pt["args"][1]))[0] == q:
                        recv = strip(ex.operand(pt["args"][0]))
                        if recv[0] == "param":
                            side = [x for x in recv[2] if x in ("start_marker", "end_marker")]
                prefixes.append((pieces[0][1], side or []))
        want = {("start_marked_", "start_marker"), ("end_marked_", "end_marker")}
        got = {(a, (b[0] if b else None)) for a, b in prefixes}
        if got == want:
            run.ok("C14.T2", "marker line classes are start_marked_<start marker> / end_marked_<end marker>", where(prog.bodies[mln[0]]))
        else:
            run.bad("C14.T2", "marker-class-template", where(prog.bodies[mln[0]]), "marker line class templates are %r" % sorted(got, key=str))
    else:
        run.missing("C14.T2", "From<MarkerLine> for Node")


def t3(run, T):
    n = 0
    for ch, ent in sorted(T.ascii.items()):
        for b in ent["behaviour"]:
            arcs = [fr for fr in b["frags"] if fr[0] == "arc"]
            if not arcs:
                continue
            pos = positive_atoms(b["cond"])
            dirs = sorted({a[1] for a in pos})
            if len(dirs) != 2 or OPPOSITE[dirs[0]] == dirs[1]:
                continue
            d1, d2 = DIR_OFF[dirs[0]], DIR_OFF[dirs[1]]
            lines = [fr for fr in b["frags"] if fr[0] == "line"]
            for arc in arcs:
                n += 1
                w = "%s:%d" % (T.ascii_file, arc[-1])
                inst = "corner arc of %r entry %d (between %s and %s)" % (ch, b["index"], dirs[0], dirs[1])
                probs = []
                g = arc_geometry(arc)
                if g is None:
                    probs.append("degenerate arc")
                else:
                    # end points: coincide with a line end of the entry, or lie on the border towards / inside a tested neighbour's cell
                    for end in (arc[1], arc[2]):
                        on_line = any(end == ln[1] or end == ln[2] for ln in lines)
                        touches = False
                        for d in (d1, d2):
                            x0, x1 = F(d[0]), F(d[0] + 1)
                            y0, y1 = F(2 * d[1]), F(2 * d[1] + 2)
                            if x0 <= end[1] <= x1 and y0 <= end[2] <= y1:
                                touches = True
                        if not (on_line or touches):
                            probs.append("end point (%s,%s) neither meets a line of the entry nor touches a tested neighbour's cell" % (end[1], end[2]))
                    mx = (float(arc[1][1]) + float(arc[2][1])) / 2
                    my = (float(arc[1][2]) + float(arc[2][2])) / 2
                    cx, cy = g["center"]
                    sx, sy = d1[0] + d2[0], 2 * (d1[1] + d2[1])
                    dot = (cx - mx) * sx + (cy - my) * sy
                    if not dot > 1e-9:
                        probs.append("the arc's centre (%.2f,%.2f) is not on the inner side of the corner: it would bulge inward" % (cx, cy))
                    axis_par = all((d[0] == 0) != (d[1] == 0) for d in (d1, d2))
                    if axis_par:
                        ex_, ey_ = float(arc[1][1]), float(arc[1][2])
                        fx_, fy_ = float(arc[2][1]), float(arc[2][2])
                        corner_ok = (abs(cx - ex_) < 1e-6 and abs(cy - fy_) < 1e-6) or (abs(cx - fx_) < 1e-6 and abs(cy - ey_) < 1e-6)
                        if not corner_ok:
                            probs.append("centre (%.2f,%.2f) is not the axis-aligned corner of its end points (needed for rounded rectangles)" % (cx, cy))
                if probs:
                    run.bad("C14.T3", "corner-arc/%s#%d" % (ch, b["index"]), w, "%s: %s" % (inst, "; ".join(probs)))
                else:
                    run.ok("C14.T3", inst, w, "centre (%.2f,%.2f) inner side, ends attached" % g["center"])
    run.floor("C14.T3", "corner_arcs", n, 25)


# rounded outlines without side rows that are open on the pinned tree.  They lie outside the statement's size range
# (sides 1..15) and are therefore not reported; every *other* smallest outline is closed today and has to stay closed.
BOUNDARY_OPEN = {
    (",", "'"): "`,` offers only line(m,r) to the cell below (its signature does not reach the bottom edge like `.`), so a `'` "
                "directly below a `,` finds no connection: ',--.' over \"'--'\" leaves the quote as text",
}


def thorough(run):
    """larger outline family, and outlines with a stub attached to the middle of each side (the statement's
    outlines are not endorsed as rectangles because something is attached to them)"""
    try:
        T = Tables(run)
    except TableError as ex:
        run.missing("C14.T4", "character tables (%s)" % ex)
        return
    t4(run, T, widths=range(1, 9), heights=range(0, 7), stubs=True, rule="C14.T4+")


BULLET_LINES = (("-", ("left", "right")), ("~", ("left", "right")), ("|", ("top", "bottom")), (":", ("top", "bottom")), ("!", ("top", "bottom")),
                ("/", ("top_right", "bottom_left")), ("\\", ("top_left", "bottom_right")))


def t5(run, T):
    """T5 [N] bullets: "a bullet character attached to a line (* o O) becomes a circle marker of the documented kind ... on a
    line whose marked end is the centre of the bullet's cell, and is not shown as text".  Per cell, by table evaluation:
    for each bullet and each solid or dashed line character running towards it (7 characters x 2 sides) the bullet's
    cell yields exactly one circle centred on the cell centre - filled for `*`, open for `o` and `O`, `O` the bigger one -
    so the character does not fall back to text.  (The run-time merge of circle and line into a marker line is C14.T2.)"""
    from fractions import Fraction as F
    n = 0
    radii = {}
    for b in "*oO":
        if b not in T.ascii:
            run.bad("C14.T5", "bullet-missing/%s" % b, T.ascii_file, "the character table has no entry for the bullet %r" % b)
            continue
        for ch, dirs in BULLET_LINES:
            for d in dirs:
                nbs = {k: None for k in ("top_left", "top", "top_right", "left", "right", "bottom_left", "bottom", "bottom_right")}
                nbs[d] = ch
                frs = T.fragments(b, nbs)
                n += 1
                circles = [f for f in frs if f[0] == "circle"]
                inst = "bullet %r with %r on its %s" % (b, ch, d)
                w = "%s:%d" % (T.ascii_file, T.ascii[b]["line"])
                if len(circles) != 1:
                    run.bad("C14.T5", "bullet-not-marker/%s/%s/%s" % (b, ch, d), w,
                            "%s yields %s: the bullet is not turned into a circle (it falls back to text, the line ends unmarked)" % (inst, [f[0] for f in frs] or "nothing"))
                    continue
                c = circles[0]
                centre_ok = tuple(c[1][1:3]) == (F(1, 2), F(1)) if isinstance(c[1], tuple) and c[1][0] == "pt" else False
                filled_ok = bool(c[3]) == (b == "*")
                radii.setdefault(b, set()).add(c[2])
                if centre_ok and filled_ok:
                    run.ok("C14.T5", inst + " -> one %s circle on the cell centre" % ("filled" if c[3] else "open"), w, nontrivial=False)
                else:
                    run.bad("C14.T5", "bullet-circle/%s/%s/%s" % (b, ch, d), w, "%s: circle centre %r filled=%s" % (inst, c[1], c[3]))
    if all(len(radii.get(b, ())) == 1 for b in "*oO"):
        ro, rO = list(radii["o"])[0], list(radii["O"])[0]
        if rO > ro:
            run.ok("C14.T5", "`O` draws the bigger open circle (%s > %s), one radius per bullet" % (rO, ro), T.ascii_file)
        else:
            run.bad("C14.T5", "bullet-sizes", T.ascii_file, "`O` (radius %s) is not bigger than `o` (radius %s)" % (rO, ro))
    elif radii:
        run.bad("C14.T5", "bullet-sizes", T.ascii_file, "a bullet is drawn with different radii depending on the line character: %s" % {k: sorted(map(str, v)) for k, v in radii.items()})
    run.floor("C14.T5", "bullet_cases", n, 42)


def t4(run, T, widths=range(1, 5), heights=range(0, 4), stubs=False, rule="C14.T4", styles=None, kind="rounded", floor=64):
    """T4 outlines are continuous (model evaluation).  A cell's fragments depend on its eight neighbours only, so the
    neighbourhoods that occur in rounded outlines of *all* sizes are exhausted by widths 1..4 x side rows 0..3.  For
    every corner style the table is evaluated cell by cell on such outlines; every cell of the outline must yield a
    fragment (none falls back to text) and every end point of every fragment must meet another fragment."""
    import itertools as it

    def frags_of(ch, nbs):
        if ch in T.ascii:
            return T.fragments(ch, nbs)
        if ch in T.unicode:
            return list(T.unicode[ch]["frags"])
        return []

    def outline(tl, tr, bl, br, hz, vt, w, h, stub=None):
        rows = ["  " + tl + hz * w + tr + "  "]
        rows += ["  " + vt + " " * w + vt + "  "] * h
        rows += ["  " + bl + hz * w + br + "  "]
        blank = " " * len(rows[0])
        grid = [list(r) for r in [blank, blank] + rows + [blank, blank]]
        cell = None
        if stub == "left" and h >= 1:
            cell = (1, 2 + 1 + (h - 1) // 2, hz)
        elif stub == "right" and h >= 1:
            cell = (2 + w + 2, 2 + 1 + (h - 1) // 2, hz)
        elif stub == "top" and w >= 3:
            cell = (2 + 1 + (w - 1) // 2, 1, vt)
        elif stub == "bottom" and w >= 3:
            cell = (2 + 1 + (w - 1) // 2, 2 + h + 2, vt)
        elif stub:
            return None, None
        if cell:
            grid[cell[1]][cell[0]] = cell[2]
        return ["".join(r) for r in grid], (cell[0], cell[1]) if cell else None

    def evaluate(grid_stub):
        grid, stub_cell = grid_stub
        H, W = len(grid), len(grid[0])
        frs, text = [], []
        for y in range(H):
            for x in range(W):
                ch = grid[y][x]
                if ch == " ":
                    continue
                nbs = {}
                for d in DIRS:
                    dx, dy = DIR_OFF[d]
                    yy, xx = y + dy, x + dx
                    c = grid[yy][xx] if 0 <= yy < H and 0 <= xx < W else None
                    nbs[d] = None if c in (None, " ") else c
                got = frags_of(ch, nbs)
                if not got and (x, y) != stub_cell:
                    text.append((x - 2, y - 2, ch))
                for fr in got:
                    if fr[0] in ("line", "arc"):
                        a = ("pt", fr[1][1] + x, fr[1][2] + 2 * y)
                        b = ("pt", fr[2][1] + x, fr[2][2] + 2 * y)
                        frs.append((fr[0], a, b, (x - 2, y - 2, ch), (x, y) == stub_cell))
        # the same segment produced by two rules of one cell is one segment (a copy must not count as "another fragment")
        uniq, seen_geo = [], set()
        for f in frs:
            key = (f[0], frozenset((f[1], f[2])))
            if key in seen_geo:
                continue
            seen_geo.add(key)
            uniq.append(f)
        frs = uniq
        dang = []
        for i, f in enumerate(frs):
            if f[4]:
                continue  # the free end of the attached stub is loose by construction
            for p in (f[1], f[2]):
                if not any(i != j and (p == g[1] or p == g[2] or (g[0] == "line" and on_segment(g[1], g[2], p))) for j, g in enumerate(frs)):
                    dang.append((p, f[3]))
        return text, dang

    if styles is None:
        styles = [(tl, tr, bl, br, "-", "|") for tl, tr, bl, br in it.product(".,", ".", "'`", "'")]
        if all(c in T.unicode for c in "╭╮╰╯─│"):
            styles.append(("╭", "╮", "╰", "╯", "─", "│"))
    n = 0
    for tl, tr, bl, br, hz, vt in styles:
        if any(c not in T.ascii and c not in T.unicode for c in (tl, tr, bl, br, hz, vt)):
            run.missing(rule, "table entry for one of %r" % ((tl, tr, bl, br, hz, vt),))
            continue
        style = "%s%s/%s%s" % (tl, tr, bl, br)
        bad_in, bad_boundary = None, None
        for w_ in widths:
            for h in heights:
                for stub in ([None, "left", "right", "top", "bottom"] if stubs else [None]):
                    gs = outline(tl, tr, bl, br, hz, vt, w_, h, stub)
                    if gs[0] is None:
                        continue
                    n += 1
                    text, dang = evaluate(gs)
                    if text or dang:
                        if h >= 1 and bad_in is None:
                            bad_in = (w_, h, text, dang, stub)
                        if h == 0 and bad_boundary is None:
                            bad_boundary = (w_, h, text, dang, stub)

        def describe(b):
            w_, h, text, dang, stub = b
            return "outline %d wide with %d side row(s)%s: %s%s" % (
                w_, h, (" and a stub attached to its %s side" % stub) if stub else "", ("cell(s) %s fall back to text; " % ", ".join("%r at (%d,%d)" % (c, x, y) for x, y, c in text)) if text else "",
                ("loose end(s) at %s" % ", ".join("(%s,%s) of %r" % (float(p[1]) - 2, float(p[2]) - 4, c[2]) for p, c in dang[:3])) if dang else "")
        if bad_in:
            run.bad(rule, "outline-open/%s" % style, T.ascii_file, "%s outline with corners %s is not continuous: %s" % (kind, style, describe(bad_in)))
        else:
            run.ok(rule, kind + " outlines with corners %s are closed curves (widths %d..%d x %d..%d side rows%s; every cell draws, every end meets another fragment)" % (
                style, min(widths), max(widths), max(1, min(heights)), max(heights), ", with and without a stub on each side" if stubs else ""), T.ascii_file)
        if bad_boundary:
            if (tl, bl) in BOUNDARY_OPEN:
                run.ok(rule, "smallest outline (no side rows) with corners %s is open on the pinned tree; outside the stated size range, recorded" % style,
                       T.ascii_file, BOUNDARY_OPEN[(tl, bl)], nontrivial=False)
            else:
                run.bad(rule, "outline-open-smallest/%s" % style, T.ascii_file,
                        "the smallest %s outline with corners %s (corners directly above each other) is not continuous: %s" % (kind, style, describe(bad_boundary)))
        elif (tl, bl) in BOUNDARY_OPEN:
            run.note("C14.T4: the smallest outline with corners %s is closed now; its BOUNDARY_OPEN entry is obsolete" % style)
    run.record("outline_grids_evaluated", n)
    run.floor(rule, "outline_grids", n, floor)
    run.record("outline_grids_evaluated" + ("_thorough" if stubs else ""), n)


run_flow = run
