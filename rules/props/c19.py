"""C19 (the CLI writes what the library computes and reports success truthfully) — structural clauses
on the MIR of svgbob_cli: X1 what is written (fs::write with -o, `{}\\n` on stdout, one file per
match in batch mode) is the unmodified return value of svgbob::to_svg_with_settings on the input
text and the settings value that the options were stored into; X2 the input text comes only from the
inline argument with `\\n` escapes expanded, from the opened input file, or from stdin; X3 every
value-taking option is consumed under its own name and stored into the Settings field of the same
name (scale multiplies the default); X4 every exit with a non-zero status is control-dependent on an
error/none outcome, and the success path of the batch mode exits 0; X5 no Result of a workspace
function is dropped: its error arm exits non-zero, propagates, or feeds a failure count that
controls an error return; X8 an option value that does not parse ends the run with a failure (error arm
exits non-zero, or the option is declared with a clap validator); X7 no failure exit can follow the creation/truncation of the output file other
than the report of that write's own failure (no partial output on option errors); X6 the library prints nothing on the conversion path except two reviewed
diagnostics on believed-infeasible paths.  Not decided: partial output on I/O failure (fs::write
semantics), clap's own parsing."""
import re

from ..common import find_nodes, guards, lib_reachable, short, src_file, where
from ..exprs import expand_combinators, inline_calls, simplify, format_parts, closure_of, decode_fmt_template, mentions, strip, subst_closure
from ..mirlib import Expr, Program, expr_str, op_const, op_place

MAIN = "svgbob_cli::main"
LIBCALL = "svgbob::to_svg_with_settings"
REVIEWED_PRINTS = {
    "svgbob::util::ord": "only reached with a NaN coordinate (believed infeasible: coordinates are finite grid values)",
    "svgbob::buffer::fragment_buffer::FragmentBuffer::add_fragment_span_to_cell": "only reached when the same fragment span is added twice to a cell (diagnostic of a believed-infeasible state)",
}


def const_str_args(e):
    out = []
    mentions(e, lambda z: z[0] == "const" and z[1] == "str" and out.append(z[2]) and False)
    return out


# crate functions that read the option whose name they are given: path -> index of the name argument
OPTION_READERS = {}


def find_option_readers(prog):
    """`fn f(args, name, ..)` that hands `name` to ArgMatches::value_of (directly or through another such function)"""
    readers = {}
    cli = [q for q in prog.bodies if prog.bodies[q].get("crate") == "svgbob_cli" and "{closure" not in q]
    changed = True
    while changed:
        changed = False
        for q in cli:
            if q in readers:
                continue
            ex = None
            for _, t in prog.calls(q):
                n = Program.callee_name(t)
                idx = 1 if re.search(r"ArgMatches::<'a>::value_of$", n) else readers.get(n)
                if idx is None or idx >= len(t["args"]):
                    continue
                ex = ex or Expr(prog, q)
                a = strip(ex.operand(t["args"][idx]))
                if a[0] == "param" and not a[2] and 1 <= a[1] <= prog.bodies[q]["argc"]:
                    readers[q] = a[1] - 1
                    changed = True
                    break
    return readers


# crate functions that end the process with the status they are given: path -> index of the status argument
EXIT_WRAPPERS = {}


def find_exit_wrappers(prog):
    out = {}
    for q, b in prog.bodies.items():
        if b.get("crate") != "svgbob_cli" or "{closure" in q or b["locals"][0]["ty"] != "!":
            continue
        ex = Expr(prog, q)
        exits = [t for _, t in prog.calls(q) if Program.callee_name(t) == "std::process::exit"]
        if len(exits) == 1:
            a = strip(ex.operand(exits[0]["args"][0]))
            if a[0] == "param" and not a[2]:
                out[q] = a[1] - 1
    return out


def exit_status(t):
    """None if t does not end the process; else the constant status, or 'nonconst'"""
    if t["k"] != "call":
        return None
    n = Program.callee_name(t)
    if n == "std::process::exit":
        c = op_const(t["args"][0])
        return c.get("int") if c and "int" in c else "nonconst"
    if n in EXIT_WRAPPERS and EXIT_WRAPPERS[n] < len(t["args"]):
        c = op_const(t["args"][EXIT_WRAPPERS[n]])
        return c.get("int") if c and "int" in c else "nonconst"
    return None


def value_of_names(e):
    """names passed to value_of / parse_value_of (or another option-reading helper of the crate) inside e"""
    out = []

    def pred(z):
        if z[0] == "call" and re.search(r"ArgMatches::<'a>::value_of$|svgbob_cli::parse_value_of$", z[1]):
            a = strip(z[2][1])
            if a[0] == "const":
                out.append(a[2])
        elif z[0] == "call" and z[1] in OPTION_READERS and OPTION_READERS[z[1]] < len(z[2]):
            a = strip(z[2][OPTION_READERS[z[1]]])
            if a[0] == "const":
                out.append(a[2])
        return False

    mentions(e, pred)
    # one name read several times (the closure that reports a failure captures the same option again) is one name
    uniq = []
    for n_ in out:
        if n_ not in uniq:
            uniq.append(n_)
    return uniq


def run(run):
    prog = run.prog
    if MAIN not in prog.bodies:
        run.missing("C19", MAIN)
        return
    # helpers that main was split into (single call site, private, not error-propagating) are spliced back so that
    # every rule below sees one body whether or not the code was divided for readability
    inl = prog.inline_single_use_helpers(MAIN, skip=r"::(build|convert_file|parse_value_of)$", allow_option=True, same_file=True)
    if inl:
        run.note("main analysed with its single-use helpers inlined: %s" % ", ".join(short(x) for x in inl))
    run.record("inlined_helpers", [short(x) for x in inl])
    EXIT_WRAPPERS.clear()
    EXIT_WRAPPERS.update(find_exit_wrappers(prog))
    OPTION_READERS.clear()
    OPTION_READERS.update(find_option_readers(prog))
    b = prog.bodies[MAIN]
    ex = Expr(prog, MAIN, opaque=r"get_matches$")
    sl = prog.slicer(MAIN)
    libcalls = [(bid, t) for bid, t in prog.calls(MAIN) if Program.callee_name(t) == LIBCALL]
    if len(libcalls) != 1:
        run.bad("C19.X1", "lib-call-count", where(b), "main calls %s %d times, expected once" % (LIBCALL, len(libcalls)))
        return
    lbid, lt = libcalls[0]
    is_lib = lambda e: strip(e)[0] == "call" and strip(e)[1] == LIBCALL
    # ---------------- X1 outputs
    # fs::write(path, data), or write_all(data) on a File (the path is then whatever the File was created from)
    writes = [(bid, t) for bid, t in prog.calls(MAIN) if re.search(r"^std::fs::write$|^(<std::fs::File as )?std::io::Write(>)?::write_all$", Program.callee_name(t))]
    prints = [(bid, t) for bid, t in prog.calls(MAIN) if Program.callee_name(t) == "std::io::stdio::_print"]

    def through(e):
        e = strip(e)
        while e[0] == "call" and re.search(r"::as_bytes$|Deref>::deref$|::as_str$|AsRef<.*>>::as_ref$", e[1]) and e[2]:
            e = strip(e[2][0])
        return e

    sites = [(bid, t, through(ex.operand(t["args"][1])), ex.operand(t["args"][0])) for bid, t in writes]
    # the same write inside a closure of main that is handed to a combinator (File::create(p).and_then(|f| f.write_all(..)))
    for bid, t in prog.calls(MAIN):
        for a in t["args"]:
            cp, caps = closure_of(strip(ex.operand(a)))
            if not cp:
                continue
            cex = Expr(prog, cp)
            recv = ex.operand(t["args"][0])
            for cbid, ct in prog.calls(cp):
                if re.search(r"^std::fs::write$|^(<std::fs::File as )?std::io::Write(>)?::write_all$", Program.callee_name(ct)):
                    d = subst_closure(cex.operand(ct["args"][1]), caps, (recv,))
                    pth = subst_closure(cex.operand(ct["args"][0]), caps, (recv,))
                    writes.append((bid, ct))
                    sites.append((bid, ct, through(d), pth))
    for bid, t, data, path in sites:
        if is_lib(data):
            run.ok("C19.X1", "fs::write receives the library result unmodified", where(t))
        else:
            run.bad("C19.X1", "file-output-modified", where(t), "fs::write receives `%s`, not the unmodified result of %s" % (expr_str(data)[:120], LIBCALL))
        names = value_of_names(path)
        if names == ["output"] or (Program.callee_name(t).endswith("write_all") and "output" in names):
            run.ok("C19.X1", "the output file is the --output option", where(t), nontrivial=False)
        else:
            run.bad("C19.X1", "output-path", where(t), "fs::write target derives from %r" % value_of_names(path))
    run.floor("C19.X1", "file_writes", len(writes), 1)
    svg_prints = 0
    for bid, t in prints:
        a = strip(ex.operand(t["args"][0]))
        if a[0] != "call":
            continue
        tmpl = strip(a[2][0])
        pieces = decode_fmt_template(tmpl[2]) if tmpl[0] == "const" else None
        args = []
        if len(a[2]) > 1 and strip(a[2][1])[0] == "agg":
            args = [strip(x) for _, x in strip(a[2][1])[3]]
        carries_svg = any(mentions(x, lambda z: z[0] == "call" and z[1] == LIBCALL) for x in args)
        if not carries_svg:
            continue
        svg_prints += 1
        ok = pieces == [("arg",), ("lit", "\n")] and len(args) == 1 and args[0][0] == "call" and "new_display" in args[0][1] and is_lib(args[0][2][0])
        if ok:
            run.ok("C19.X1", "stdout receives `{}\\n` of the library result", where(t))
        else:
            run.bad("C19.X1", "stdout-output-modified", where(t), "stdout output is template %r of `%s`" % (pieces, expr_str(args[0])[:100] if args else "?"))
    if svg_prints != 1:
        run.bad("C19.X1", "stdout-output-count", where(b), "%d print sites carry the svg, expected 1" % svg_prints)
    # file output and stdout are alternatives of the --output option
    if writes and prints:
        gw = [c for c, tk, sw in guards(prog, MAIN, writes[0][0]) if value_of_names(c) == ["output"]]
        if gw:
            run.ok("C19.X1", "file output is selected by the presence of --output", where(writes[0][1]), nontrivial=False)
        else:
            run.bad("C19.X1", "output-selection", where(writes[0][1]), "fs::write is not guarded by value_of(\"output\")")
    # ---------------- X2 input selection
    text = strip(ex.operand(lt["args"][0]))
    # `input.map_or_else(read_stdin, read_file)`: the combinator is expanded into its alternatives and the CLI's own helper
    # functions are replaced by what they return, so the three sources look the same as when written in place
    text = strip(simplify(inline_calls(prog, expand_combinators(prog, text), crate="svgbob_cli", depth=2)))
    members = []

    def flat(e):
        e = strip(e)
        if e[0] == "phi":
            for x in e[1]:
                flat(x)
        else:
            members.append(e)

    flat(text)
    kinds = set()
    for m in members:
        if m[0] == "call" and m[1].endswith("String::new"):
            kinds.add("empty")
        elif m[0] == "call" and m[1].endswith("str::<impl str>::replace"):
            src, frm, to = [strip(x) for x in m[2]]
            if value_of_names(src) == ["input"] and frm == ("const", "str", "\\n") and to == ("const", "str", "\n"):
                kinds.add("inline")
            else:
                run.bad("C19.X2", "inline-input", where(lt), "inline input is `%s`" % expr_str(m)[:140])
        elif m[0] == "mutated_by" and m[1].endswith("std::fs::File as std::io::Read>::read_to_string"):
            f = m[2][0]
            if mentions(f, lambda z: z[0] == "call" and z[1].endswith("fs::File::open")) and value_of_names(f) == ["input"]:
                kinds.add("file")
            else:
                run.bad("C19.X2", "file-input", where(lt), "file input is read from `%s`" % expr_str(f)[:120])
        elif m[0] == "mutated_by" and m[1].endswith("Stdin as std::io::Read>::read_to_string"):
            kinds.add("stdin")
        else:
            run.bad("C19.X2", "input-source/%s" % (m[1].split("::")[-1] if len(m) > 1 and isinstance(m[1], str) else m[0]), where(lt),
                    "the text handed to the library can also be `%s`" % expr_str(m)[:120])
    if {"inline", "file", "stdin"} <= kinds:
        run.ok("C19.X2", "input text = inline string with \\n expanded | input file | stdin", where(lt), repr(sorted(kinds)))
    else:
        run.bad("C19.X2", "input-modes", where(lt), "input modes found: %s (expected inline, file, stdin)" % sorted(kinds))
    # inline is selected by -s
    # ---------------- X3 option table
    f, v = src_file(run, "svgbob_cli/src/main.rs")
    declared = set()
    if v is not None:
        def scan(n, in_sub=False):
            if isinstance(n, dict):
                if n.get("k") == "method" and n.get("method") == "takes_value":
                    # find the with_name literal in the receiver chain
                    names = find_nodes(n["recv"], lambda z: z.get("k") == "call" and z["func"].get("path", "").endswith("with_name"))
                    if names and names[0]["args"][0].get("ty") == "str":
                        declared.add((names[0]["args"][0]["v"], in_sub))
                    return
                is_sub = n.get("k") == "method" and n.get("method") == "subcommand"
                for key, val in n.items():
                    scan(val, in_sub or (is_sub and key == "args"))
            elif isinstance(n, list):
                for x in n:
                    scan(x, in_sub)
        scan(v)
    top_opts = {n for n, sub in declared if not sub}
    run.record("declared_options", sorted(top_opts))
    # settings local: the one passed to the library
    set_local = None
    cands = [l["id"] for l in b["locals"] if l["ty"] == "svgbob::settings::Settings"]
    if cands:
        # the value passed to the library: follow copies/moves/references back; the settings local is the one of
        # these that receives field stores
        pl = op_place(lt["args"][1])
        chain = set()
        work = [pl["l"]] if pl else []
        while work:
            l = work.pop()
            if l in chain:
                continue
            chain.add(l)
            work.extend(sl.refof.get(l, ()))
            for kind, d, _ in sl.defs.get(l, ()):
                if kind == "assign":
                    for o in d["rv"].get("ops", []):
                        if op_place(o):
                            work.append(op_place(o)["l"])
                    if "place" in d["rv"]:
                        work.append(d["rv"]["place"]["l"])
        has_stores = set()
        for blk in b["blocks"]:
            for st in blk["stmts"]:
                d = st.get("dst")
                if d and any(isinstance(pr, dict) and (pr.get("adt") or "").endswith("settings::Settings") for pr in d["p"]):
                    has_stores.add(d["l"])
        sel = [c for c in cands if c in chain and c in has_stores]
        set_local = sel[0] if len(sel) == 1 else None
    stored = {}
    for blk in b["blocks"]:
        if blk["cleanup"]:
            continue
        for st in blk["stmts"]:
            d = st.get("dst")
            if not d or not st.get("rv"):
                continue
            prs = [pr for pr in d["p"] if isinstance(pr, dict) and (pr.get("adt") or "").endswith("settings::Settings")]
            if prs and d["l"] == set_local:
                e = ex._rvalue(st["rv"], blk["id"], 0)
                stored.setdefault(prs[-1]["name"], []).append((e, st))
    consumed = set()
    TABLE_CALLS.clear()
    if set_local is None or not stored:
        tf = option_table_form(run, prog, MAIN, ex, lt, cands if cands else [], chain if cands else set())
        if tf is not None:
            set_local = tf["settings_local"]
            consumed |= tf["consumed"]
            TABLE_CALLS.update(tf["call_bids"])
    if set_local is None:
        run.bad("C19.X3", "settings-local", where(lt), "the settings passed to the library are not a local of main whose fields receive the options")
    for field, lst in sorted(stored.items()):
        for e, st in lst:
            names = value_of_names(e)
            want = field.replace("_", "-")
            if names == [want]:
                consumed.add(want)
                if field == "scale":
                    e2 = strip(e)
                    okm = e2[0] == "bin" and e2[1] == "Mul" and any(strip(x)[0] in ("field", "param", "call") and "scale" in str(x) for x in (e2[2], e2[3]))
                    if okm:
                        run.ok("C19.X3", "--scale multiplies the default scale", where(st))
                    else:
                        run.bad("C19.X3", "scale-option", where(st), "settings.scale is set to `%s`" % expr_str(e2)[:100])
                else:
                    run.ok("C19.X3", "--%s is stored into settings.%s" % (want, field), where(st))
            else:
                run.bad("C19.X3", "option-crossed/%s" % field, where(st), "settings.%s receives option %r (expected --%s)" % (field, names, want))
    missing = top_opts - consumed - {"output"}
    if missing:
        run.bad("C19.X3", "option-unused/%s" % ",".join(sorted(missing)), f, "declared options %s are never stored into the settings" % sorted(missing))
    run.floor("C19.X3", "options_stored", len(consumed), 7)
    # ---------------- X4 truthful exit
    exits = []
    for p in [q for q in prog.bodies if prog.bodies[q].get("crate") == "svgbob_cli" and q not in EXIT_WRAPPERS]:
        for bid, t in prog.calls(p):
            if exit_status(t) is not None:
                exits.append((p, bid, t))
    run.floor("C19.X4", "exit_sites", len(exits), 3)
    for p, bid, t in exits:
        st_ = exit_status(t)
        code = st_ if isinstance(st_, int) else None
        gs = guards(prog, p, bid, direct=True)
        errish = False
        okish = False
        # an exit in a closure that a combinator runs only on the failure of its receiver (`.unwrap_or_else(|e| fail(..))`)
        if "{closure" in p and not gs:
            parent = p.rsplit("::{closure", 1)[0]
            if parent in prog.bodies:
                pex_ = Expr(prog, parent)
                for _, ct in prog.calls(parent):
                    if re.search(r"^core::(result::Result::<T, E>|option::Option::<T>)::(unwrap_or_else|or_else|map_err)$", Program.callee_name(ct)):
                        for a_ in ct["args"][1:]:
                            av = strip(pex_.operand(a_))
                            if av[0] == "agg" and av[1] == "closure:" + p:
                                recv = pex_.operand(ct["args"][0])
                                if mentions(recv, lambda z: z[0] == "call" and re.search(r"File::open|File::create|fs::write|write_all$|::parse$|read_to_string|create_dir", z[1])):
                                    errish = True
        for cond, tk, sw in gs:
            cs = strip(cond)
            if cs[0] == "discr":
                # Result: 0 = Ok, 1 = Err; Option: 0 = None, 1 = Some
                ty_hint = expr_str(cs)
                is_result = mentions(cs, lambda z: z[0] == "call" and re.search(r"File::open|File::create|fs::write|write_all$|::parse$|svgbob_cli::build|convert_file|read_to_string|create_dir", z[1]))
                # the `apply` entry of the verified option table: its only Err is the parse error of the option's value
                if p == MAIN and strip(cs[1])[0] == "call" and len(strip(cs[1])) > 3 and strip(cs[1])[3] in TABLE_CALLS:
                    is_result = True
                if is_result and tk in (1, ("not", (0,))):
                    errish = True
                if is_result and tk in (0, ("not", (1,))):
                    okish = True
        inst = "exit(%s) in %s" % (code, short(p))
        if code is None:
            run.bad("C19.X4", "exit-nonconstant/%s" % short(p), where(t), "exit status is not a constant")
        elif code != 0 and errish and not okish:
            run.ok("C19.X4", inst + " only on an error outcome", where(t))
        elif code == 0 and okish and not errish:
            run.ok("C19.X4", inst + " only on success", where(t))
        else:
            run.bad("C19.X4", "exit-untruthful/%s/%s" % (short(p), code), where(t),
                    "%s is not control-dependent on exactly the matching outcome (guards: %s)" % (inst, [(expr_str(c)[:60], tk) for c, tk, sw in gs] or "unconditional"))
    # after the batch subcommand every path exits: the call to build post-dominates nothing else.. the Ok arm must reach exit(0)
    # ---------------- X5 no dropped Result
    for p in [q for q in prog.bodies if prog.bodies[q].get("crate") == "svgbob_cli" and "{closure" not in q]:
        pb = prog.bodies[p]
        cfg = prog.cfg(p)
        pex = Expr(prog, p)
        for bid, t in prog.calls(p):
            callee = Program.callee_name(t)
            if callee not in prog.bodies or not t.get("dst_ty", "").startswith("core::result::Result"):
                continue
            inst = "Result of %s in %s" % (short(callee), short(p))
            # find the switch on the discriminant of the result
            handled = None
            for blk in pb["blocks"]:
                sw = blk["term"]
                if sw["k"] != "switch":
                    continue
                c = strip(pex.operand(sw["on"]))
                if c[0] == "discr" and strip(c[1])[0] == "call" and strip(c[1])[1] == callee and len(strip(c[1])) > 3 and strip(c[1])[3] == bid:
                    err_targets = [sw["targets"][i] for i, v in enumerate(sw["values"]) if v == 1]
                    if not err_targets:
                        continue
                    region = cfg.reachable_from(err_targets[0], removed=[blk["id"]])
                    ok_targets = [sw["targets"][i] for i, v in enumerate(sw["values"]) if v == 0]
                    ok_region = cfg.reachable_from(ok_targets[0], removed=[blk["id"]]) if ok_targets else set()
                    only_err = region - ok_region
                    verdict = None
                    for rb in sorted(only_err):
                        tt = pb["blocks"][rb]["term"]
                        es_ = exit_status(tt)
                        if isinstance(es_, int) and es_ != 0:
                            verdict = "exits %d" % es_
                        if tt["k"] == "call" and re.search(r"FromResidual<.*>>::from_residual$", Program.callee_name(tt)):
                            verdict = "propagated with ?"
                    if verdict is None:
                        # failure counter: a local written only in the error arm that controls an Err return / non-zero exit
                        written = set()
                        for rb in only_err:
                            for st in pb["blocks"][rb]["stmts"]:
                                if st.get("rv") and st["rv"]["k"] in ("bin", "use") and not st["dst"]["p"]:
                                    written.add(st["dst"]["l"])
                        psl = prog.slicer(p)
                        for blk2 in pb["blocks"]:
                            sw2 = blk2["term"]
                            if sw2["k"] != "switch":
                                continue
                            deps = psl.slice_operand(sw2["on"])
                            dep_locals = set()
                            # locals feeding the switch: follow the def chain
                            work = [op_place(sw2["on"])["l"]] if op_place(sw2["on"]) else []
                            seen = set()
                            while work:
                                l = work.pop()
                                if l in seen:
                                    continue
                                seen.add(l)
                                for kind, d, _ in psl.defs.get(l, ()):
                                    if kind == "assign":
                                        for o in d["rv"].get("ops", []):
                                            pl2 = op_place(o)
                                            if pl2:
                                                work.append(pl2["l"])
                            if seen & written:
                                for tgt in sw2["targets"]:
                                    for rb in cfg.reachable_from(tgt, removed=[blk2["id"]]) - set().union(*[cfg.reachable_from(o, removed=[blk2["id"]]) for o in sw2["targets"] if o != tgt]):
                                        for st in pb["blocks"][rb]["stmts"]:
                                            rv = st.get("rv") or {}
                                            if rv.get("k") == "agg" and rv.get("variant") == "Err":
                                                verdict = "counted and turned into an Err return"
                    handled = verdict
            if handled:
                run.ok("C19.X5", inst + ": " + handled, where(t))
            else:
                run.bad("C19.X5", "dropped-error/%s/%s" % (short(p), short(callee)), where(t),
                        "%s: the error arm neither exits non-zero, propagates, nor feeds a failure that is reported" % inst)
    x8(run)
    x7(run, MAIN)
    x9(run)
    x6(run)
    batch(run)
    run.assume("clap parses the command line as documented; fs::write may leave a partial file on I/O errors (not decided)")


TABLE_CALLS = set()


def option_table_form(run, prog, main, ex, lt, cands, chain):
    """X3 for table-driven option handling: `for (name, apply) in TABLE { if let Some(v) = args.value_of(name) { apply(&mut
    settings, v)? } }` with `const TABLE: [(&str, fn(&mut Settings, &str) -> Result<(), String>); N]`.  Verified parts:
    every entry's closure stores exactly one Settings field, the one named like the entry (`-` -> `_`), from its value
    parameter (scale: multiplies); main reads value_of(<entry>.0) and calls <entry>.1 of the same entry with the settings
    local that goes to the library and that value.  Returns None when the code is not of this form."""
    b = prog.bodies[main]
    ind = [(bid, t) for bid, t in prog.calls(main) if isinstance(t["callee"], dict) and t["callee"].get("indirect") == "fnptr" and len(t["args"]) == 2]
    if len(ind) != 1:
        return None
    bid, t = ind[0]
    fnp = strip(ex.operand(t["callee"]["op"]))
    if not (fnp[0] == "field" and tuple(fnp[2])[-3:] == ("@Some", "0", "1")):
        return None
    item = strip(fnp[1])
    tables = []
    mentions(item, lambda z: ((z[0] == "static" and tables.append(z[1])) or (z[0] == "const" and isinstance(z[2], str) and z[2] in prog.bodies and tables.append(z[2]))) and False)
    if len(set(tables)) != 1 or not (item[0] == "call" and re.search(r"Iterator>?::next$", item[1])):
        return None
    table = tables[0]
    if re.search(r"Iterator::(filter|skip|take|step_by|rev|zip|chain)", expr_str(item)):
        return None
    # the two arguments
    a0, a1 = t["args"]
    pl0 = op_place(a0)
    sl = prog.slicer(main)
    tgt = set()
    work = [pl0["l"]] if pl0 else []
    while work:
        l = work.pop()
        if l in tgt:
            continue
        tgt.add(l)
        for kind, d, _ in sl.defs.get(l, ()):
            if kind == "assign" and "place" in d["rv"]:
                work.append(d["rv"]["place"]["l"])
            if kind == "assign":
                for o in d["rv"].get("ops", []):
                    if op_place(o):
                        work.append(op_place(o)["l"])
    sel = [c for c in cands if c in tgt and c in chain]
    if len(sel) != 1:
        return None
    val = strip(ex.operand(a1))
    okv = val[0] == "field" and tuple(val[2])[:2] == ("@Some", "0") and strip(val[1])[0] == "call" and strip(val[1])[1].endswith("ArgMatches::<'a>::value_of") and \
        (lambda nm: nm[0] == "field" and tuple(nm[2])[-3:] == ("@Some", "0", "0") and strip(nm[1]) == item)(strip(strip(val[1])[2][1]))
    if not okv:
        run.bad("C19.X3", "option-table-call", where(t), "the table's apply function is not called with value_of(<the same entry's name>): `%s`" % expr_str(val)[:120])
        return None
    # the table itself
    rets = [strip(r) for r in Expr(prog, table).returns()]
    if len(rets) != 1 or rets[0][0] != "agg" or rets[0][1] != "array":
        return None
    consumed = set()
    for _, ent in rets[0][3]:
        ent = strip(ent)
        if not (ent[0] == "agg" and len(ent[3]) == 2):
            return None
        nm, fn = strip(ent[3][0][1]), strip(ent[3][1][1])
        while fn[0] == "cast":
            fn = strip(fn[2])
        cl, _caps = closure_of(fn)
        if not (nm[0] == "const" and nm[1] == "str" and cl in prog.bodies):
            return None
        name = nm[2]
        cb = prog.bodies[cl]
        cex = Expr(prog, cl)
        stores = []
        for blk in cb["blocks"]:
            if blk.get("cleanup"):
                continue
            for st in blk["stmts"]:
                d = st.get("dst")
                if d and st.get("rv") and any(isinstance(pr, dict) and (pr.get("adt") or "").endswith("settings::Settings") for pr in d["p"]):
                    fld = [pr for pr in d["p"] if isinstance(pr, dict) and (pr.get("adt") or "").endswith("settings::Settings")][-1]["name"]
                    stores.append((d["l"], fld, cex._rvalue(st["rv"], blk["id"], 0), st))
        want = name.replace("-", "_")
        if len(stores) != 1 or stores[0][0] != 2:
            run.bad("C19.X3", "option-table-entry/%s" % name, where(cb), "the table entry of --%s stores %s" % (name, [(s_[1]) for s_ in stores] or "nothing"))
            continue
        _, fld, e, st = stores[0]
        from_value = mentions(e, lambda z: z[0] == "param" and z[1] == 3) and not mentions(e, lambda z: z[0] == "call" and z[1].endswith("value_of"))
        if fld != want or not from_value:
            run.bad("C19.X3", "option-crossed/%s" % fld, where(st), "settings.%s receives option %r (expected --%s)" % (fld, [name], fld.replace("_", "-")))
            continue
        if fld == "scale":
            e2 = strip(e)
            # `settings.scale *= v`: a product of the field itself (self-reference: 'deep') and the parsed value
            ops_ = set()
            mentions(e2, lambda z: z[0] == "bin" and ops_.add(z[1]) and False)
            selfref = mentions(e2, lambda z: z == ("deep",) or (z[0] == "param" and z[1] == 2 and z[2][-1:] == ("scale",)))
            okm = e2[0] == "bin" and ops_ == {"Mul"} and selfref
            if not okm:
                run.bad("C19.X3", "scale-option", where(st), "settings.scale is set to `%s`" % expr_str(e2)[:100])
                continue
            run.ok("C19.X3", "--scale multiplies the default scale", where(st), "table entry")
        else:
            run.ok("C19.X3", "--%s is stored into settings.%s" % (name, fld), where(st), "table entry")
        consumed.add(name)
    # the Err of `apply` (the value does not parse) must end the run with a failure status
    cfg = prog.cfg(main)
    handled = False
    for blk in b["blocks"]:
        sw = blk["term"]
        if sw["k"] != "switch":
            continue
        c = strip(ex.operand(sw["on"]))
        if c[0] == "discr" and strip(c[1])[0] == "call" and len(strip(c[1])) > 3 and strip(c[1])[3] == bid:
            errs = [sw["targets"][i] for i, v in enumerate(sw["values"]) if v == 1] or ([sw["targets"][-1]] if 1 not in sw["values"] else [])
            oks = [sw["targets"][i] for i, v in enumerate(sw["values"]) if v == 0] or ([sw["targets"][-1]] if 0 not in sw["values"] else [])
            if errs and oks and errs[0] != oks[0]:
                only_err = cfg.reachable_from(errs[0], removed=[blk["id"]]) - cfg.reachable_from(oks[0], removed=[blk["id"]])
                # every way out of the error arm is a non-zero exit: the arm's blocks never rejoin the success path
                exits_ = [rb for rb in only_err if isinstance(exit_status(b["blocks"][rb]["term"]), int) and exit_status(b["blocks"][rb]["term"]) != 0]
                rejoin = [rb for rb in only_err for s_ in cfg.succ.get(rb, []) if s_ not in only_err]
                handled = bool(exits_) and not rejoin
    if not handled:
        run.bad("C19.X3", "option-table-error-dropped", where(t), "the Err returned by the option table's apply function (illegal option value) does not end the run with a non-zero exit status")
    return {"settings_local": sel[0], "consumed": consumed, "call_bids": {bid} if handled else set()}


LOSSY_NAME = re.compile(r"Path(Buf)?::(set_extension|with_extension|set_file_name|with_file_name|pop|file_prefix)$|"
                        r"str::(trim\w*|replace\w*|replacen|split\w*|rsplit\w*|to_lowercase|to_uppercase|to_ascii_\w+)$|String::(truncate|pop|remove|retain|drain)$|"
                        r"OsStr::to_string_lossy$|Path::to_string_lossy$")


def x9(run):
    """X9 the batch mode writes one document per matching file: the destination handed to convert_file is
    `<out dir>/<file stem of the source>.svg` - the stem of *that* directory entry, completed by a constant suffix, so two
    different source names can never get the same destination.  Operations that cut or replace part of the name
    (set_extension / with_extension replace what follows the *last* dot of the stem: `a.v2.bob` -> `a.svg`; trimming,
    splitting, case folding, lossy decoding) are reported where the destination is built."""
    prog = run.prog
    b = "svgbob_cli::build"
    if b not in prog.bodies:
        run.missing("C19.X9", b)
        return
    region = [b] + [c for c in prog.closures_of(b)]
    sites = []
    for q in region:
        qex = None
        for bid, t in prog.calls(q):
            if Program.callee_name(t).endswith("svgbob_cli::convert_file") and len(t["args"]) == 2:
                qex = qex or Expr(prog, q)
                # helpers of the CLI that build the paths (`svg_destination(out_dir, source)`) are replaced by what they return
                sites.append((q, t, strip(qex.operand(t["args"][0])), strip(simplify(inline_calls(prog, qex.operand(t["args"][1]), crate="svgbob_cli", depth=2)))))
    if not sites:
        run.missing("C19.X9", "call of convert_file in build")
        return
    any_next = lambda z: z[0] == "call" and re.search(r"Iterator>?::next$", z[1])

    def core(e):
        e = strip(e)
        while e[0] == "call" and e[2] and re.search(r"Clone>::clone$|Deref>::deref$|PathBuf::as_path$|Path::to_path_buf$|AsRef<.*>>::as_ref$|Borrow<.*>>::borrow$|ToOwned>::to_owned$", e[1]):
            e = strip(e[2][0])
        return e
    for q, t, src, dst in sites:
        lossy = set()
        mentions(dst, lambda z: z[0] in ("call", "mutated_by") and isinstance(z[1], str) and LOSSY_NAME.search(z[1]) and lossy.add(z[1]) and False)
        if lossy:
            run.bad("C19.X9", "batch-destination-lossy", where(t),
                    "build derives the output file name with %s: part of the source name is cut off or replaced, so different sources (`flow.bob`, `flow.v2.bob`) can be written to the same file and one document is lost without a diagnostic" % ", ".join(sorted(short(x) for x in lossy)))
            continue
        # positive form: push/join of format!("{}.svg", file_stem(<this entry>))
        ok = False
        cands = []
        mentions(dst, lambda z: ((z[0] == "mutated_by" and re.search(r"PathBuf::push$", z[1]) and len(z[2]) == 2 and cands.append(z[2][1])) or
                                  (z[0] == "call" and re.search(r"Path::join$", z[1]) and len(z[2]) == 2 and cands.append(z[2][1]))) and False)
        for c in cands:
            fp = format_parts(c)
            if not fp:
                continue
            pieces, args = fp
            if [pc[0] for pc in pieces] == ["arg", "lit"] and pieces[1][1] == ".svg" and len(args) == 1:
                a = args[0][1]
                stem = []
                mentions(a, lambda z: z[0] == "call" and z[1].endswith("Path::file_stem") and stem.append(z) and False)
                # the stem is taken from the very path that is converted (same value up to clones / derefs)
                per_item = mentions(src, any_next) or ("{closure" in q and mentions(src, lambda z: z[0] == "param" and z[1] >= 2))
                if len(stem) == 1 and stem[0][2] and core(stem[0][2][0]) == core(src) and per_item:
                    ok = True
        if ok:
            run.ok("C19.X9", "build writes <out dir>/<file stem of the entry>.svg (constant suffix appended to the whole stem)", where(t))
        else:
            run.bad("C19.X9", "batch-destination-shape", where(t), "the destination passed to convert_file is `%s`, not <out dir> joined with format!(\"{}.svg\", <file stem of the entry>)" % expr_str(dst)[:160])


def x8(run):
    """X8 an option value that does not parse is a failure.  Every `str::parse` in the CLI crate either has an
    error arm that exits non-zero / is propagated in a returned Result, or — when the error is discarded
    (`.ok()`, `unwrap_or..`) — every option whose value reaches that parse is declared with a clap validator."""
    prog = run.prog
    cli = [q for q in prog.bodies if prog.bodies[q].get("crate") == "svgbob_cli"]
    f, v = src_file(run, "svgbob_cli/src/main.rs")
    validated, declared = set(), set()
    if v is not None:
        for n in find_nodes(v, lambda z: z.get("k") == "method" and z.get("method") == "arg" and z.get("args")):
            a = n["args"][0]
            names = find_nodes(a, lambda z: z.get("k") == "call" and z["func"].get("path", "").endswith("with_name"))
            if not names or names[0]["args"][0].get("ty") != "str":
                continue
            nm = names[0]["args"][0]["v"]
            declared.add(nm)
            if find_nodes(a, lambda z: z.get("k") == "method" and z.get("method") in ("validator", "validator_os", "possible_values", "possible_value")):
                validated.add(nm)
    n_parse = 0
    for p in cli:
        pb = prog.bodies[p]
        cfg = prog.cfg(p)
        pex = Expr(prog, p)
        for bid, t in prog.calls(p):
            if not re.search(r"^core::str::<impl str>::parse$", Program.callee_name(t)):
                continue
            n_parse += 1
            handled = None
            for blk in pb["blocks"]:
                sw = blk["term"]
                if sw["k"] != "switch":
                    continue
                c = strip(pex.operand(sw["on"]))
                if c[0] == "discr" and strip(c[1])[0] == "call" and len(strip(c[1])) > 3 and strip(c[1])[3] == bid and strip(c[1])[1] == Program.callee_name(t):
                    errs = [sw["targets"][i] for i, vv in enumerate(sw["values"]) if vv == 1]
                    oks = [x for x in sw["targets"] if x not in errs]
                    if errs:
                        reg = cfg.reachable_from(errs[0], removed=[blk["id"]])
                        for o in oks:
                            reg -= cfg.reachable_from(o, removed=[blk["id"]])
                        for rb in reg:
                            tt = pb["blocks"][rb]["term"]
                            es_ = exit_status(tt)
                            if isinstance(es_, int) and es_ != 0:
                                handled = "the error arm exits %d" % es_
            if handled is None and not t["dst"]["p"]:
                # `.parse().unwrap_or_else(|e| <exit non-zero>)`
                for u, idx in prog.slicer(p).forward_uses(t["dst"]["l"]):
                    if u.get("k") == "call" and re.search(r"^core::result::Result::<T, E>::unwrap_or_else$", Program.callee_name(u)) and idx == 0 and len(u["args"]) == 2:
                        cl_, _ = closure_of(strip(pex.operand(u["args"][1])))
                        if cl_ in prog.bodies:
                            for _, t3 in prog.calls(cl_):
                                es_ = exit_status(t3)
                                if isinstance(es_, int) and es_ != 0:
                                    handled = "the error is handed to a closure that exits %d" % es_
            if handled is None and pb["locals"][0]["ty"].startswith("core::result::Result"):
                if any(mentions(r, lambda z: z[0] == "call" and len(z) > 3 and z[3] == bid and z[1] == Program.callee_name(t)) for r in pex.returns()):
                    handled = "the Result is returned to the caller"
            inst = "str::parse in %s" % short(p)
            if handled:
                run.ok("C19.X8", "%s: %s" % (inst, handled), where(t))
                continue
            # the error is discarded: which options reach this parse?
            names = set(value_of_names(pex.operand(t["args"][0])))
            owner = p.split("::{closure")[0]
            for q in cli:
                qex = None
                for _, ct in prog.calls(q):
                    if Program.callee_name(ct) == owner and owner != MAIN:
                        qex = qex or Expr(prog, q, opaque=r"get_matches$")
                        if "alloc::string::String" in (ct["callee"].get("generics") or [])[:1]:
                            continue  # parse::<String> cannot fail (Err = Infallible)
                        for a in ct["args"]:
                            e = strip(qex.operand(a))
                            if e[0] == "const" and e[1] == "str":
                                names.add(e[2])
            unvalidated = sorted(n for n in names if n not in validated)
            if names and not unvalidated:
                run.ok("C19.X8", "%s discards the error, but every option that reaches it (%s) has a clap validator" % (inst, ", ".join(sorted(names))), where(t))
            else:
                run.bad("C19.X8", "dropped-parse-error/%s" % short(owner), where(t),
                        "%s discards the parse error and %s reach%s it without a clap validator: an unparsable value is silently ignored, the run exits 0 with no diagnostic and writes a document for other settings" % (
                            inst, ("option(s) " + ", ".join("--" + n for n in unvalidated)) if unvalidated else "values of unknown origin", "" if len(unvalidated) != 1 else "es"))
    run.floor("C19.X8", "parse_sites", n_parse, 1)


CREATE = r"^std::fs::write$|^std::fs::File::create(_new)?$|^std::fs::OpenOptions::open$|^std::fs::copy$|^std::fs::rename$"


def x7(run, fn):
    """X7 no partial output: once the destination file has been created (or truncated) no failure exit can
    still happen, except the one that reports the failure of that very write.  Creation events of `fn`: calls
    to fs::write / File::create / OpenOptions::open in `fn`, and calls in `fn` that are handed a closure of
    `fn` containing such a call.  Failure exits: process::exit(non-zero) and calls of svgbob_cli functions that
    reach one."""
    prog = run.prog
    b = prog.bodies[fn]
    cfg = prog.cfg(fn)
    ex = Expr(prog, fn, opaque=r"get_matches$")
    cli = [q for q in prog.bodies if prog.bodies[q].get("crate") == "svgbob_cli"]

    def nonzero_exit(t):
        es_ = exit_status(t)
        return es_ is not None and es_ != 0

    E = prog.edges()
    failing = {q for q in cli if any(nonzero_exit(t) for _, t in prog.calls(q))}
    changed = True
    while changed:
        changed = False
        for q in cli:
            if q not in failing and any(c in failing for c in E.get(q, ())):
                failing.add(q)
                changed = True
    creating_closures = {q for q in prog.closures_of(fn) if any(re.search(CREATE, Program.callee_name(t)) for _, t in prog.calls(q))}
    events = []
    for bid, t in prog.calls(fn):
        name = Program.callee_name(t)
        if re.search(CREATE, name):
            events.append((bid, t, name))
            continue
        for a in t["args"]:
            e = ex.operand(a)
            e = strip(e)
            hit = [q for q in creating_closures if e[0] == "agg" and e[1] == "closure:" + q]
            if hit:
                events.append((bid, t, "%s(%s)" % (short(name), short(hit[0]))))
    if creating_closures and not any("closure" in d for _, _, d in events):
        run.bad("C19.X7", "creation-site-unresolved/%s" % short(fn), where(b), "a closure of %s creates a file but the call that runs it was not found" % short(fn))
    for bid, t, desc in events:
        # the error arm that reports this write's own failure
        own = set()
        for blk in b["blocks"]:
            sw = blk["term"]
            if sw["k"] != "switch":
                continue
            c = strip(ex.operand(sw["on"]))
            def only_this_write_can_fail(v):
                """the Result that is tested is this write's (possibly mapped), or one of several alternatives of which every
                other one is a constant Ok (the other output modes of a helper that was spliced in)"""
                v = strip(v)
                alts_ = [strip(a) for a in v[1]] if v[0] == "phi" else [v]
                mine = [a for a in alts_ if a[0] == "call" and mentions(a, lambda z: z[0] == "call" and len(z) > 3 and z[3] == bid and z[1] == Program.callee_name(t))]
                rest = [a for a in alts_ if a not in mine]
                return bool(mine) and all(a[0] == "agg" and a[2] == "Ok" for a in rest)
            if re.search(CREATE, Program.callee_name(t)) and c[0] == "discr" and only_this_write_can_fail(c[1]):
                errs = [sw["targets"][i] for i, v in enumerate(sw["values"]) if v == 1]
                oks = [x for x in sw["targets"] if x not in errs]
                if errs:
                    reg = cfg.reachable_from(errs[0], removed=[blk["id"]])
                    for o in oks:
                        reg -= cfg.reachable_from(o, removed=[blk["id"]])
                    own |= reg
        after = set()
        for tg in t.get("targets", []):
            after |= cfg.reachable_from(tg)
        late = []
        for rb in sorted(after - own):
            tt = b["blocks"][rb]["term"]
            if b["blocks"][rb].get("cleanup") or tt["k"] != "call":
                continue
            cn = Program.callee_name(tt)
            if nonzero_exit(tt) or cn in failing or any(
                    strip(ex.operand(a))[0] == "agg" and str(strip(ex.operand(a))[1])[8:] in failing for a in tt["args"]):
                late.append((cn, tt))
        if late:
            cn, tt = late[0]
            run.bad("C19.X7", "partial-output/%s" % short(fn), where(tt),
                    "the destination is created at %s (%s) but %s at %s can still end the run with a failure status afterwards: a failed run leaves an empty or truncated output file" % (
                        where(t), desc, short(cn), where(tt)))
        else:
            run.ok("C19.X7", "no failure exit can follow the creation of the output by %s" % desc, where(t),
                   "%d blocks follow; the error arm of this write itself is excluded (%d blocks)" % (len(after), len(own)))
    run.floor("C19.X7", "creation_events/%s" % short(fn), len(events), 1)


def x6(run):
    # ---------------- X6 library stdout
    prog = run.prog
    roots, reach = lib_reachable(run, "C19.X6")
    for p in sorted(reach):
        for bid, t in prog.calls(p):
            if re.search(r"std::io::stdio::_e?print$", Program.callee_name(t)):
                if p in REVIEWED_PRINTS:
                    run.ok("C19.X6", "reviewed diagnostic print in %s" % short(p), where(t), REVIEWED_PRINTS[p])
                else:
                    run.bad("C19.X6", "library-print/%s" % short(p), where(t),
                            "%s prints to stdout on the conversion path (reached via %s): the CLI's stdout would no longer be exactly the document" % (
                                p, " -> ".join(short(x) for x in prog.path_to(p)[-4:])))


def batch(run):
    # batch mode: convert_file writes the library's default conversion of the file
    prog = run.prog
    cf = "svgbob_cli::convert_file"
    if cf in prog.bodies:
        cex = Expr(prog, cf)
        ws = [t for _, t in prog.calls(cf) if Program.callee_name(t) == "std::fs::write"]
        ok = len(ws) == 1
        if ok:
            data = strip(cex.operand(ws[0]["args"][1]))
            ok = data[0] == "call" and data[1] == LIBCALL and mentions(data[2][0], lambda z: z[0] == "mutated_by" and z[1].endswith("read_to_string")) and \
                strip(data[2][1])[0] == "call" and strip(data[2][1])[1].endswith("Settings as core::default::Default>::default") and \
                strip(cex.operand(ws[0]["args"][0])) == ("param", 2, ())
        if ok:
            run.ok("C19.X1", "batch mode writes to_svg_with_settings(file text, default settings) to the output path", where(ws[0]))
        else:
            run.bad("C19.X1", "batch-output", where(prog.bodies[cf]), "convert_file does not write the unmodified default conversion of the file it read")
        x7(run, cf)
    else:
        run.missing("C19.X1", cf)


run_flow = run
fixture = x6
FIXTURE_EXPECT = ["library-print/"]
