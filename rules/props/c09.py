"""C09 (straight runs become one line) — structural clauses:
T0 model conformance; T1 per-cell continuity: for every run character (ASCII `- ~ _ = | : ! / \\`
and every box-drawing glyph whose fragments are edge-to-edge lines) the fragments of a cell whose
two neighbours along the run carry the same character, placed next to the neighbour's fragments,
form exactly as many maximal collinear segments as a single cell has (1, or 2 for the double line):
the segments are edge-to-edge, share their border end points and are collinear (exact rationals);
M1 Line::merge keeps the extreme end points of both lines and is dashed if either part is dashed;
can_merge = touching and both end points collinear; Fragment::merge maps (Line, Line) to it;
M2 the contacts of a span are built only from merge_fragment_spans(), which is merge_recursive —
a fixpoint (recursion while the number of items shrinks; an item is pushed only when it merged with
no existing group).  Not decided: util::is_collinear's float threshold and the greedy merge order
on long diagonals."""
import re
from fractions import Fraction

from .. import tae_conf
from ..common import guards, short, src_fn, where, find_nodes
from ..exprs import bool_function, expand_combinators, simplify, mentions, strip
from ..mirlib import op_const, op_place, Expr, Program, expr_str
from ..tae import DIRS, DIR_OFF, TableError, Tables

F = Fraction
RUNS = [("-", "h"), ("~", "h"), ("_", "h"), ("=", "h"), ("|", "v"), (":", "v"), ("!", "v"), ("/", "d1"), ("\\", "d2")]
AXIS = {"h": ("left", "right"), "v": ("top", "bottom"), "d1": ("bottom_left", "top_right"), "d2": ("top_left", "bottom_right")}


# box-drawing / dash characters whose Unicode name says "horizontal", "vertical" or "diagonal" line
NAMED_RUN_GLYPHS = {
    "\u2500": "h", "\u2501": "h", "\u2504": "h", "\u2505": "h", "\u2508": "h", "\u2509": "h", "\u254c": "h", "\u254d": "h", "\u2550": "h",
    "\u2013": "h", "\u2014": "h", "\u203e": "h", "\u00af": "h",
    "\u2502": "v", "\u2503": "v", "\u2506": "v", "\u2507": "v", "\u250a": "v", "\u250b": "v", "\u254e": "v", "\u254f": "v", "\u2551": "v",
    "\u258f": "v", "\u2595": "v",
    "\u2571": "d1", "\u2572": "d2",
}


def shift(fr, dx, dy):
    def sp(p):
        return ("pt", p[1] + dx, p[2] + dy)
    if fr[0] == "line":
        return ("line", sp(fr[1]), sp(fr[2]), fr[3], fr[4])
    return fr


def maximal(frags):
    """maximal collinear touching segments: {(dir, offset, broken): [(lo, hi)]} -> list"""
    by = {}
    for fr in frags:
        if fr[0] != "line":
            continue
        a, b = fr[1], fr[2]
        dx, dy = b[1] - a[1], b[2] - a[2]
        if dx < 0 or (dx == 0 and dy < 0):
            dx, dy = -dx, -dy
        d = (F(1), dy / dx) if dx != 0 else (F(0), F(1))
        off = a[1] * d[1] - a[2] * d[0]
        t = lambda p: p[1] * d[0] + p[2] * d[1]
        lo, hi = sorted((t(a), t(b)))
        by.setdefault((d, off), []).append((lo, hi, fr[3]))
    out = []
    for key, ivs in by.items():
        ivs.sort()
        cur = list(ivs[0])
        for lo, hi, br in ivs[1:]:
            if lo <= cur[1]:
                cur[1] = max(cur[1], hi)
                cur[2] = cur[2] or br
            else:
                out.append((key, tuple(cur)))
                cur = [lo, hi, br]
        out.append((key, tuple(cur)))
    return out


def direction_of(fr):
    """run direction of an edge-to-edge line in the unit cell, else None"""
    if fr[0] != "line":
        return None
    a, b = fr[1], fr[2]
    if a[2] == b[2] and {a[1], b[1]} == {F(0), F(1)}:
        return "h"
    if a[1] == b[1] and {a[2], b[2]} == {F(0), F(2)}:
        return "v"
    if {(a[1], a[2]), (b[1], b[2])} == {(F(0), F(0)), (F(1), F(2))}:
        return "d2"
    if {(a[1], a[2]), (b[1], b[2])} == {(F(1), F(0)), (F(0), F(2))}:
        return "d1"
    return None


def run(run):
    prog = run.prog
    tae_conf.check(run, "C09.T0")
    try:
        T = Tables(run)
    except TableError as ex:
        run.missing("C09.T1", "character tables (%s)" % ex)
        T = None
    if T:
        cases = []
        for ch, d in RUNS:
            if ch not in T.ascii:
                run.missing("C09.T1", "table entry for run character %r" % ch)
                continue
            cases.append((ch, d, "%s:%d" % (T.ascii_file, T.ascii[ch]["line"])))
        for ch, ent in sorted(T.unicode.items()):
            frs = ent["frags"]
            w = "%s:%d" % (T.unicode_file, ent["line"])
            if ch in NAMED_RUN_GLYPHS:
                # by the Unicode name of the character it is a straight run glyph in that direction
                cases.append((ch, NAMED_RUN_GLYPHS[ch], w))
            elif frs and all(fr[0] == "line" for fr in frs):
                ds = {direction_of(fr) for fr in frs}
                if len(ds) == 1 and None not in ds:
                    cases.append((ch, ds.pop(), w))
        run.floor("C09.T1", "run_characters", len(cases), 15)
        for ch, d, w in cases:
            a, b = AXIS[d]
            nb = {x: None for x in DIRS}
            nb[a] = ch
            nb[b] = ch
            if ch in T.ascii:
                frs = T.fragments(ch, nb)
            else:
                frs = list(T.unicode[ch]["frags"])
            single = maximal(frs)
            dx, dy = DIR_OFF[b]
            other = [shift(fr, F(dx), F(2 * dy)) for fr in frs]
            both = maximal(frs + other)
            want = (2 if ch == "=" else 1) if ch in T.ascii else len(single)
            inst = "run of %r (%s)" % (ch, {"h": "horizontal", "v": "vertical", "d1": "diagonal /", "d2": "diagonal \\"}[d])
            only_lines = all(fr[0] == "line" for fr in frs)
            if not frs or not only_lines:
                run.bad("C09.T1", "run-fragments/%s" % ch, w, "%s: a cell inside a run yields %s instead of line segment(s)" % (inst, [fr[0] for fr in frs] or "nothing"))
                continue
            if len(single) != want:
                run.bad("C09.T1", "run-segments/%s" % ch, w, "%s: a cell inside a run yields %d separate segment(s), expected %d" % (inst, len(single), want))
                continue
            if len(both) != want:
                run.bad("C09.T1", "run-continuity/%s" % ch, w,
                        "%s: the segments of two adjacent cells do not join into %d straight line(s) (they form %d pieces: not edge-to-edge, not sharing the border end point, or not collinear)" % (inst, want, len(both)))
                continue
            # full span: each joined piece is twice as long as the single one
            ok = True
            for (k1, s1), (k2, s2) in zip(sorted(single), sorted(both)):
                if k1 != k2 or (s2[1] - s2[0]) != 2 * (s1[1] - s1[0]):
                    ok = False
            if ok:
                run.ok("C09.T1", inst, w, "%d edge-to-edge segment(s), joined across the cell border" % want)
            else:
                run.bad("C09.T1", "run-continuity/%s" % ch, w, "%s: segments overlap or leave a gap across the cell border" % inst)
        # dashed-ness of the run characters
        for ch, broken in (("-", False), ("|", False), ("~", True), (":", True), ("!", True), ("_", False), ("=", False)):
            if ch in T.ascii:
                a, b = AXIS[dict(RUNS)[ch]]
                nb = {x: None for x in DIRS}
                nb[a] = ch
                nb[b] = ch
                frs = [fr for fr in T.fragments(ch, nb) if fr[0] == "line"]
                if frs and all(fr[3] == broken for fr in frs):
                    run.ok("C09.T1", "%r draws %s segments" % (ch, "dashed" if broken else "solid"), "%s:%d" % (T.ascii_file, T.ascii[ch]["line"]), nontrivial=False)
                else:
                    run.bad("C09.T1", "run-dash/%s" % ch, "%s:%d" % (T.ascii_file, T.ascii[ch]["line"]), "%r should draw %s segments" % (ch, "dashed" if broken else "solid"))

    merge_rules(run, "C09.M1")
    m2_rules(run)
    run.assume("is_collinear / Segment::contains_point float tolerances are not decided (long diagonals)")


def merge_rules(run, R):
    """Line::merge / can_merge / Fragment::merge plumbing (shared with C05: box sides with dashed stretches
    must merge into one line, otherwise the box is not recognised)"""
    prog = run.prog
    # ---------------- the collinearity predicate is an absolute bound
    ic = [q for q in prog.bodies if q.endswith("util::is_collinear")]
    if len(ic) != 1:
        run.missing(R, "util::is_collinear")
    else:
        rets = [strip(r) for r in Expr(prog, ic[0]).returns()]
        ok = False
        why = "%d return expressions" % len(rets)
        if len(rets) == 1 and rets[0][0] == "bin" and rets[0][1] in ("Lt", "Le", "Gt", "Ge"):
            lhs, rhs = strip(rets[0][2]), strip(rets[0][3])
            if rets[0][1] in ("Gt", "Ge"):
                lhs, rhs = rhs, lhs
            ps = set()
            mentions(lhs, lambda z: z[0] == "param" and ps.add(z[1]) and False)
            if rhs[0] == "const" and rhs[1] == "float" and 0 < float(rhs[2]) <= 0.0625 and ps == {1, 2, 3}:
                ok = True
                why = "f(a, b, c) %s %g" % ("<" if rets[0][1] in ("Lt", "Gt") else "<=", float(rhs[2]))
            else:
                why = "`%s`" % expr_str(rets[0])[:160]
        if ok:
            run.ok(R, "is_collinear is an absolute bound on a measure of the three points (%s)" % why, where(prog.bodies[ic[0]]),
                   "an area bound below 1/16 keeps a perpendicular half-cell stub from ever being collinear with a line, however long the line")
        else:
            run.bad(R, "collinear-not-absolute", where(prog.bodies[ic[0]]),
                    "util::is_collinear is not `measure(a, b, c) < constant` (%s): with a tolerance that grows with the length of the lines a perpendicular stub far from the "
                    "start of a long line counts as collinear, is merged into it and the line comes out slanted" % why)
    # ---------------- M1 Line::merge
    lm = prog.method("merge", r"line::Line$", "")
    if not lm:
        run.missing(R, "Line::merge")
    else:
        b = prog.bodies[lm]
        rets = []
        for r in Expr(prog, lm).returns():
            r = strip(simplify(expand_combinators(prog, r)))   # `self.can_merge(other).then(|| Line::new(..))`
            rets.extend(strip(a) for a in r[1]) if r[0] == "phi" else rets.append(r)
        some = [r for r in rets if r[0] == "agg" and r[2] == "Some"]
        none = [r for r in rets if r[0] == "agg" and r[2] == "None"]
        if len(some) == 1 and len(some) + len(none) == len(rets):
            c = strip(some[0][3][0][1])
            okc = c[0] == "call" and c[1].endswith("line::Line::new") and len(c[2]) == 3
            if okc:
                s, e, br = [strip(x) for x in c[2]]
                def minmax(x, fn, field):
                    return x[0] == "call" and x[1].endswith("cmp::" + fn) and \
                        {str(strip(x[2][0])), str(strip(x[2][1]))} == {str(("param", 1, (field,))), str(("param", 2, (field,)))}
                if minmax(s, "min", "start"):
                    run.ok(R, "merged start = min(self.start, other.start)", where(b))
                else:
                    run.bad(R, "merge-start", where(b), "merged line starts at `%s`, expected min of both starts" % expr_str(s))
                if minmax(e, "max", "end"):
                    run.ok(R, "merged end = max(self.end, other.end)", where(b))
                else:
                    run.bad(R, "merge-end", where(b), "merged line ends at `%s`, expected max of both ends" % expr_str(e))
            else:
                run.bad(R, "merge-shape", where(b), "Line::merge does not build Line::new(start, end, broken): %s" % expr_str(some[0])[:140])
        else:
            run.bad(R, "merge-shape", where(b), "Line::merge returns %s" % " | ".join(expr_str(r)[:60] for r in rets))
        # `||` is control flow in MIR: read it from the syntax tree
        it = src_fn(run, "fragment/line.rs", "merge", impl_self="Line")
        if it is None:
            run.missing(R, "source of Line::merge")
        else:
            calls = find_nodes(it["body"], lambda n: n.get("k") == "call" and n["func"].get("path", "").endswith("Line::new") and len(n["args"]) == 3)
            fld = lambda n: (n.get("k") == "field" and n["base"].get("k") == "path" and (n["base"]["path"], n["member"]))
            ok = False
            for c in calls:
                a = c["args"][2]
                if a.get("k") == "binary" and a["op"] == "||":
                    ops = {fld(a["l"]), fld(a["r"])}
                    params = [p.get("pat", {}).get("name") for p in it["sig"]["inputs"] if "pat" in p]
                    if ops == {("self", "is_broken"), (params[0] if params else "other", "is_broken")}:
                        ok = True
            if ok:
                run.ok(R, "merged line is dashed iff self.is_broken || other.is_broken", "%s:%d" % (it["_file"], it["pos"][0]))
            else:
                run.bad(R, "merge-dashed", "%s:%d" % (it["_file"], it["pos"][0]), "the dashed flag of a merged line is not `self.is_broken || other.is_broken`")
        # guarded by can_merge
        cm = prog.method("can_merge", r"line::Line$", "")
        if cm:
            g = [t for _, t in prog.calls(lm) if Program.callee_name(t) == cm]
            if g:
                run.ok(R, "merge is guarded by can_merge", where(g[0]), nontrivial=False)
            else:
                run.bad(R, "merge-unguarded", where(b), "Line::merge does not consult can_merge")
            # ... and by nothing else: whether two lines are merged is exactly can_merge(self, other), whatever the order in
            # which the sweep presents them (it only ever tries earlier.merge(later), in cell order, not geometric order)
            def atom(c):
                if c[0] == "call" and c[1] == cm and [strip(a) for a in c[2]] == [("param", 1, ()), ("param", 2, ())]:
                    return "can_merge"
                return None

            def is_some(r_):
                r_ = strip(r_)
                if r_[0] == "agg" and r_[2] in ("Some", "None"):
                    return r_[2] == "Some"
                if r_[0] == "call" and re.search(r"<impl bool>::then$|bool::then$", r_[1]) and len(r_[2]) == 2:
                    return ("cond", r_[2][0])
                return None
            atoms, table = bool_function(prog, lm, atom, keep=re.escape(cm) + "$", result=is_some, free=True)
            if atoms is None:
                run.bad(R, "merge-extra-condition", where(b), "whether Line::merge merges is not decided by can_merge(self, other) alone: %s" % table)
            elif "can_merge" in atoms and all(v == k[atoms.index("can_merge")] for k, v in table.items()):
                run.ok(R, "Line::merge returns Some exactly when can_merge(self, other)", where(b))
            else:
                others = [a for a in atoms if a != "can_merge" and any(table[k] != table[k[:i] + (not k[i],) + k[i + 1:]] for k in table for i in [atoms.index(a)])]
                run.bad(R, "merge-extra-condition", where(b), "whether Line::merge merges also depends on %s: lines that can_merge says belong together stay separate (or the reverse) "
                        "depending on the order in which the sweep presents them" % (", ".join("`%s`" % a.lstrip("?") for a in others) or "more than can_merge"))
            it = src_fn(run, "fragment/line.rs", "can_merge", impl_self="Line")
            if it is not None:
                txt = []
                lets = {}
                for s_ in it["body"]["stmts"]:
                    if s_["k"] == "let" and s_["pat"].get("name") and "init" in s_ and not s_["pat"].get("mut"):
                        lets[s_["pat"]["name"]] = s_["init"]
                def conj(e, depth=0):
                    if e.get("k") == "binary" and e["op"] == "&&":
                        conj(e["l"], depth); conj(e["r"], depth)
                    elif e.get("k") == "path" and e["path"] in lets and depth < 4:
                        conj(lets[e["path"]], depth + 1)   # immutable let-bound boolean: expand
                    else:
                        txt.append(e)
                st = [x for x in it["body"]["stmts"] if x["k"] == "expr_stmt" and not x["semi"]]
                if len(st) == 1:
                    conj(st[0]["expr"])
                names = []
                for t in txt:
                    if t.get("k") == "method":
                        names.append((t["method"], None))
                    elif t.get("k") == "call":
                        last = t["args"][-1]
                        names.append((t["func"].get("path", "").split("::")[-1], last["expr"]["member"] if last.get("k") == "ref" and False else (last.get("e", last).get("member"))))
                    else:
                        names.append(("<other condition>", t.get("k")))
                want = {("is_touching", None), ("is_collinear", "start"), ("is_collinear", "end")}
                if set(names) == want:
                    run.ok(R, "can_merge = touching && collinear(other.start) && collinear(other.end)", "%s:%d" % (it["_file"], it["pos"][0]))
                else:
                    run.bad(R, "can-merge-shape", "%s:%d" % (it["_file"], it["pos"][0]),
                            "can_merge is %s; expected is_touching && is_collinear(.., other.start) && is_collinear(.., other.end)" % sorted(names, key=str))
        else:
            run.missing(R, "Line::can_merge")
    fm = prog.method("merge", r"fragment::Fragment$", r"Merge$")
    if fm:
        ex = Expr(prog, fm)
        hit = False
        for r in ex.returns():
            if mentions(r, lambda z: z[0] == "call" and z[1] == lm and "@Line" in strip(z[2][0])[2] and "@Line" in strip(z[2][1])[2]):
                hit = True
        if hit:
            run.ok(R, "Fragment::merge maps (Line, Line) to Line::merge", where(prog.bodies[fm]))
        else:
            run.bad(R, "fragment-merge-dispatch", where(prog.bodies[fm]), "Fragment::merge no longer merges two lines with Line::merge")
    else:
        run.missing(R, "Fragment::merge")
    fsm = prog.method("merge", r"fragment_span::FragmentSpan$", r"Merge$")
    if fsm:
        calls = [Program.callee_name(t) for _, t in prog.calls(fsm)]
        if fm in calls:
            run.ok(R, "FragmentSpan::merge merges the fragments with Fragment::merge", where(prog.bodies[fsm]), nontrivial=False)
        else:
            run.bad(R, "fragment-span-merge", where(prog.bodies[fsm]), "FragmentSpan::merge does not call Fragment::merge")
        # ... and merges exactly when the fragments do: nothing else (a pre-filter on cells, on order, on kind) decides
        if fm in calls:
            def atom2(c):
                if c[0] != "discr":
                    return None
                v = strip(c[1])
                via_try = v[0] == "call" and v[1].endswith("Try>::branch") and v[2]
                if via_try:
                    v = strip(v[2][0])   # `x?`: discriminant 0 = Continue = Some
                if v[0] == "call" and v[1] == fm and [strip(a) for a in v[2]] == [("param", 1, ("fragment",)), ("param", 2, ("fragment",))]:
                    return ("not", "fragments_merge") if via_try else "fragments_merge"
                return None

            def is_some2(r_):
                r_ = strip(r_)
                if r_[0] == "call" and "from_residual" in r_[1]:
                    return False   # the early return of `?` on an Option
                if r_[0] == "call" and re.search(r"^core::option::Option::<T>::map$", r_[1]) and len(r_[2]) == 2:
                    return ("cond", ("discr", r_[2][0]))   # `x.map(f)` is Some exactly when x is
                return (r_[2] == "Some") if r_[0] == "agg" and r_[2] in ("Some", "None") else None
            at, tb = bool_function(prog, fsm, atom2, keep=re.escape(fm) + "$|as_line$|is_line$", result=is_some2, free=True)
            if at is not None and "fragments_merge" in at and all(v == k[at.index("fragments_merge")] for k, v in tb.items()):
                run.ok(R, "FragmentSpan::merge returns Some exactly when Fragment::merge(self.fragment, other.fragment) does", where(prog.bodies[fsm]))
            else:
                others = [a for a in (at or []) if a != "fragments_merge"]
                run.bad(R, "fragment-span-merge-extra-condition", where(prog.bodies[fsm]),
                        "whether two fragment spans are merged is not decided by Fragment::merge alone%s: lines that touch and are collinear can be kept apart (the table lets `_` draw into its neighbour's cell, so cell adjacency is not implied)" % (
                            " (also depends on %s)" % ", ".join("`%s`" % a.lstrip("?")[:60] for a in others) if others else (": %s" % tb if at is None else "")))


def m2_rules(run):
    prog = run.prog
    # ---------------- M2 fixpoint before grouping
    mr = [p for p in prog.bodies if p.endswith("merge::Merge::merge_recursive")]
    sp = [p for p in prog.bodies if p.endswith("merge::Merge::second_pass_merge")]
    if len(mr) != 1 or len(sp) != 1:
        run.missing("C09.M2", "Merge::merge_recursive / second_pass_merge")
    else:
        mr, sp = mr[0], sp[0]
        # the inner loop of the sweep extracted into a private helper (`absorb_into_latest(groups, item) -> bool`) is spliced back
        prog.inline_single_use_helpers(sp, same_file=True)
        rec = [(bid, t) for bid, t in prog.calls(mr) if Program.callee_name(t) == mr]
        ok = False
        for bid, t in rec:
            for c, tk, sw in guards(prog, mr, bid, direct=True):
                c = strip(c)
                if c[0] == "bin" and c[1] == "Lt" and tk != 0:
                    l, r = strip(c[2]), strip(c[3])
                    if l[0] == "call" and l[1].endswith("::len") and mentions(l, lambda z: z[0] == "call" and z[1] == sp) and \
                            r[0] == "call" and r[1].endswith("::len") and not mentions(r, lambda z: z[0] == "call" and z[1] == sp):
                        ok = True
        if not ok and not rec:
            # the iterative form: `loop { let n = items.len(); let merged = second_pass_merge(items); if merged.len() >= n
            # { return merged } items = merged }` (variant established by C01's loop rule, reused here)
            from .c01 import shrinking_length_loop
            var = shrinking_length_loop(prog, mr)
            calls_sp = [t for _, t in prog.calls(mr) if Program.callee_name(t) == sp]
            rets = [strip(r) for r in Expr(prog, mr).returns()]
            returns_merged = bool(rets) and all(mentions(r, lambda z: z[0] == "call" and z[1] == sp) for r in rets)
            ok = bool(var) and len(calls_sp) == 1 and returns_merged
        if ok:
            run.ok("C09.M2", "merge_recursive repeats second_pass_merge while the number of items shrinks", where(prog.bodies[mr]))
        else:
            run.bad("C09.M2", "merge-not-fixpoint", where(prog.bodies[mr]), "merge_recursive does not recurse on `merged.len() < original_len`")
        push = [(bid, t) for bid, t in prog.calls(sp) if Program.callee_name(t).endswith("Vec::<T, A>::push")]
        okp = False
        for bid, t in push:
            for c, tk, sw in guards(prog, sp, bid, direct=True):
                if strip(c)[0] == "call" and strip(c)[1].endswith("Iterator::any") and tk == 0:
                    okp = True
        cl = prog.closures_of(sp)
        okc = any(any(Program.callee_name(t).endswith("Merge::merge") or ">::merge" in Program.callee_name(t) for _, t in prog.calls(c)) for c in cl)
        if not (okp and okc):
            # the same sweep written with a flag: `let mut merged = false; for g in groups.iter_mut().rev() { if let
            # Some(m) = g.merge(&item) { *g = m; merged = true; break } } if !merged { groups.push(item) }`
            spb = prog.bodies[sp]
            sl_ = prog.slicer(sp)
            merges = [(bid, t) for bid, t in prog.calls(sp) if Program.callee_name(t).endswith("Merge::merge") or ">::merge" in Program.callee_name(t)]
            for bid, t in push:
                for c, tk, sw in guards(prog, sp, bid, direct=True):
                    pl = op_place(sw["on"]) if sw.get("on") else None
                    if pl is None or pl["p"]:
                        continue
                    flag = pl["l"]
                    # the flag may be a copy/negation of the named flag
                    roots = {flag}
                    for d in sl_.defs.get(flag, ()):
                        if d[0] == "assign" and d[1]["rv"].get("k") in ("use", "un"):
                            q = op_place(d[1]["rv"]["ops"][0])
                            if q is not None and not q["p"]:
                                roots.add(q["l"])
                    for fl in roots:
                        if spb["locals"][fl]["ty"] != "bool":
                            continue
                        sets_true = [(d[2], d[1]) for d in sl_.defs.get(fl, ()) if d[0] == "assign" and d[1]["rv"].get("k") == "use" and
                                     (op_const(d[1]["rv"]["ops"][0]) or {}).get("int") == 1]
                        sets_false = [d for d in sl_.defs.get(fl, ()) if d[0] == "assign" and d[1]["rv"].get("k") == "use" and
                                      (op_const(d[1]["rv"]["ops"][0]) or {}).get("int") == 0]
                        if sets_true and sets_false and merges:
                            # every `flag = true` is control-dependent on the Some outcome of a merge call
                            def after_some(b_):
                                for c2, tk2, sw2 in guards(prog, sp, b_):
                                    c2 = strip(c2)
                                    if c2[0] == "discr" and mentions(c2, lambda z: z[0] == "call" and (z[1].endswith("Merge::merge") or ">::merge" in z[1])) and tk2 in (1, ("not", (0,))):
                                        return True
                                return False
                            if all(after_some(b_) for b_, _ in sets_true):
                                okp = okc = True
        if not (okp and okc):
            # any in-function spelling (flag, labelled continue, early exit of the inner loop), decided on the CFG of the sweep:
            #  (1) after a successful merge the item is not pushed before the next item is taken,
            #  (2) an item is never dropped: from taking it, the next item is reached only through a successful merge or the push,
            #  (3) a failed merge goes on to the next group: it reaches the push only through the inner iterator
            spb = prog.bodies[sp]
            g_ = prog.cfg(sp)
            ex_ = Expr(prog, sp)
            nexts = [(bid, t) for bid, t in prog.calls(sp) if re.search(r"Iterator>?::next$", Program.callee_name(t))]
            merges = [(bid, t) for bid, t in prog.calls(sp) if Program.callee_name(t).endswith("Merge::merge") or ">::merge" in Program.callee_name(t)]
            if len(nexts) == 2 and len(merges) == 1 and len(push) == 1:
                # outer = the iterator over the items (its item is the pushed value), inner = over the groups
                pushed = strip(ex_.operand(push[0][1]["args"][1]))
                outer = [x for x in nexts if mentions(pushed, lambda z: z[0] == "call" and len(z) > 3 and z[3] == x[0] and re.search(r"Iterator>?::next$", z[1]))]
                inner = [x for x in nexts if x not in outer]
                sws = [(bid, blk["term"]) for bid, blk in enumerate(spb["blocks"]) if blk["term"]["k"] == "switch" and
                       (lambda c: c[0] == "discr" and strip(c[1])[0] == "call" and len(strip(c[1])) > 3 and strip(c[1])[3] == merges[0][0])(strip(ex_.operand(blk["term"]["on"])))]
                osw = [(bid, blk["term"]) for bid, blk in enumerate(spb["blocks"]) if blk["term"]["k"] == "switch" and outer and
                       (lambda c: c[0] == "discr" and strip(c[1])[0] == "call" and len(strip(c[1])) > 3 and strip(c[1])[3] == outer[0][0])(strip(ex_.operand(blk["term"]["on"])))]
                if len(outer) == 1 and len(inner) == 1 and len(sws) == 1 and len(osw) == 1:
                    H, I, P = outer[0][0], inner[0][0], push[0][0]
                    t_ = sws[0][1]
                    edge = lambda sw_, val: ([tg for v_, tg in zip(sw_["values"], sw_["targets"]) if v_ == val] or [sw_["targets"][-1]])
                    some_edge, none_edge = edge(t_, 1), edge(t_, 0)
                    ot = osw[0][1]
                    item_edge = edge(ot, 1)
                    if some_edge == none_edge:
                        none_edge = []
                    if some_edge and none_edge and item_edge:
                        S, N, E = some_edge[0], none_edge[0], item_edge[0]
                        c1 = P not in g_.reachable_from(S, removed={H})
                        c2 = H not in g_.reachable_from(E, removed={S, P})
                        c3 = P not in g_.reachable_from(N, removed={I}) and H not in g_.reachable_from(N, removed={I})
                        # the merged value replaces the group it was merged into
                        recv = strip(ex_.operand(merges[0][1]["args"][0]))
                        repl = mentions(recv, lambda z: z[0] == "call" and len(z) > 3 and z[3] == I)
                        if c1 and c2 and c3 and repl:
                            okp = okc = True
        if okp and okc:
            run.ok("C09.M2", "second_pass_merge pushes an item only when it merged with no existing group", where(prog.bodies[sp]))
        else:
            run.bad("C09.M2", "second-pass-shape", where(prog.bodies[sp]), "second_pass_merge: push-when-unmerged=%s, closure-calls-merge=%s" % (okp, okc))
    mfs = prog.method("merge_fragment_spans", r"FragmentBuffer$")
    cfrom = [p for p in prog.bodies if re.search(r"From<svgbob::buffer::cell_buffer::span::Span> for alloc::vec::Vec<svgbob::buffer::cell_buffer::contacts::Contacts>>::from$|Vec<svgbob::buffer::cell_buffer::contacts::Contacts>>::from$", p)]
    if not mfs or len(cfrom) != 1:
        run.missing("C09.M2", "FragmentBuffer::merge_fragment_spans / Vec<Contacts>::from(Span)")
    else:
        r = [strip(x) for x in Expr(prog, mfs).returns()]
        if len(r) == 1 and r[0][0] == "call" and r[0][1].endswith("Merge::merge_recursive") and mentions(r[0], lambda z: z[0] == "call" and z[1].endswith("abs_fragment_spans")):
            run.ok("C09.M2", "merge_fragment_spans = merge_recursive(all fragments at absolute positions)", where(prog.bodies[mfs]))
        else:
            run.bad("C09.M2", "merge-fragment-spans", where(prog.bodies[mfs]), "merge_fragment_spans is `%s`" % (expr_str(r[0])[:120] if r else "?"))
        cf = cfrom[0]
        news = [(bid, t) for bid, t in prog.calls(cf) if Program.callee_name(t).endswith("Contacts::new")]
        cls = prog.closures_of(cf)
        r = [strip(x) for x in Expr(prog, cf).returns()]
        ok = len(r) == 1 and mentions(r[0], lambda z: z[0] == "call" and z[1] == mfs) and \
            not mentions(r[0], lambda z: z[0] == "call" and (z[1].endswith("abs_fragment_spans")))
        if ok:
            run.ok("C09.M2", "contacts are built only from merge_fragment_spans()", where(prog.bodies[cf]))
        else:
            run.bad("C09.M2", "contacts-unmerged", where(prog.bodies[cf]), "Vec<Contacts>::from(Span) is `%s`: the fragments that are grouped are not the merged ones" % (expr_str(r[0])[:140] if r else "?"))
    run.assume("is_collinear / Segment::contains_point float tolerances are not decided (long diagonals)")


run_flow = run
