"""C11 (scale scales every length and nothing else) — structural clauses decided on MIR expressions:
K1 each fragment type's `scale` returns an aggregate whose every length-typed field (f32, Point,
Option<f32>, Vec<Point>, nested fragment) is exactly `self.<same field> x scale` (one multiplication,
via Point::scale / nested scale / closure) and whose other fields do not mention `scale`;
K2 Fragment::scale / FragmentSpan::scale dispatch every variant to its type's scale;
K3 every Fragment->Node conversion site receives a value scaled on every call path (local slice or a
call-graph dominator that passes a scaled argument); K4 both canvas results carry settings.scale
exactly once as a factor; K5 Settings.scale is read nowhere else; K6 default scale 8, cell 1x2;
K7 the code that runs on scaled fragments (Bounds::bounds, which decides class tagging, and the Node
conversions of the scaled types) takes no cell-unit constant except as a factor of a scaled field.
Decides the structure (which fields are multiplied, once), not float rounding."""
import re

from ..common import lib_reachable, short, where
from ..exprs import (inline_top, ELEM, loop_built_vec, call_named, closure_of, factors, is_const, is_param, mentions, mentions_param, strip, uncast)
from ..mirlib import Expr, Program, expr_str, op_place

LENGTH_SCALAR = {"f32", "f64"}
POINT = "svgbob::point::Point"


def scale_methods(prog):
    """inherent methods named `scale` with signature (&Self, f32) -> Self"""
    out = {}
    for p in prog.methods("scale", trait_re=""):
        b = prog.bodies[p]
        if b["argc"] == 2 and b["locals"][2]["ty"] in ("f32", "f64"):
            out[b["impl_self"]] = p
    return out


def is_scaled_field(prog, sm, fty, e, self_field, scale_is, depth=0, path=None):
    """is e == (self_field value) x scale, exactly once?  scale_is(e) recognises the scale value,
    self_field(e) recognises the unscaled field."""
    e = strip(e)
    if fty in LENGTH_SCALAR:
        fs = factors(e)
        return len(fs) == 2 and ((self_field(fs[0]) and scale_is(fs[1])) or (self_field(fs[1]) and scale_is(fs[0]))), "f32 field must be `self.f * scale`"
    if fty in sm:  # a type with its own verified scale method (Point, Line, ...)
        ok = e[0] == "call" and e[1] == sm[fty] and len(e[2]) == 2 and self_field(e[2][0]) and scale_is(e[2][1])
        return ok, "must be %s(self.f, scale)" % short(sm[fty])
    m = re.match(r"^core::option::Option<(.*)>$", fty)
    if m:
        inner = m.group(1)
        if e[0] == "call" and re.search(r"Option::<T>::map$", e[1]) and len(e[2]) == 2 and self_field(e[2][0]):
            cl, caps = closure_of(e[2][1])
            if cl and cl in prog.bodies:
                cex = Expr(prog, cl)
                rets = cex.returns()
                okall = True
                for r in rets:
                    ok, _ = is_scaled_field(prog, sm, inner, r, lambda x: is_param(x, 2, ()),
                                            lambda x: _captured_scale(x, caps, scale_is), depth + 1)
                    okall = okall and ok
                return okall and bool(rets), "Option field must be `self.f.map(|v| v * scale)`"
        return False, "Option field must be `self.f.map(|v| v * scale)`"
    m = re.match(r"^alloc::vec::Vec<(.*)>$", fty)
    if m:
        inner = m.group(1)
        # collect(map(iter(self.f), closure))
        if e[0] == "call" and re.search(r"Iterator::collect$|iterator::Iterator>::collect$", e[1]) and len(e[2]) == 1:
            mp = strip(e[2][0])
            if mp[0] == "call" and re.search(r"Iterator::map$|iterator::Iterator>::map$", mp[1]) and len(mp[2]) == 2:
                it = strip(mp[2][0])
                if it[0] == "call" and re.search(r"::iter$|into_iter$", it[1]) and self_field(it[2][0]):
                    cl, caps = closure_of(mp[2][1])
                    if cl and cl in prog.bodies:
                        cex = Expr(prog, cl)
                        rets = cex.returns()
                        okall = bool(rets)
                        for r in rets:
                            ok, _ = is_scaled_field(prog, sm, inner, r, lambda x: is_param(x, 2, ()),
                                                    lambda x: _captured_scale(x, caps, scale_is), depth + 1)
                            okall = okall and ok
                        return okall, "Vec field must be `self.f.iter().map(|p| p.scale(scale)).collect()`"
        if path is not None:
            lb = loop_built_vec(prog, path, e)
            if lb and self_field(lb[0]):
                ok, _ = is_scaled_field(prog, sm, inner, lb[1], lambda x: strip(x) == ELEM, scale_is, depth + 1)
                return ok, "Vec field must be `self.f.iter().map(|p| p.scale(scale)).collect()`"
        return False, "Vec field must be `self.f.iter().map(|p| p.scale(scale)).collect()`"
    return None, "not a length type"


def _captured_scale(x, caps, scale_is):
    """inside a closure: arg1.<i> is capture i of the closure aggregate"""
    x = strip(x)
    if x[0] == "param" and x[1] == 1:
        idx = [f for f in x[2] if f.isdigit()]
        if idx and idx[0] in caps:
            return scale_is(caps[idx[0]])
    return False


def is_length_type(prog, sm, fty):
    if fty in LENGTH_SCALAR or fty in sm:
        return True
    m = re.match(r"^(?:core::option::Option|alloc::vec::Vec)<(.*)>$", fty)
    if m:
        return is_length_type(prog, sm, m.group(1))
    return False


def run(run):
    prog = run.prog
    sm = scale_methods(prog)
    run.record("scale_methods", sorted(short(p) for p in sm.values()))
    run.floor("C11.K1", "scale_methods", len(sm), 9)
    if POINT not in sm:
        run.missing("C11.K1", "Point::scale")
        return
    scale_param = lambda x: is_param(x, 2, ())
    nfields = 0
    for ty, p in sorted(sm.items()):
        adt = prog.adts.get(ty)
        b = prog.bodies[p]
        ex = Expr(prog, p)
        rets = ex.returns()
        if ty == POINT:
            # Point wraps nalgebra::Point2<f32>: the constructor arguments must be x*scale, y*scale
            for r in rets:
                r = strip(r)
                ok = r[0] == "call" and r[1].endswith("Point::new") and len(r[2]) == 2
                if ok:
                    for i, ax in enumerate(("x", "y")):
                        fs = factors(r[2][i])
                        good = len(fs) == 2 and any(scale_param(f) for f in fs) and any(
                            mentions(f, lambda z: z[0] in ("field", "param") and ax in z[-1]) and mentions_param(f, 1) for f in fs)
                        nfields += 1
                        if good:
                            run.ok("C11.K1", "Point::scale %s" % ax, where(b), expr_str(r[2][i]))
                        else:
                            run.bad("C11.K1", "scale-field/Point.%s" % ax, where(b),
                                    "Point::scale: coordinate %s is `%s`, expected `self.%s * scale`" % (ax, expr_str(r[2][i]), ax))
                else:
                    run.bad("C11.K1", "scale-shape/Point", where(b), "Point::scale does not return Point::new(x*scale, y*scale): %s" % expr_str(r))
            continue
        if not adt or adt["kind"] != "Struct":
            continue  # enums (Fragment) are K2
        fields = adt["variants"][0]["fields"]
        if ty.endswith("FragmentSpan"):
            continue  # K2
        for r in rets:
            r = strip(r)
            if r[0] != "agg" or r[1] != ty:
                # built by a constructor helper of the type (`self.with_line(self.line.scale(scale))`)
                r = inline_top(prog, r, keep=r"::scale$")
            if r[0] != "agg" or r[1] != ty:
                run.bad("C11.K1", "scale-shape/%s" % short(ty), where(b),
                        "%s does not return a `%s {..}` aggregate (got %s); field-wise scaling cannot be established" % (short(p), short(ty), expr_str(r)[:120]))
                continue
            vals = dict(r[3])
            for f in fields:
                nfields += 1
                name, fty = f["name"], f["ty"]
                e = vals.get(name)
                inst = "%s.%s : %s" % (short(ty), name, fty.split("::")[-1])
                if e is None:
                    run.bad("C11.K1", "scale-field/%s.%s" % (short(ty), name), where(b), "field %s missing from the returned aggregate" % name)
                    continue
                self_field = lambda x, name=name: is_param(x, 1, (name,))
                if is_length_type(prog, sm, fty):
                    ok, why = is_scaled_field(prog, sm, fty, e, self_field, scale_param, path=p)
                    if ok:
                        run.ok("C11.K1", inst, where(b), "= " + expr_str(e))
                    else:
                        run.bad("C11.K1", "scale-field/%s.%s" % (short(ty), name), where(b),
                                "%s: length field `%s` is `%s`; %s" % (short(p), name, expr_str(e)[:160], why))
                else:
                    if mentions_param(e, 2):
                        run.bad("C11.K1", "scale-nonlength/%s.%s" % (short(ty), name), where(b),
                                "%s: non-length field `%s` (%s) depends on scale: %s" % (short(p), name, fty, expr_str(e)[:120]))
                    else:
                        run.ok("C11.K1", inst, where(b), "independent of scale: " + expr_str(e)[:80], nontrivial=False)
    run.floor("C11.K1", "fields", nfields, 20)

    # ---------------- K2 dispatch
    frag = "svgbob::buffer::fragment_buffer::fragment::Fragment"
    fspan = "svgbob::buffer::fragment_buffer::fragment_span::FragmentSpan"
    if frag not in sm or frag not in prog.adts:
        run.missing("C11.K2", "Fragment::scale")
    else:
        variants = [v["name"] for v in prog.adts[frag]["variants"]]
        vty = {v["name"]: v["fields"][0]["ty"] for v in prog.adts[frag]["variants"] if v["fields"]}
        ex = Expr(prog, sm[frag])
        handled = set()
        b = prog.bodies[sm[frag]]
        for r in ex.returns():
            r = strip(r)
            ok = False
            if r[0] == "agg" and r[1] == frag and len(r[3]) == 1:
                out_variant = r[2]
                e = strip(r[3][0][1])
                out_ty = vty.get(out_variant)
                if e[0] == "call" and out_ty in sm and e[1] == sm[out_ty] and len(e[2]) == 2 and scale_param(e[2][1]):
                    src = e[2][0]
                    # which input variant?
                    srcv = set()
                    mentions(src, lambda z: z[0] == "param" and z[1] == 1 and [srcv.add(f[1:]) for f in z[2] if f.startswith("@")] and False)
                    if len(srcv) == 1:
                        v = srcv.pop()
                        direct = is_param(src, 1, ("0",))
                        conv = (not direct) and mentions(src, lambda z: z[0] == "call" and re.search(r"Into<U>>::into$|From<.*>>::from$", z[1]))
                        if (direct and v == out_variant) or (conv and vty.get(v) != out_ty):
                            handled.add(v)
                            ok = True
                            run.ok("C11.K2", "Fragment::%s -> Fragment::%s via %s" % (v, out_variant, short(e[1])), where(b), expr_str(r)[:140])
            if not ok:
                run.bad("C11.K2", "dispatch/Fragment::scale", where(b),
                        "Fragment::scale has a return that is not `Fragment::V(<V>::scale(v, scale))`: %s" % expr_str(r)[:160])
        for v in variants:
            if v not in handled:
                run.bad("C11.K2", "dispatch-missing/Fragment::%s" % v, where(b), "Fragment::scale: variant %s is not mapped through its type's scale" % v)
        run.floor("C11.K2", "variants", len(variants), 8)
    if fspan in sm:
        ex = Expr(prog, sm[fspan])
        b = prog.bodies[sm[fspan]]
        for r in ex.returns():
            r = strip(r)
            if r[0] != "agg":
                r = inline_top(prog, r, keep=r"::scale$")   # `Self::new(self.span.clone(), self.fragment.scale(scale))`
            vals = dict(r[3]) if r[0] == "agg" else {}
            e = strip(vals.get("fragment", ("unknown",)))
            ok = e[0] == "call" and e[1] == sm.get(frag) and is_param(e[2][0], 1, ("fragment",)) and scale_param(e[2][1]) and \
                not mentions_param(vals.get("span", ()), 2)
            if ok:
                run.ok("C11.K2", "FragmentSpan::scale", where(b), expr_str(r)[:140])
            else:
                run.bad("C11.K2", "dispatch/FragmentSpan::scale", where(b), "FragmentSpan::scale is not {span: self.span, fragment: self.fragment.scale(scale)}: %s" % expr_str(r)[:160])
    else:
        run.missing("C11.K2", "FragmentSpan::scale")

    # ---------------- K3 scaled before rendered
    k3(run, sm, frag, fspan)
    # ---------------- K4 / K5 / K6
    k456(run, sm)
    # ---------------- K7 nothing unscaled after scaling
    k7(run, sm)
    run.assume("f32 multiplication is exact enough: rounding is not decided")


run_flow = run


UNIT = r"::cell_grid::CellGrid::\w+$|::cell::Cell::\w+$"


def k7(run, sm):
    """K7: the code that runs on scaled values (Bounds::bounds of the scaled types, which decides which text
    becomes a class of which shape, and the Node conversions) derives every length from the scaled fields: a
    cell-unit constant (CellGrid::*, Cell::*) may only appear as a factor of a product with an f32 field of self,
    which K1 shows to be multiplied by the scale."""
    prog = run.prog
    types = [t for t in sm if (prog.adts.get(t) or {}).get("kind") == "Struct" and t != POINT and not t.endswith("FragmentSpan")]
    roots = []
    for t in types:
        tn = re.escape(t)
        rs = [p for p in prog.bodies if re.search(r"^<%s as svgbob::[\w:]*Bounds>::bounds$" % tn, p)
              or re.search(r"<impl core::convert::From<%s> for sauron_core::vdom::node::Node<MSG>>::from$" % tn, p)]
        if len(rs) < 2:
            run.missing("C11.K7", "Bounds::bounds and Node conversion of %s" % short(t))
        roots += [(t, r) for r in rs]
    run.floor("C11.K7", "post_scale_roots", len(roots), 14)
    # the tag/enclosure pass also runs on the scaled fragments: the functions of FragmentTree and what they call
    # directly (Fragment::can_fit, a helper such as is_inside ..; not the per-type bounds()/Node conversions, which are
    # the roots above) take no cell-unit constant at all - a tolerance there is an absolute length in output units
    ftree = [p for p in prog.bodies if re.search(r"fragment_tree::FragmentTree::\w+(::\{closure#\d+\})*$", p)]
    region, work = set(), list(ftree)
    while work:
        q = work.pop()
        if q in region or q not in prog.bodies or prog.bodies[q].get("crate") != "svgbob":
            continue
        region.add(q)
        work.extend(prog.closures_of(q))
        for _, c in prog.calls(q):
            n = Program.callee_name(c)
            if n in prog.bodies and not re.search(r"Bounds>::bounds$|Node<MSG>>::from$|Into<.*>>::into$|::fmt$", n) and not re.search(UNIT, n) and \
                    re.search(r"fragment_tree::FragmentTree::|fragment::Fragment::|fragment_span::FragmentSpan::", n):
                work.append(n)
    run.floor("C11.K7", "enclosure_pass_functions", len(region), 8)
    nbare = 0
    for q in sorted(region):
        for bid, c in prog.calls(q):
            if re.search(UNIT, Program.callee_name(c)):
                nbare += 1
                run.bad("C11.K7", "unscaled-length/%s/%s" % (short(q), short(Program.callee_name(c))), where(c),
                        "%s, part of the tag/enclosure pass that runs on scaled fragments, takes the cell-unit length %s: a tolerance or offset there does not scale, so which text or tag a shape encloses depends on the scale" % (short(q), short(Program.callee_name(c))))
    if not nbare:
        run.ok("C11.K7", "the enclosure pass (%d functions) uses no cell-unit constant" % len(region), where(prog.bodies[ftree[0]]) if ftree else None)
    seen = set()
    for t, root in roots:
        reach = [p for p in set(prog.reachable([root])) | {root} if p in prog.bodies and prog.bodies[p].get("crate") == "svgbob"]
        hits = 0
        for p in sorted(reach):
            b = prog.bodies[p]
            units = [(bid, c) for bid, c in prog.calls(p) if re.search(UNIT, Program.callee_name(c))]
            if re.search(UNIT, p):
                continue  # inside the unit helpers themselves
            if not units:
                continue
            owner = b.get("impl_self") or t
            adt = prog.adts.get(owner) or {}
            f32_fields = {f["name"] for v in adt.get("variants", [])[:1] for f in v["fields"] if f["ty"] in LENGTH_SCALAR}
            ex = Expr(prog, p)
            rets = ex.returns()
            for bid, c in units:
                hits += 1
                key = (p, Program.callee_name(c))
                if key in seen:
                    continue
                seen.add(key)
                state = {"scaled": 0, "bare": 0}

                def walk(e, scaled):
                    e = strip(e)
                    if not isinstance(e, tuple) or not e:
                        return
                    if e[0] == "call" and len(e) > 3 and e[3] == bid and e[1] == Program.callee_name(c):
                        state["scaled" if scaled else "bare"] += 1
                        return
                    if e[0] == "bin" and e[1] == "Mul":
                        fs = factors(e)
                        sc = scaled or any(strip(f)[0] == "param" and strip(f)[1] == 1 and len(strip(f)[2]) == 1 and strip(f)[2][0] in f32_fields for f in fs)
                        for f in fs:
                            walk(f, sc)
                        return
                    for x in e[1:]:
                        if isinstance(x, tuple):
                            walk(x, scaled)

                for r in rets:
                    walk(r, False)
                inst = "%s uses %s after scaling" % (short(p), short(Program.callee_name(c)))
                if state["bare"] == 0 and state["scaled"] > 0:
                    run.ok("C11.K7", inst + ": only as a factor of a scaled field of self", where(c))
                else:
                    run.bad("C11.K7", "unscaled-length/%s/%s" % (short(p), short(Program.callee_name(c))), where(c),
                            "%s (reached from %s, which runs on scaled fragments) takes the cell-unit length %s without multiplying it by a scaled field of self: "
                            "the result does not scale, so which text fits into which shape (classes, element counts) changes with the scale setting" % (
                                short(p), short(root), short(Program.callee_name(c))))
        run.ok("C11.K7", "%s: %d functions reachable, %d cell-unit uses" % (short(root), len(reach), hits), where(prog.bodies[root]), nontrivial=hits > 0)
    # the bounds of a scaled value contain no absolute length either: a float constant added to (or used as) a
    # coordinate does not scale, so the nesting test `can_fit` would depend on the scale
    for t, root in roots:
        if not root.endswith("Bounds>::bounds"):
            continue
        consts = []
        seen_fn = set()

        def only_consts(e):
            e = strip(e)
            if e[0] == "const":
                return e[1] in ("float", "int")
            if e[0] == "bin":
                return only_consts(e[2]) and only_consts(e[3])
            if e[0] in ("cast", "un"):
                return only_consts(e[2])
            return False

        def nonzero_const(e):
            e = strip(e)
            if not only_consts(e):
                return False
            return not (e[0] == "const" and float(e[2]) == 0.0)

        def walk(e, fn, depth):
            e = strip(e)
            if not isinstance(e, tuple) or not e or depth > 40:
                return
            if e[0] == "bin" and e[1] in ("Add", "Sub"):
                for side in (e[2], e[3]):
                    if nonzero_const(side):
                        consts.append((fn, expr_str(e)[:100]))
            if e[0] == "call":
                if e[1].endswith("point::Point::new"):
                    for a in e[2]:
                        if nonzero_const(a):
                            consts.append((fn, expr_str(e)[:100]))
                callee = e[1]
                if callee in prog.bodies and prog.bodies[callee].get("crate") == "svgbob" and callee not in seen_fn and not re.search(UNIT, callee):
                    seen_fn.add(callee)
                    for r in Expr(prog, callee).returns():
                        walk(r, callee, depth + 1)
            for x in e[1:]:
                if isinstance(x, tuple):
                    if x and isinstance(x[0], str):
                        walk(x, fn, depth + 1)
                    else:
                        for y in x:
                            if isinstance(y, tuple):
                                walk(y if (y and isinstance(y[0], str)) else (y[1] if len(y) > 1 and isinstance(y[1], tuple) else ()), fn, depth + 1)

        for r in Expr(prog, root).returns():
            walk(r, root, 0)
        if consts:
            fn, ex_ = consts[0]
            run.bad("C11.K7", "absolute-length-in-bounds/%s" % short(t), where(prog.bodies[fn]),
                    "the bounds of the scaled %s contain the absolute length `%s` (in %s): it does not scale, so which text fits into which shape changes with the scale setting" % (
                        short(t), ex_, short(fn)))
        else:
            run.ok("C11.K7", "bounds of %s are built from scaled fields only (no additive constant; %d helper bodies followed)" % (short(t), len(seen_fn)), where(prog.bodies[root]))


def settings_scale(e):
    e = strip(e)
    return e[0] == "param" and "scale" in e[2] and len([f for f in e[2] if not f.startswith("@")]) >= 1


def is_settings_scale_expr(prog, body_path, e):
    """e is `<something of type &Settings>.scale` (param or closure capture)"""
    e = strip(e)
    if e[0] != "param":
        return False
    fields = [f for f in e[2] if not f.startswith("@")]
    if not fields or fields[-1] != "scale":
        return False
    b = prog.bodies[body_path]
    ty = b["locals"][e[1]]["ty"]
    return "Settings" in ty or "closure" in ty


def k3(run, sm, frag, fspan):
    prog = run.prog
    roots, reach = lib_reachable(run, "C11.K3")
    sites = []
    for p in sorted(reach):
        for bid, t in prog.calls(p):
            g = t["callee"].get("generics") or []
            decl = t["callee"].get("path") or ""
            if (decl.endswith("Into::into") or decl.endswith("From::from")) and len(g) == 2:
                src_ty, dst_ty = (g[0], g[1]) if decl.endswith("Into::into") else (g[1], g[0])
                if src_ty in (frag, fspan) and "vdom::node::Node" in dst_ty:
                    sites.append((p, bid, t))
    run.floor("C11.K3", "render_sites", len(sites), 2)
    scale_fns = {sm.get(frag), sm.get(fspan)} - {None}

    def scaled_expr(path, e, depth=0):
        """every leaf source of e is the result of Fragment(Span)::scale(_, settings.scale)"""
        e = strip(e)
        if e[0] == "field":
            return scaled_expr(path, e[1], depth)
        if e[0] == "call":
            if e[1] in scale_fns:
                return len(e[2]) == 2 and is_settings_scale_expr(prog, path, e[2][1])
            if re.search(r"Iterator::collect$|Iterator>::collect$", e[1]):
                return scaled_expr(path, e[2][0], depth)
            if re.search(r"Iterator::map$|Iterator>::map$", e[1]) and len(e[2]) == 2:
                cl, caps = closure_of(e[2][1])
                if cl in prog.bodies:
                    cex = Expr(prog, cl)
                    rets = cex.returns()

                    def cap_scaled(r):
                        r = strip(r)
                        if r[0] == "call" and r[1] in scale_fns and len(r[2]) == 2:
                            s = strip(r[2][1])
                            # captured &Settings: arg1.<i>.scale
                            if s[0] == "param" and s[1] == 1 and s[2] and s[2][-1] == "scale":
                                idx = [f for f in s[2] if f.isdigit()]
                                cap = caps.get(idx[0]) if idx else None
                                if cap is not None:
                                    c = strip(cap)
                                    return c[0] == "param" and "Settings" in prog.bodies[path]["locals"][c[1]]["ty"]
                            # a captured copy of settings.scale (`let scale = settings.scale; .. |f| f.scale(scale)`)
                            if s[0] == "param" and s[1] == 1 and s[2] and all(f.isdigit() for f in s[2]):
                                cap = caps.get(s[2][0])
                                if cap is not None and is_settings_scale_expr(prog, path, cap):
                                    return True
                        return False
                    return bool(rets) and all(cap_scaled(r) for r in rets)
            return False
        if e[0] == "phi":
            # a vector filled by a `for` loop: `for f in fragments { v.push(f.scale(settings.scale)) }`
            lb = loop_built_vec(prog, path, e)
            if lb:
                el = strip(lb[1])
                return el[0] == "call" and el[1] in scale_fns and len(el[2]) == 2 and strip(el[2][0]) == ELEM and is_settings_scale_expr(prog, path, el[2][1])
            return all(scaled_expr(path, x, depth) for x in e[1] if x[0] != "mutated_by") and any(x[0] != "mutated_by" for x in e[1])
        return False

    # call-graph dominators from a virtual root over the library entry points
    E = prog.edges()
    succ = {"<root>": list(roots)}
    for p in reach:
        succ[p] = [q for q in E.get(p, ()) if q in prog.bodies]
    pred = {}
    for a, ss in succ.items():
        for s in ss:
            pred.setdefault(s, []).append(a)
    from ..mirlib import CFG
    idom = CFG._dominators("<root>", succ, pred)

    for p, bid, t in sites:
        ex = Expr(prog, p)
        arg = ex.operand(t["args"][0])
        inst = "render site in %s" % short(p)
        if scaled_expr(p, arg):
            run.ok("C11.K3", inst, where(t), "argument is a direct scale(settings.scale) result: %s" % expr_str(arg)[:100])
            continue
        # walk the dominator chain: some dominator must pass a scaled fragment argument towards the site
        chain = []
        x = p
        while x in idom and idom[x] != x:
            chain.append(x)
            x = idom[x]
        found = None
        for i in range(1, len(chain)):
            callee, caller = chain[i - 1], chain[i]
            for bid2, t2 in prog.calls(caller):
                if Program.callee_name(t2) != callee and t2["callee"].get("path") != callee:
                    continue
                cex = Expr(prog, caller)
                for a, aty in zip(t2["args"], t2.get("arg_tys", [])):
                    if "Fragment" in aty and scaled_expr(caller, cex.operand(a)):
                        found = (caller, callee, t2)
            if found:
                break
        if found:
            run.ok("C11.K3", inst, where(t), "every call path passes %s -> %s with a scaled argument (%s)" % (
                short(found[0]), short(found[1]), where(found[2])))
        else:
            run.bad("C11.K3", "unscaled-render/%s" % short(p), where(t),
                    "Fragment->Node conversion in %s receives `%s`, which is not the result of scale(settings.scale) on every call path "
                    "(dominator chain: %s)" % (p, expr_str(arg)[:100], " <- ".join(short(c) for c in chain[:6])))


def k456(run, sm):
    prog = run.prog
    # K4: canvas size
    gs = prog.method("get_size", r"cell_buffer::CellBuffer$")
    allowed_readers = set()
    if not gs:
        run.missing("C11.K4", "CellBuffer::get_size")
    else:
        ex = Expr(prog, gs)
        b = prog.bodies[gs]
        for r in ex.returns():
            r = strip(r)
            if r[0] != "agg" or len(r[3]) != 2:
                run.bad("C11.K4", "size-shape", where(b), "get_size does not return a (w, h) tuple: %s" % expr_str(r)[:120])
                continue
            for (name, comp), axis in zip(r[3], ("width", "height")):
                fs = factors(comp)
                n = len([f for f in fs if is_settings_scale_expr(prog, gs, f)])
                others = [f for f in fs if not is_settings_scale_expr(prog, gs, f)]
                if n == 1 and not any(mentions(f, lambda z: z[0] == "param" and "scale" in z[2]) for f in others):
                    run.ok("C11.K4", "canvas %s" % axis, where(b), expr_str(comp)[:140])
                else:
                    run.bad("C11.K4", "size-scale/%s" % axis, where(b),
                            "canvas %s = %s does not carry settings.scale exactly once as a factor" % (axis, expr_str(comp)[:140]))
        allowed_readers.add(gs)
    # K5: all reads of Settings.scale
    reads = []
    for p, b in prog.bodies.items():
        if b["crate"] != "svgbob":
            continue
        for bid, st, op in prog.all_operands(p):
            pl = op_place(op)
            if pl is None:
                continue
            for pr in pl["p"]:
                if isinstance(pr, dict) and pr.get("name") == "scale" and (pr.get("adt") or "").endswith("settings::Settings"):
                    reads.append((p, bid, st, op))
    run.floor("C11.K5", "reads_of_settings.scale", len(reads), 4)
    scale_fns = set(sm.values())
    for p, bid, st, op in reads:
        inst = "read of Settings.scale in %s" % short(p)
        b = prog.bodies[p]
        if st.get("k") == "call":
            if Program.callee_name(st) in scale_fns:
                run.ok("C11.K5", inst, where(st), "argument of %s" % short(Program.callee_name(st)))
            else:
                run.bad("C11.K5", "scale-read/%s" % short(p), where(st), "settings.scale passed to %s, which is not a scale method" % Program.callee_name(st))
            continue
        rv = st.get("rv", {})
        if rv.get("k") == "bin" and rv.get("op") == "Mul" and (p in allowed_readers or p.endswith("::get_size")):
            run.ok("C11.K5", inst, where(st), "factor of the canvas size product")
            continue
        if rv.get("k") == "use":
            # a local copy (`let scale = settings.scale`): followed through further copies, references and closure
            # captures; every final use must be an argument of a scale method or a factor of the size product
            def flows(path, local, seen, is_capture=None):
                """first offending statement, or None"""
                key = (path, local, is_capture)
                if key in seen:
                    return None
                seen.add(key)
                for bid2, st2, op2 in prog.all_operands(path):
                    pl2 = op_place(op2)
                    if pl2 is None or pl2["l"] != local or st2 is st:
                        continue
                    if is_capture is not None:
                        idx = [pr.get("f") if isinstance(pr, dict) else None for pr in pl2["p"]]
                        names = [pr.get("name") if isinstance(pr, dict) else None for pr in pl2["p"]]
                        if is_capture not in idx and str(is_capture) not in [str(x) for x in idx] and str(is_capture) not in [str(n) for n in names]:
                            continue
                    elif pl2["p"] and not all(pr == "*" for pr in pl2["p"]):
                        continue
                    if st2.get("k") == "call" and Program.callee_name(st2) in scale_fns:
                        continue
                    rv2 = st2.get("rv", {})
                    if rv2.get("k") == "bin" and rv2["op"] == "Mul" and path.endswith("::get_size"):
                        continue
                    if rv2.get("k") in ("use", "ref", "copy", "move") and st2.get("dst") and not st2["dst"]["p"]:
                        r = flows(path, st2["dst"]["l"], seen)
                        if r is not None:
                            return r
                        continue
                    if rv2.get("k") == "agg" and rv2.get("closure"):
                        i = [j for j, o in enumerate(rv2["ops"]) if o is op2]
                        q = rv2["closure"]
                        if q in prog.bodies and i:
                            r = flows(q, 1, seen, is_capture=i[0])
                            if r is not None:
                                return r
                            continue
                    if st2.get("k") == "drop":
                        continue
                    return st2
                return None
            bad_use = flows(p, st["dst"]["l"], set())
            if bad_use is None:
                run.ok("C11.K5", inst, where(st), "flows only into scale()/size product")
            else:
                run.bad("C11.K5", "scale-read/%s" % short(p), where(bad_use), "settings.scale flows into something other than scale()/canvas size in %s" % p)
            continue
        if rv.get("k") == "agg" and (rv.get("adt") or "").endswith("settings::Settings"):
            idx = [i for i, o in enumerate(rv["ops"]) if o is op]
            names = rv.get("fields") or []
            if idx and all(names[i] == "scale" for i in idx):
                run.ok("C11.K5", inst, where(st), "copied into the scale field of another Settings value", nontrivial=False)
                continue
        if rv.get("k") in ("agg",) and "Clone" in p:
            run.ok("C11.K5", inst, where(st), "derive(Clone)", nontrivial=False)
            continue
        if re.search(r"as core::(fmt::Debug|clone::Clone)>::", p):
            run.ok("C11.K5", inst, where(st), "derived impl", nontrivial=False)
            continue
        run.bad("C11.K5", "scale-read/%s" % short(p), where(st), "settings.scale is read in %s outside scale()/canvas size (%s)" % (p, rv.get("k")))
    # K6 constants
    d = prog.method("default", r"settings::Settings$", r"Default")
    if not d:
        run.missing("C11.K6", "Settings::default")
    else:
        for r in Expr(prog, d).returns():
            vals = dict(strip(r)[3]) if strip(r)[0] == "agg" else {}
            if is_const(vals.get("scale", ("unknown",)), 8.0):
                run.ok("C11.K6", "Settings::default().scale == 8", where(prog.bodies[d]), nontrivial=False)
            else:
                run.bad("C11.K6", "default-scale", where(prog.bodies[d]), "Settings::default().scale is %s, not 8" % expr_str(vals.get("scale", ("unknown",))))
    for fn, val in (("width", 1.0), ("height", 2.0)):
        g = prog.method(fn, r"cell_grid::CellGrid$")
        c = prog.method(fn, r"cell::Cell$")
        if not g or not c:
            run.missing("C11.K6", "Cell::%s / CellGrid::%s" % (fn, fn))
            continue
        rg = Expr(prog, g).returns()
        rc = Expr(prog, c).returns()
        okg = len(rg) == 1 and is_const(rg[0], val)
        okc = len(rc) == 1 and (is_const(rc[0], val) or (strip(rc[0])[0] == "call" and strip(rc[0])[1] == g))
        if okg and okc:
            run.ok("C11.K6", "cell %s == %g" % (fn, val), where(prog.bodies[g]), nontrivial=False)
        else:
            run.bad("C11.K6", "cell-%s" % fn, where(prog.bodies[g]), "cell %s is not the constant %g (%s / %s)" % (
                fn, val, expr_str(rg[0]) if rg else "?", expr_str(rc[0]) if rc else "?"))
