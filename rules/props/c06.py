"""C06 (moving a drawing only translates its rendering) — structural clauses: P1 localise -> look up
-> re-offset: every catalogue lookup (circle, 3/4, half, quarter arc) compares the *localised* span,
and every fragment accepted from a lookup is re-offset by the span's top-left corner
(absolute_position(bounds().0)), 4 sibling branches cross-checked; fragments of a cell are placed
with that cell's own position; P2 position completeness: for each fragment type,
absolute_position returns an aggregate in which every positional field (Point, Cell, Vec<Point>,
nested fragment) is the same field translated by the cell and every other field does not depend on
the cell; Fragment/FragmentSpan/Contacts dispatch every variant; Cell::absolute_position /
localize_point / localize_cell are +/- the cell's top-left (constant-folded on samples of the
formula); Span::localize subtracts the span's own top-left from every cell; P4 no float comparison
against a non-zero constant on the conversion path outside a reviewed table (an absolute tolerance
makes touching/merging depend on the distance from the origin).  Not decided: float
behaviour of the geometric predicates (is_collinear threshold, Arc::center sqrt) at large offsets."""
import re
from fractions import Fraction

from ..common import origin_mentions, module_region, short, where
from ..exprs import inline_top, ELEM, loop_built_vec, simplify, closure_of, is_param, mentions, mentions_param, strip
from ..fold import Folder, Unfoldable
from ..mirlib import Expr, Program, expr_str

POINT = "svgbob::point::Point"
CELL = "svgbob::buffer::cell_buffer::cell::Cell"
F = Fraction


def run(run):
    prog = run.prog
    cap = [p for p in prog.bodies if p.endswith("cell::Cell::absolute_position")]
    if len(cap) != 1:
        run.missing("C06.P2", "Cell::absolute_position")
        return
    cap = cap[0]
    # ---------------- P2 per type
    aps = {prog.bodies[p]["impl_self"]: p for p in prog.methods("absolute_position", trait_re="") if prog.bodies[p]["argc"] == 2}
    run.record("absolute_position_impls", sorted(short(p) for p in aps.values()))
    nf = 0
    for ty, p in sorted(aps.items()):
        adt = prog.adts.get(ty)
        if ty == CELL or not adt or ty.endswith("contacts::Contacts"):
            continue
        b = prog.bodies[p]
        rets = [strip(r) for r in Expr(prog, p).returns()]
        if adt["kind"] == "Enum":
            # dispatch: every variant -> same variant of <V>::absolute_position(payload, cell)
            vty = {v["name"]: v["fields"][0]["ty"] for v in adt["variants"] if v["fields"]}
            handled = set()
            for r in rets:
                ok = False
                if r[0] == "agg" and r[1] == ty and len(r[3]) == 1:
                    e = strip(r[3][0][1])
                    if e[0] == "call" and e[1] == aps.get(vty.get(r[2])) and is_param(e[2][1], 2, ()):
                        src = strip(e[2][0])
                        if src[0] == "param" and src[1] == 1 and ("@" + r[2]) in src[2]:
                            ok = True
                            handled.add(r[2])
                if not ok:
                    run.bad("C06.P2", "dispatch/%s" % short(ty), where(b), "%s::absolute_position has a return that is not `V(<V>::absolute_position(v, cell))`: %s" % (short(ty), expr_str(r)[:120]))
            for v in vty:
                if v in handled:
                    run.ok("C06.P2", "%s::%s is translated by its type's absolute_position" % (short(ty), v), where(b))
                else:
                    run.bad("C06.P2", "dispatch-missing/%s::%s" % (short(ty), v), where(b), "%s::absolute_position does not translate variant %s" % (short(ty), v))
            continue
        if len(rets) == 1 and (rets[0][0] != "agg" or rets[0][1] != ty):
            # built by a constructor helper of the type (`self.with_line(self.line.absolute_position(cell))`)
            rets = [inline_top(prog, rets[0], keep=r"::absolute_position$")]
        if len(rets) != 1 or rets[0][0] != "agg" or rets[0][1] != ty:
            run.bad("C06.P2", "abs-shape/%s" % short(ty), where(b), "%s::absolute_position does not return one `%s {..}` aggregate" % (short(ty), short(ty)))
            continue
        vals = dict(rets[0][3])
        for f in adt["variants"][0]["fields"]:
            name, fty = f["name"], f["ty"]
            e = strip(vals.get(name, ("unknown",)))
            nf += 1
            inst = "%s.%s : %s" % (short(ty), name, fty.split("::")[-1])
            selff = lambda x, name=name: is_param(x, 1, (name,))
            positional = True
            ok = None
            if fty == POINT:
                ok = e[0] == "call" and e[1] == cap and is_param(e[2][0], 2, ()) and selff(e[2][1])
            elif fty == CELL:
                ok = e[0] == "call" and e[1].endswith("cell::Cell::new") and len(e[2]) == 2
                if ok:
                    for a, c in zip(e[2], ("x", "y")):
                        a = strip(a)
                        ok = ok and a[0] == "bin" and a[1] == "Add" and {str(strip(a[2])), str(strip(a[3]))} == {str(("param", 1, (name, c))), str(("param", 2, (c,)))}
            elif fty == "alloc::vec::Vec<%s>" % POINT:
                ok = False
                if e[0] == "call" and e[1].endswith("Iterator::collect"):
                    m = strip(e[2][0])
                    if m[0] == "call" and m[1].endswith("Iterator::map"):
                        it = strip(m[2][0])
                        cl, caps = closure_of(m[2][1])
                        if it[0] == "call" and it[1].endswith("<impl [T]>::iter") and selff(it[2][0]) and cl in prog.bodies:
                            r = [strip(x) for x in Expr(prog, cl).returns()]
                            capcell = [k for k, v in caps.items() if is_param(v, 2, ())]
                            ok = len(r) == 1 and r[0][0] == "call" and r[0][1] == cap and bool(capcell) and \
                                strip(r[0][2][0])[0] == "param" and strip(r[0][2][0])[1] == 1 and is_param(r[0][2][1], 2, ())
                if not ok:
                    # the same vector filled by a `for` loop
                    lb = loop_built_vec(prog, p, e)
                    if lb:
                        src, el = lb
                        el = strip(el)
                        ok = selff(src) and el[0] == "call" and el[1] == cap and is_param(el[2][0], 2, ()) and strip(el[2][1]) == ELEM
            elif fty in aps:
                ok = e[0] == "call" and e[1] == aps[fty] and selff(e[2][0]) and is_param(e[2][1], 2, ())
            elif fty == "svgbob::buffer::cell_buffer::span::Span":
                positional = False  # the span keeps the *source* cells (absolute already)
            else:
                positional = False
            if positional:
                if ok:
                    run.ok("C06.P2", inst + " is translated by the cell", where(b), expr_str(e)[:100])
                else:
                    run.bad("C06.P2", "abs-field/%s.%s" % (short(ty), name), where(b), "%s::absolute_position: positional field `%s` is `%s`, not the field translated by the cell" % (short(ty), name, expr_str(e)[:120]))
            else:
                if mentions_param(e, 2):
                    run.bad("C06.P2", "abs-nonpositional/%s.%s" % (short(ty), name), where(b), "%s::absolute_position: non-positional field `%s` depends on the cell: %s" % (short(ty), name, expr_str(e)[:100]))
                else:
                    run.ok("C06.P2", inst + " does not depend on the cell", where(b), nontrivial=False)
    run.floor("C06.P2", "fields", nf, 20)
    run.floor("C06.P2", "absolute_position_impls", len(aps), 11)
    # Contacts::absolute_position maps every member
    ca = [p for t, p in aps.items() if t.endswith("contacts::Contacts")]
    if ca:
        cl = prog.closures_of(ca[0])
        ok = any(any(strip(r)[0] == "call" and strip(r)[1].endswith("FragmentSpan::absolute_position") for r in Expr(prog, c).returns()) for c in cl)
        run.ok("C06.P2", "Contacts::absolute_position translates every member", where(prog.bodies[ca[0]])) if ok else \
            run.bad("C06.P2", "contacts-abs", where(prog.bodies[ca[0]]), "Contacts::absolute_position does not map FragmentSpan::absolute_position over its members")
    # the primitive translations, folded on samples of the formula
    fo = Folder(prog)
    try:
        cell = ("cell", F(3), F(5))
        pt = ("pt", F(1, 4), F(3, 2))
        v = fo.call(cap, [cell, pt])
        tl = fo.call(fo.resolve("cell::Cell::top_left_most"), [cell])
        lp = fo.call(fo.resolve("cell::Cell::localize_point"), [cell, v])
        lc = fo.call(fo.resolve("cell::Cell::localize_cell"), [cell, ("cell", F(10), F(9))])
        w = fo.call(fo.resolve("cell::Cell::width"), [])
        h = fo.call(fo.resolve("cell::Cell::height"), [])
        ok = tl == ("pt", 3 * w, 5 * h) and v == ("pt", 3 * w + F(1, 4), 5 * h + F(3, 2)) and lp == pt and lc == ("cell", F(7), F(4))
        if ok:
            run.ok("C06.P2", "Cell::absolute_position = top-left + point; localize_point / localize_cell are its inverses (folded)", where(prog.bodies[cap]), "top_left_most(3,5) = %s" % (tl,))
        else:
            run.bad("C06.P2", "cell-translation", where(prog.bodies[cap]), "Cell translation primitives fold to tl=%r abs=%r localize=%r localize_cell=%r" % (tl, v, lp, lc))
    except Unfoldable as ex:
        run.bad("C06.P2", "cell-translation", where(prog.bodies[cap]), "Cell translation primitives are not foldable: %s" % ex)
    # ... and as expressions (the fold uses rational arithmetic; the shape must be exact too)
    from ..exprs import factors, uncast
    r = [strip(x) for x in Expr(prog, cap).returns()]
    tlm = fo.resolve("cell::Cell::top_left_most")
    ok = len(r) == 1 and r[0][0] == "call" and r[0][1].endswith("point::Point as core::ops::arith::Add>::add") and \
        strip(r[0][2][0])[0] == "call" and strip(r[0][2][0])[1] == tlm and strip(strip(r[0][2][0])[2][0]) == ("param", 1, ()) and strip(r[0][2][1]) == ("param", 2, ())
    if ok:
        run.ok("C06.P2", "Cell::absolute_position is exactly top_left_most(self) + point", where(prog.bodies[cap]))
    else:
        run.bad("C06.P2", "cell-absolute-shape", where(prog.bodies[cap]), "Cell::absolute_position is `%s`" % (expr_str(r[0])[:140] if r else "?"))
    if tlm:
        r = [strip(x) for x in Expr(prog, tlm).returns()]
        ok = len(r) == 1 and r[0][0] == "call" and r[0][1].endswith("point::Point::new") and len(r[0][2]) == 2
        if ok:
            for a, c, dim in zip(r[0][2], ("x", "y"), ("width", "height")):
                fs = [strip(f) for f in factors(a)]
                ok = ok and len(fs) == 2 and any(uncast(f) == ("param", 1, (c,)) for f in fs) and \
                    any(f[0] == "call" and re.search(r"(CellGrid|Cell)::%s$" % dim, f[1]) for f in fs)
        if ok:
            run.ok("C06.P2", "Cell::top_left_most = (x * cell width, y * cell height)", where(prog.bodies[tlm]))
        else:
            run.bad("C06.P2", "cell-top-left-shape", where(prog.bodies[tlm]), "Cell::top_left_most is `%s`" % (expr_str(r[0])[:140] if r else "?"))
    padd = [q for q in prog.bodies if q.endswith("point::Point as core::ops::arith::Add>::add")]
    if len(padd) == 1:
        r = [strip(x) for x in Expr(prog, padd[0]).returns()]
        ok = len(r) == 1 and r[0][0] == "call" and r[0][1].endswith("point::Point::new")
        if ok:
            for a, c in zip(r[0][2], ("x", "y")):
                a = strip(a)
                ok = ok and a[0] == "bin" and a[1] == "Add" and all(strip(t)[0] == "field" and strip(t)[2] == (c,) for t in (a[2], a[3])) and \
                    mentions(a[2], lambda z: z[0] == "param" and z[1] == 1) and mentions(a[3], lambda z: z[0] == "param" and z[1] == 2)
        if ok:
            run.ok("C06.P2", "Point + Point is component-wise", where(prog.bodies[padd[0]]), nontrivial=False)
        else:
            run.bad("C06.P2", "point-add-shape", where(prog.bodies[padd[0]]), "Point::add is `%s`" % (expr_str(r[0])[:140] if r else "?"))
    # Span::localize
    sl = prog.method("localize", r"span::Span$", "")
    if sl:
        ex = Expr(prog, sl)
        lcs = []
        for q in [sl] + prog.closures_of(sl):
            lcs += [(q, t) for _, t in prog.calls(q) if Program.callee_name(t).endswith("cell::Cell::localize_cell")]
        ok = False
        is_tl = lambda v: v[0] == "field" and "@Some" in v[2] and v[2][-1] == "0" and strip(v[1])[0] == "call" and strip(v[1])[1].endswith("span::Span::bounds") and \
            strip(strip(v[1])[2][0])[0] == "param"
        for q, t in lcs:
            qex = ex if q == sl else Expr(prog, q)
            tlv = strip(simplify(qex.operand(t["args"][0])))
            cellv = qex.operand(t["args"][1])
            if q == sl:
                ok = is_tl(tlv) and mentions(cellv, lambda z: z[0] == "call" and z[1].endswith("Iterator>::next"))
            else:
                # `.map(|(cell, ch)| (tl.localize_cell(*cell), *ch))`: tl is a capture, the cell is the closure's item
                cap_ok = False
                if tlv[0] == "param" and tlv[1] == 1 and tlv[2]:
                    for blk in prog.bodies[sl]["blocks"]:
                        for st in blk["stmts"]:
                            rv = st.get("rv") or {}
                            if rv.get("k") == "agg" and rv.get("closure") == q and str(tlv[2][0]).isdigit() and int(tlv[2][0]) < len(rv["ops"]):
                                cap_ok = is_tl(strip(simplify(ex.operand(rv["ops"][int(tlv[2][0])]))))
                ok = cap_ok and mentions(cellv, lambda z: z[0] == "param" and z[1] == 2)
        lcs = [t for _, t in lcs]
        if ok and len(lcs) == 1:
            run.ok("C06.P2", "Span::localize subtracts the span's own top-left (bounds().0) from every cell", where(lcs[0]))
        else:
            run.bad("C06.P2", "span-localize", where(prog.bodies[sl]), "Span::localize does not map tl.localize_cell(cell) with tl = self.bounds().0")
    else:
        run.missing("C06.P2", "Span::localize")
    # ---------------- P1 localise -> lookup -> re-offset
    lookups = [p for p in prog.bodies if re.search(r"circle_map::endorse_\w+_span$", p)]
    run.floor("C06.P1", "catalogue_lookups", len(lookups), 4)
    is_loc = lambda z: z[0] == "call" and z[1].endswith("span::Span::localize")
    POSITIONAL = re.compile(r"span::Span::(bounds|cell_bounds|top_left|localize_point|is_bounded|hit_cell|extract)$|cell::Cell::(is_bounded|snap|localize)")
    for p in sorted(lookups):
        # the lookup function, its closures and the private helpers of its module that it calls (helper extraction
        # out of the four copy-pasted bodies is a plausible tidy-up)
        bodies = module_region(prog, p, stop=r"::is_subset_of$")
        subset = None
        for q in bodies:
            ex = Expr(prog, q)
            for bid, t in prog.calls(q):
                n = Program.callee_name(t)
                if n.endswith("circle_map::is_subset_of"):
                    a = ex.operand(t["args"][1])
                    subset = origin_mentions(prog, q, a, is_loc, bodies, root=p)
                # the absolute position of the search span must play no role in the lookup
                if POSITIONAL.search(n) and t["args"]:
                    recv = ex.operand(t["args"][0])
                    if not mentions(recv, is_loc):
                        run.bad("C06.P1", "lookup-uses-absolute-position/%s" % short(p), where(t),
                                "%s consults %s of the un-localised search span: whether a drawing matches the catalogue would depend on where it sits on the page" % (short(p), short(n)))
        # the cells that are left over go back to the caller in page coordinates: they are taken from the search
        # span itself, never from its localised copy (the caller re-offsets only the catalogue fragment)
        rem = 0
        for q in bodies:
            ex = Expr(prog, q)
            for bid, t in prog.calls(q):
                n = Program.callee_name(t)
                if re.search(r"<svgbob::[\w:]*span::Span as core::convert::From<.*>>::from$", n) and t["args"]:
                    rem += 1
                    a = strip(ex.operand(t["args"][0]))
                    # the iterated source: follow the receiver chain of the iterator adaptors (their closures
                    # legitimately capture the index list computed on the localised copy)
                    while a[0] == "call" and a[2] and re.search(r"::(collect|filter_map|filter|map|enumerate|iter|into_iter|cloned|copied|deref|rev|to_vec|clone)$", a[1]):
                        a = strip(a[2][0])
                    # ... traced through captured variables and through the parameters of extracted helpers
                    loc = origin_mentions(prog, q, a, is_loc, bodies, root=p)
                    if loc:
                        run.bad("C06.P1", "remainder-localised/%s" % short(p), where(t),
                                "%s builds the span of the left-over cells from the *localised* copy of the search span: the matched shape is moved back to its place by the caller, "
                                "but everything attached to it is emitted near the page origin" % short(p))
                    else:
                        run.ok("C06.P1", "%s returns the left-over cells in page coordinates (taken from the search span itself)" % short(p), where(t))
        if rem != 1:
            run.bad("C06.P1", "remainder-shape/%s" % short(p), where(prog.bodies[p]), "%s builds %d remainder spans, expected exactly one Span::from(..)" % (short(p), rem))
        if subset:
            run.ok("C06.P1", "%s compares the localised search span with the catalogue" % short(p), where(prog.bodies[p]))
        else:
            run.bad("C06.P1", "lookup-not-localised/%s" % short(p), where(prog.bodies[p]), "%s does not compare `search.localize()` with the catalogue (position dependent matching)" % short(p))
    ea = prog.method("endorse_to_arcs_and_circles", r"span::Span$", "")
    if not ea:
        run.missing("C06.P1", "Span::endorse_to_arcs_and_circles")
    else:
        ex = Expr(prog, ea)
        # every fragment span that this function constructs (pushed to a vector or returned in a `vec![..]`)
        pushes = [(bid, t) for bid, t in prog.calls(ea) if Program.callee_name(t).endswith("FragmentSpan::new")]
        n_ok = 0
        for bid, t in pushes:
            v = ("call", Program.callee_name(t), tuple(ex.operand(a) for a in t["args"]), bid)
            ok = True
            detail = expr_str(v)[:120]
            if ok:
                fr = v[2][1]
                absn = []
                mentions(fr, lambda z: z[0] == "call" and z[1] in aps.values() and absn.append(z) and False)
                ok = bool(absn)
                if ok:
                    a = absn[0]
                    src = a[2][0]
                    off = strip(a[2][1])
                    from_lookup = mentions(src, lambda z: z[0] == "call" and re.search(r"circle_map::endorse_\w+_span$", z[1]))
                    tl_ok = off[0] == "field" and off[2][-1:] == ("0",) and mentions(off, lambda z: z[0] == "call" and z[1].endswith("span::Span::bounds") and strip(z[2][0]) == ("param", 1, ()))
                    ok = from_lookup and tl_ok
                    detail = "lookup result=%s, offset=bounds().0: %s" % (from_lookup, tl_ok)
            if ok:
                n_ok += 1
                run.ok("C06.P1", "accepted catalogue fragment is re-offset by the span's top-left", where(t))
            else:
                run.bad("C06.P1", "not-reoffset", where(t), "a fragment pushed to `accepted` is not `lookup_result.absolute_position(self.bounds().0)`: %s" % detail)
        n_branches = len(pushes)
        if len(pushes) == 1 and n_ok == 0:
            # one construction site fed by a combinator chain / helper (`lookup_a().map(place).or_else(|| lookup_b().map(place))..`):
            # the fragment handed to FragmentSpan::new is expanded into its alternatives; each must be a lookup result
            # re-offset by the span's top-left, and all four lookups must occur
            from ..exprs import expand_combinators
            bid, t = pushes[0]
            from ..exprs import inline_calls as _inl
            fr = strip(simplify(expand_combinators(prog, simplify(_inl(prog, ex.operand(t["args"][1]), keep=r"absolute_position$|circle_map::endorse_\w+_span$|span::Span::bounds$", depth=3)), depth=8)))
            alts_ = [strip(a) for a in (fr[1] if fr[0] == "phi" else [fr])]
            lookups = set()
            good_alts = 0
            for a in alts_:
                if a[0] == "agg" and a[2] == "None":
                    continue
                absn = []
                mentions(a, lambda z: z[0] == "call" and z[1] in aps.values() and absn.append(z) and False)
                if len(absn) != 1:
                    continue
                src, off = absn[0][2][0], strip(absn[0][2][1])
                lk = []
                mentions(src, lambda z: z[0] == "call" and re.search(r"circle_map::endorse_\w+_span$", z[1]) and lk.append(z[1]) and False)
                tl_ok = mentions(off, lambda z: z[0] == "call" and z[1].endswith("span::Span::bounds") and strip(z[2][0]) == ("param", 1, ())) and off[0] == "field" and off[2][-1:] == ("0",)
                if len(set(lk)) == 1 and tl_ok:
                    lookups.add(lk[0])
                    good_alts += 1
            if len(lookups) >= 4 and good_alts == len([a for a in alts_ if not (a[0] == "agg" and a[2] == "None")]):
                # retract the shape complaint of the single site: it is decided here
                run.violations[:] = [v for v in run.violations if not v["key"].endswith("/not-reoffset")]
                for e_ in run.evals:
                    if e_["rule"] == "C06.P1" and e_["verdict"] == "VIOLATED" and e_["instance"] == "not-reoffset":
                        e_["verdict"], e_["note"] = "ok", "decided through the combinator chain: %d lookups, each re-offset by bounds().0" % len(lookups)
                n_branches = len(lookups)
        run.floor("C06.P1", "accepted_branches", n_branches, 4)
    afs = prog.method("abs_fragment_spans", r"FragmentBuffer$", "")
    if afs:
        inner = [c2 for c in prog.closures_of(afs) for c2 in prog.closures_of(c)]
        ok = False
        for c in inner:
            for r in Expr(prog, c).returns():
                r = strip(r)
                if r[0] == "call" and r[1].endswith("FragmentSpan::absolute_position") and is_param(r[2][0], 2, ()) and strip(r[2][1])[0] == "param" and strip(r[2][1])[1] == 1:
                    ok = True
        outer = prog.closures_of(afs)
        key_ok = False
        for c in outer:
            for r in Expr(prog, c).returns():
                # the captured cell is the key of the same map entry (arg2.0) and the fragments are its value (arg2.1)
                key_ok = key_ok or mentions(r, lambda z: z[0] == "agg" and str(z[1]).startswith("closure:") and any(strip(v) == ("param", 2, ("0",)) for _, v in z[3])) and \
                    mentions(r, lambda z: z[0] == "param" and z[1] == 2 and z[2][:1] == ("1",))
        if not (ok and key_ok):
            # the same written as two nested `for` loops with a push
            aex = Expr(prog, afs)
            for _, t in prog.calls(afs):
                if not Program.callee_name(t).endswith("Vec::<T, A>::push"):
                    continue
                v = strip(aex.operand(t["args"][1]))
                if not (v[0] == "call" and v[1].endswith("FragmentSpan::absolute_position") and len(v[2]) == 2):
                    continue
                fr, cell = strip(v[2][0]), strip(v[2][1])
                outer = []
                mentions(cell, lambda z: z[0] == "call" and z[1].endswith("Iterator>::next") and outer.append(z) and False)
                digits = lambda e: tuple(f for f in (e[2] if e[0] == "field" else ()) if str(f).isdigit())
                if cell[0] == "field" and outer and digits(cell)[-2:] == ("0", "0"):
                    ob = outer[0][3]
                    same_entry = mentions(fr, lambda z: z[0] == "field" and digits(z)[-2:] == ("0", "1") and
                                          mentions(z, lambda y: y[0] == "call" and y[1].endswith("Iterator>::next") and len(y) > 3 and y[3] == ob))
                    over_map = mentions(cell, lambda z: z[0] == "call" and re.search(r"BTreeMap<.*>::iter$|::iter$|into_iter$", z[1]) and mentions(z, lambda y: y == ("param", 1, ())))
                    if same_entry and over_map:
                        ok = key_ok = True
        if ok and key_ok:
            run.ok("C06.P1", "fragments of a cell are placed at that cell's own position", where(prog.bodies[afs]))
        else:
            run.bad("C06.P1", "cell-fragment-offset", where(prog.bodies[afs]), "abs_fragment_spans does not translate each cell's fragments by that cell (closure=%s, key=%s)" % (ok, key_ok))
    else:
        run.missing("C06.P1", "FragmentBuffer::abs_fragment_spans")
    p4(run)
    run.assume("float effects of is_collinear / contains_point / Arc::center at large coordinates are not decided")


# float thresholds on the conversion path that were read and accepted: (function, operator, constant) -> reason
REVIEWED_THRESHOLDS = {
    ("util::is_collinear", "Lt", 0.01): "Heron area of the triangle below 0.01: distances are translation invariant in exact arithmetic; the float residue is the declared undecided part (long diagonals)",
}


def p4(run):
    """P4 [S]: no new absolute float threshold.  A comparison of a computed float against a non-zero constant on
    the conversion path is a position-dependent decision unless the compared quantity is translation invariant;
    an absolute machine-epsilon tolerance in particular makes touching/merging depend on the distance from the
    origin.  Census rule: every such comparison must be in the reviewed table."""
    from ..common import lib_reachable
    from ..mirlib import op_const
    prog = run.prog
    roots, reach = lib_reachable(run, "C06.P4")
    # comparisons that only run while a static table is initialised see no value derived from the input (C07.D2): they
    # cannot depend on where a drawing sits, whatever helper they are moved into
    E_ = prog.edges()
    direct, work = set(), list(roots)
    while work:
        x = work.pop()
        if x in direct or x not in prog.bodies:
            continue
        direct.add(x)
        for y in E_.get(x, ()):
            if y not in prog.statics:
                work.append(y)
    n = 0
    for p in sorted(reach):
        if p not in direct:
            continue
        b = prog.bodies[p]
        for blk in b["blocks"]:
            if blk["cleanup"]:
                continue
            for st in blk["stmts"]:
                rv = st.get("rv") or {}
                if rv.get("k") != "bin" or rv["op"] not in ("Lt", "Le", "Gt", "Ge", "Eq", "Ne"):
                    continue
                for o in rv["ops"]:
                    c = op_const(o)
                    if not c or "float" not in c:
                        continue
                    v = float(c["float"])
                    if v == 0.0:
                        continue   # sign tests are scale free
                    n += 1
                    key = (short(p), rv["op"], round(v, 6))
                    if key in REVIEWED_THRESHOLDS:
                        run.ok("C06.P4", "reviewed float threshold %s %s %g" % key, where(st), REVIEWED_THRESHOLDS[key], nontrivial=False)
                    else:
                        tiny = abs(v) <= 1e-5
                        run.bad("C06.P4", "float-threshold/%s/%s" % (short(p), rv["op"]), where(st),
                                "%s compares a computed float with the constant %g%s: an absolute tolerance makes the outcome depend on the magnitude of the coordinates, "
                                "i.e. on where the drawing sits on the page (not in the reviewed table)" % (short(p), v, " (machine-epsilon sized)" if tiny else ""))
    run.ok("C06.P4", "float-threshold census: %d comparisons against non-zero constants on the conversion path, all reviewed" % n, None)


FIXTURE_EXPECT = ["float-threshold/", "column-depends-on-position/"]


def fixture(run):
    p4(run)
    p5(run)


_run0 = run


def run(run):
    _run0(run)
    p5(run)


run_flow = run


def p5(run):
    """P5 [N]: the column a character lands in is its index in the expanded row, and the expansion of a character depends on
    the character alone (C04.F4).  For translation that needs one more thing: nothing in `StringBuffer::from` looks at how
    long the row already is (`row.len()`, a column counter taken modulo something): a tab stop or an alignment rule would
    make the columns after it depend on the absolute column, i.e. on where the drawing sits."""
    prog = run.prog
    sb = prog.method("from", r"string_buffer::StringBuffer$", r"From<&str>")
    if not sb:
        run.missing("C06.P5", "From<&str> for StringBuffer")
        return
    region = module_region(prog, sb)
    # functions handed to iterator adaptors by name (`flat_map(padded_char)`)
    for q in list(region):
        qex = Expr(prog, q)
        for _, t in prog.calls(q):
            for a in t["args"]:
                v = strip(qex.operand(a))
                if v[0] == "fn" and v[1] in prog.bodies and prog.bodies[v[1]].get("crate") == "svgbob":
                    region = sorted(set(region) | set(module_region(prog, v[1])))
    bad = 0
    for q in region:
        b = prog.bodies[q]
        for bid, t in prog.calls(q):
            n = Program.callee_name(t)
            if re.search(r"Vec::<T, A>::len$|<impl \[T\]>::len$|Vec::<T, A>::capacity$", n):
                # `v.resize(v.len() + k, c)` only appends k copies: the length is read to say "k more", nothing else
                qex_ = Expr(prog, q)
                appended = False
                for _, t2 in prog.calls(q):
                    if re.search(r"Vec::<T, A>::resize$", Program.callee_name(t2)) and len(t2["args"]) == 3:
                        nl = strip(qex_.operand(t2["args"][1]))
                        if nl[0] == "bin" and nl[1].replace("WithOverflow", "").replace("Unchecked", "") == "Add" and \
                                any(strip(x)[0] == "call" and len(strip(x)) > 3 and strip(x)[3] == bid for x in (nl[2], nl[3])):
                            appended = True
                sl_ = prog.slicer(q)
                uses = sl_.forward_uses(t["dst"]["l"]) if t.get("dst") else []
                if appended and len(uses) <= 2:
                    continue
                bad += 1
                run.bad("C06.P5", "column-depends-on-position/%s" % short(q), where(t),
                        "%s reads the length of the row built so far (%s): the columns given to the following characters depend on the absolute column, so a drawing moved by k columns is not just shifted by k" % (short(q), short(n)))
        for blk in b["blocks"]:
            for st in blk["stmts"]:
                rv = st.get("rv") or {}
                if rv.get("k") in ("bin", "checked_bin") and str(rv.get("op", "")).startswith("Rem"):
                    bad += 1
                    run.bad("C06.P5", "column-depends-on-position/%s" % short(q), where(st), "%s computes a remainder while laying out a row (tab stops / alignment): columns depend on the absolute position" % short(q))
    if not bad:
        run.ok("C06.P5", "the row layout (%d function(s)) never looks at the length of the row built so far" % len(region), where(prog.bodies[sb]))
