"""C03 (strokes of - | + and labels) — per-cell clause decided by table abstract evaluation:
T0 the evaluator's predicate/constructor models conform to the code; T1 for each of `-`, `|`, `+`
and ALL 4^8 neighbourhoods over {blank, -, |, +} the fragments yielded by the character's behaviour
table, folded to exact rational coordinates from the current grid constants, stroke exactly the
point set the statement specifies (dash k-o; bar c-w plus a half stub towards an adjacent dash; plus
a half segment towards each neighbour that points at it, nothing when there is none); T2 plain
label characters have no table entry and only characters with a table entry enter the property
buffer, so labels are inert neighbours.  Not decided: merging into maximal lines and the
replacement of four lines by a rect (endorse)."""
import itertools
from fractions import Fraction

import re

from .. import tae_conf
from ..common import guards, short, where
from ..exprs import closure_of, expand_combinators, mentions, simplify, strip
from ..mirlib import Expr, Program
from ..tae import DIRS, TableError, Tables

F = Fraction
ALPHABET = [None, "-", "|", "+"]


def pt(x, y):
    return ("pt", F(x), F(y))


_NORM = {}


def normalize(frags):
    key = tuple(fr[:-1] for fr in frags)
    if key not in _NORM:
        _NORM[key] = _normalize(frags)
    return _NORM[key]


def _normalize(frags):
    """(set of maximal solid segments) or None when a non-line / dashed fragment is present"""
    by_line = {}
    for fr in frags:
        if fr[0] != "line" or fr[3]:
            return None
        a, b = fr[1], fr[2]
        dx, dy = b[1] - a[1], b[2] - a[2]
        if dx == 0 and dy == 0:
            continue
        # canonical direction
        if dx < 0 or (dx == 0 and dy < 0):
            dx, dy = -dx, -dy
        # normalise direction to primitive rational vector
        if dx != 0:
            d = (F(1), dy / dx)
        else:
            d = (F(0), F(1))
        off = a[1] * d[1] - a[2] * d[0]  # cross product: constant along the line
        t = lambda p: p[1] * d[0] + p[2] * d[1]
        lo, hi = sorted((t(a), t(b)))
        by_line.setdefault((d, off), []).append((lo, hi))
    out = set()
    for key, ivs in by_line.items():
        ivs.sort()
        cur = list(ivs[0])
        for lo, hi in ivs[1:]:
            if lo <= cur[1]:
                cur[1] = max(cur[1], hi)
            else:
                out.add((key, tuple(cur)))
                cur = [lo, hi]
        out.add((key, tuple(cur)))
    return out


def seg(a, b):
    return ("line", a, b, False, 0)


def expected(ch, nb, G):
    c, w, k, o, m = G["c"], G["w"], G["k"], G["o"], G["m"]
    if ch == "-":
        return [seg(k, o)]
    if ch == "|":
        out = [seg(c, w)]
        if nb["right"] == "-":
            out.append(seg(m, o))
        if nb["left"] == "-":
            out.append(seg(k, m))
        return out
    if ch == "+":
        out = []
        if nb["top"] in ("|", "+"):
            out.append(seg(c, m))
        if nb["bottom"] in ("|", "+"):
            out.append(seg(m, w))
        if nb["left"] in ("-", "+"):
            out.append(seg(k, m))
        if nb["right"] in ("-", "+"):
            out.append(seg(m, o))
        return out
    raise KeyError(ch)


def run(run):
    prog = run.prog
    tae_conf.check(run, "C03.T0")
    try:
        T = Tables(run)
    except TableError as ex:
        run.missing("C03.T1", "character tables (%s)" % ex)
        return
    run.record("ascii_table_chars", len(T.ascii))
    run.record("ascii_behaviour_entries", sum(len(v["behaviour"]) for v in T.ascii.values()))
    run.floor("C03.T1", "ascii_table_chars", len(T.ascii), 20)
    # the statement's geometry in terms of the documented cell: mid-height/mid-width of a 1 x 2 cell
    G = {"c": pt(F(1, 2), 0), "w": pt(F(1, 2), 2), "k": pt(0, 1), "o": pt(1, 1), "m": pt(F(1, 2), 1)}
    # grid constants of the source must agree with the documented cell (cell 1 x 2, points on quarter grid)
    for n in "ckmow":
        v = T.env.get(n)
        if v != G[n]:
            run.bad("C03.T1", "grid-point/%s" % n, T.ascii_file, "grid point %s folds to %r; the statement's cell has it at %r" % (n, v, G[n]))
    total = 0
    for ch in ("-", "|", "+"):
        ent = T.ascii.get(ch)
        if ent is None:
            run.missing("C03.T1", "table entry for %r" % ch)
            continue
        mism = []
        n = 0
        for combo in itertools.product(ALPHABET, repeat=8):
            nb = dict(zip(DIRS, combo))
            got = T.fragments(ch, nb)
            n += 1
            g = normalize(got)
            e = normalize(expected(ch, nb, G))
            if g != e and len(mism) < 4:
                mism.append((nb, got))
        total += n
        where_ = "%s:%d" % (T.ascii_file, ent["line"])
        if mism:
            nb, got = mism[0]
            nbs = ",".join("%s=%s" % (d, repr(nb[d])) for d in DIRS if nb[d] is not None) or "no neighbours"
            lines = sorted({fr[-1] for fr in got})
            run.bad("C03.T1", "strokes/%s" % ch, where_,
                    "character %r with %s yields %s (table lines %s) but the statement specifies %s" % (
                        ch, nbs, show(got), lines, show(expected(ch, nb, G))))
        else:
            run.ok("C03.T1", "strokes of %r over all 4^8 neighbourhoods of {blank,-,|,+}" % ch, where_, "%d neighbourhoods, 0 mismatches" % n)
    run.record("neighbourhoods_evaluated", total)
    run.floor("C03.T1", "neighbourhoods", total, 3 * 65536)

    # ---------------- T2 labels are inert
    drawing_letters = {"X", "o", "O", "V", "v"}
    labels = [c for c in "abcdefghijklmnopqrstuvwxyzABCDEFGHIJKLMNOPQRSTUVWXYZ0123456789" if c not in drawing_letters]
    bad_labels = [c for c in labels if T.has_property(c)]
    if bad_labels:
        run.bad("C03.T2", "label-has-entry/%s" % "".join(bad_labels), T.ascii_file,
                "label characters %r have a drawing table entry: as neighbours they change the strokes of - | +" % bad_labels)
    else:
        run.ok("C03.T2", "%d letters/digits have no table entry (drawing letters with an entry: %s)" % (
            len(labels), sorted(c for c in drawing_letters if T.has_property(c))), T.ascii_file)
    pb = prog.method("from", r"PropertyBuffer", r"From<.*span::Span>")
    if not pb:
        run.missing("C03.T2", "From<Span> for PropertyBuffer")
    else:
        ins = [(bid, t) for bid, t in prog.calls(pb) if Program.callee_name(t).endswith("HashMap::<K, V, S, A>::insert")]
        ok = False
        for bid, t in ins:
            for c, tk, sw in guards(prog, pb, bid):
                if mentions(c, lambda z: z[0] == "call" and z[1].endswith("Property::from_char")) and strip(c)[0] == "discr" and tk == 1:
                    ok = True
        if not ins:
            # `map.extend(span.iter().filter_map(|(cell, ch)| Property::from_char(*ch).map(|p| (*cell, p))))`: what is inserted is
            # the Some-payload of from_char by construction
            pex = Expr(prog, pb)
            for bid, t in prog.calls(pb):
                if re.search(r"Extend<.*>>::extend$|HashMap::<K, V, S, A>::extend$", Program.callee_name(t)) and len(t["args"]) == 2:
                    it_ = strip(pex.operand(t["args"][1]))
                    if it_[0] == "call" and re.search(r"Iterator::filter_map$", it_[1]) and len(it_[2]) == 2:
                        cl_, _c = closure_of(strip(it_[2][1]))
                        if cl_ in prog.bodies:
                            rr = [strip(simplify(expand_combinators(prog, x))) for x in Expr(prog, cl_).returns()]
                            alts_ = []
                            for x in rr:
                                alts_.extend(strip(a_) for a_ in (x[1] if x[0] == "phi" else [x]))
                            somes_ = [a_ for a_ in alts_ if a_[0] == "agg" and a_[2] == "Some"]
                            if somes_ and all(mentions(a_, lambda z: z[0] == "field" and tuple(z[2])[:2] == ("@Some", "0") and strip(z[1])[0] == "call" and strip(z[1])[1].endswith("Property::from_char")) for a_ in somes_) and \
                                    all(a_[0] == "agg" and a_[2] in ("Some", "None") for a_ in alts_):
                                ins, ok = [(bid, t)], True
        if ins and ok:
            run.ok("C03.T2", "only characters with a table entry (Property::from_char is Some) enter the property buffer", where(ins[0][1]))
        else:
            run.bad("C03.T2", "property-buffer-insert", where(prog.bodies[pb]), "PropertyBuffer::from(Span) inserts without the `Property::from_char(ch)` is-Some guard")
    fc = [p for p in prog.bodies if p.endswith("Property::from_char")]
    if fc:
        statics = {o[1] for o in prog.slicer(fc[0]).return_slice() if o[0] == "static"}
        # a table consulted in a closure (`.or_else(|| UNICODE_PROPERTIES.get(&ch))`) counts as well
        for q in prog.closures_of(fc[0]):
            statics |= {o[1] for o in prog.slicer(q).return_slice() if o[0] == "static"}
        want = {"svgbob::map::ascii_map::ASCII_PROPERTIES", "svgbob::map::unicode_map::UNICODE_PROPERTIES"}
        if statics == want:
            run.ok("C03.T2", "Property::from_char looks up exactly the two character tables", where(prog.bodies[fc[0]]))
        else:
            run.bad("C03.T2", "from_char-sources", where(prog.bodies[fc[0]]), "Property::from_char reads %s" % sorted(statics))
    run.assume("neighbour predicates see only the eight adjacent cells (PropertyBuffer lookups by cell.top() .. cell.bottom_right(), checked under C12/C10)")


def show(frags):
    names = {}
    out = []
    for fr in frags:
        if fr[0] == "line":
            out.append("%sline(%s,%s)-(%s,%s)" % ("broken " if fr[3] else "", fr[1][1], fr[1][2], fr[2][1], fr[2][2]))
        else:
            out.append(fr[0])
    return "[" + ", ".join(out) + "]" if out else "nothing"


run_flow = run
