"""C08 (no markup injection) — structural clauses: S1 the same sink census as C02 (every string that
reaches a sauron constructor is a harmless constant, a number, escaped by a verified function, or a
token of the identifier grammar); S2 vocabulary is constant: no reachable call to constructors that
take an element/attribute *name* from a value, and none that emit raw markup, comments or
doctypes; S3 class tokens come only from the identifier grammar whose output alphabet (computed
exactly, including the `ch as u8` truncation) excludes quote, angle bracket, ampersand and white
space; S4 the server returns the library's string unmodified (no HTML context is added)."""
import re

from ..charset import CS, WHITESPACE
from ..common import lib_reachable, short, where
from ..exprs import mentions, strip
from ..grammar import GrammarError
from ..charset import Unknown
from ..mirlib import Expr, Program, expr_str
from ..sinks import FORBIDDEN
from .c02 import escaper_rules, sink_rules

RAW = re.compile(r"safe_html|::comment$|doctype|::symbol$|parse_html|raw_html|html_element|element_ns|::attr$|::attr_ns$|::leaf::|Leaf::|::fragment$")


def run(run):
    sa = sink_rules(run, "C08")
    escaper_rules(run, "C08", sa, roundtrip=False)
    prog = run.prog
    roots, reach = lib_reachable(run, "C08.S2")
    n = 0
    for p in sorted(reach):
        for bid, t in prog.calls(p):
            cal = t["callee"]
            kr = cal.get("resolved_krate") or cal.get("krate") or ""
            if not kr.startswith("sauron"):
                continue
            n += 1
            name = Program.callee_name(t)
            if RAW.search(name):
                run.bad("C08.S2", "raw-constructor/%s/%s" % (short(p), short(name)), where(t),
                        "%s calls %s: element/attribute names or raw markup taken from a value" % (p, name))
    run.ok("C08.S2", "vocabulary census: %d sauron calls, none takes a tag/attribute name or raw markup from a value" % n)
    run.floor("C08.S2", "sauron_calls", n, 50)
    # ---------------- S3 identifier grammar
    g = sa.grammar
    if g is None:
        run.missing("C08.S3", "util::parser")
    else:
        forb = FORBIDDEN["attr"] | WHITESPACE | CS.of("'", ">", "{", "}", ";", ".", "#")
        for gname, what in (("tag_classes", "class tokens of {tags}"), ("ident", "legend class names")):
            try:
                cs = g.output_charset(g.tree(gname))
            except (GrammarError, Unknown) as ex:
                run.bad("C08.S3", "grammar-uninterpretable/%s" % gname, sa.gfile, "grammar %s: %s" % (gname, ex))
                continue
            leak = cs & forb
            if leak:
                run.bad("C08.S3", "grammar-alphabet/%s" % gname, sa.gfile,
                        "%s: grammar `%s` can output %s" % (what, gname, leak.describe(6)))
            else:
                run.ok("C08.S3", "%s: output alphabet of `%s` (%d characters) excludes quotes, angle brackets, ampersand, white space and CSS punctuation" % (what, gname, cs.count()), sa.gfile)
        for owner, litv in g.map_literals:
            if litv.replace("{}", "") != "":
                run.bad("C08.S3", "grammar-literal/%s" % owner, sa.gfile, "map closure of `%s` inserts literal text %r" % (owner, litv))
    # ---------------- S4 server adds no markup context
    h = "svgbob_server::text_to_svgbob"
    hb = [p for p in prog.bodies if p.startswith(h)]
    if not hb:
        run.missing("C08.S4", h)
    else:
        found = False
        for p in hb:
            for bid, t in prog.calls(p):
                if Program.callee_name(t) in ("svgbob::to_svg",):
                    found = True
                    sl = prog.slicer(p)
                    # the value returned to the client: uses of the call's destination must be moves into Ok(..)
                    uses = sl.forward_uses(t["dst"]["l"])
                    bad = [u for u, _ in uses if not (u.get("rv", {}).get("k") == "agg")]
                    if bad:
                        run.bad("C08.S4", "server-wraps-output", where(bad[0]), "the handler post-processes the svg string before returning it")
                    else:
                        run.ok("C08.S4", "handler returns svgbob::to_svg(..) unmodified", where(t))
        if not found:
            # combinator form (`from_utf8(..).map(svgbob::to_svg).map_err(..)`): the conversion is handed over as a function
            # item, so the returned Result is expanded into its alternatives; every Ok payload must be the call itself
            from ..exprs import expand_combinators, simplify
            for p in hb:
                if not p.endswith("text_to_svgbob::{closure#0}"):
                    continue
                rets = [strip(r) for r in Expr(prog, p).returns()]
                ready = [r for r in rets if r[0] == "agg" and r[2] == "Ready"]
                if len(ready) != 1:
                    continue
                v = strip(simplify(expand_combinators(prog, ready[0][3][0][1])))
                alts = [strip(a) for a in (v[1] if v[0] == "phi" else [v])]
                oks = [a for a in alts if a[0] == "agg" and a[2] == "Ok"]
                if oks and any(mentions(a, lambda z: isinstance(z, tuple) and z[:2] == ("call", "svgbob::to_svg")) for a in oks):
                    found = True
                    wrapped = [a for a in oks if not (strip(a[3][0][1])[0] == "call" and strip(a[3][0][1])[1] == "svgbob::to_svg")]
                    if wrapped or len(oks) != len([a for a in alts if a[0] != "agg" or a[2] != "Err"]):
                        run.bad("C08.S4", "server-wraps-output", where(prog.bodies[p]), "the handler post-processes the svg string before returning it: `%s`" % expr_str(wrapped[0] if wrapped else v)[:120])
                    else:
                        run.ok("C08.S4", "handler returns svgbob::to_svg(..) unmodified", where(prog.bodies[p]), "combinator form")
        if not found:
            run.bad("C08.S4", "server-no-to_svg", where(prog.bodies[hb[0]]), "the POST handler does not call svgbob::to_svg")


run_flow = run
