"""C10 (separated sub-diagrams render independently) — structural clauses: I1 span isolation: the
spans produced from the cell buffer are consumed only by `span.endorse()` (closure without captures),
Span::endorse takes the span and nothing else, and no function reachable from it (other than through
the process-constant tables) receives a CellBuffer, Settings or other spans: a span's fragments
depend on that span alone; I2 spans are the fixpoint grouping (merge_recursive) of one span per
occupied cell under the symmetric 8-neighbour adjacency |dx| <= 1 && |dy| <= 1, so drawings separated
by a blank row or column never share a span; I3 the only cross-span pass (tag enclosure) cannot
change geometry: FragmentTree.fragment is written only by FragmentTree::new and the enclose functions
write only css_tag / enclosing; contacts of different spans are never merged (the per-span results
are only flattened/concatenated); I4 the canvas covers both drawings: C12.M1.  Not decided: float
equality effects inside one span."""
import re

from ..common import guards, field_accesses, find_nodes, is_derived_impl, short, src_fn, where
from ..exprs import closure_of, mentions, strip
from ..mirlib import Expr, Program, expr_str, op_const


def run(run):
    prog = run.prog
    se = prog.method("endorse", r"span::Span$", "")
    if not se:
        run.missing("C10.I1", "Span::endorse")
        return
    b = prog.bodies[se]
    # ---------------- I1
    if b["argc"] == 1 and b["locals"][1]["ty"].endswith("span::Span"):
        run.ok("C10.I1", "Span::endorse(self) has the span as its only input", where(b), b.get("sig", "")[:100])
    else:
        run.bad("C10.I1", "endorse-signature", where(b), "Span::endorse takes more than the span: %s" % b.get("sig", ""))
    # reachability without crossing static initialisers
    E = prog.edges()
    seen = set()
    work = [se]
    while work:
        x = work.pop()
        if x in seen or x not in prog.bodies:
            continue
        seen.add(x)
        for y in E.get(x, ()):
            if y in prog.statics:
                continue  # process-constant tables: their initialisers take no runtime input (C07.D2)
            work.append(y)
    alien = re.compile(r"cell_buffer::CellBuffer|settings::Settings")
    nbad = 0
    for p in sorted(seen):
        bb = prog.bodies[p]
        if "{closure" in p:
            continue
        for l in bb["locals"][1:bb["argc"] + 1]:
            if alien.search(l["ty"]):
                nbad += 1
                run.bad("C10.I1", "foreign-input/%s" % short(p), where(bb), "%s, reachable from Span::endorse, takes `%s`: the per-span pipeline can see more than its span (via %s)" % (
                    short(p), l["ty"], " -> ".join(short(x) for x in prog.path_to(p)[-3:])))
    run.ok("C10.I1", "%d functions reachable from Span::endorse (tables excluded) take no CellBuffer / Settings" % len(seen), where(b)) if not nbad else None
    run.floor("C10.I1", "reachable_from_endorse", len(seen), 150)
    # statics read on the way must be the immutable tables (C07.D2): list them
    stat = set()
    for p in seen:
        for y in E.get(p, ()):
            if y in prog.statics:
                stat.add(y)
    mutable = [s for s in stat if prog.statics[s]["mutable"]]
    if mutable:
        run.bad("C10.I1", "mutable-static/%s" % short(mutable[0]), where(prog.statics[mutable[0]]), "the span pipeline uses mutable static %s" % mutable[0])
    run.record("tables_used_by_span_pipeline", sorted(short(s) for s in stat))
    # the consumers of Vec<Span>::from(&CellBuffer)
    vs = [p for p in prog.bodies if re.search(r"From<&svgbob::buffer::cell_buffer::CellBuffer> for alloc::vec::Vec<svgbob::buffer::cell_buffer::span::Span>>::from$", p)]
    if len(vs) != 1:
        run.missing("C10.I1", "Vec<Span>::from(&CellBuffer)")
    else:
        vsf = vs[0]
        users = []
        for p in prog.bodies:
            if prog.bodies[p]["crate"] != "svgbob":
                continue
            ex = None
            for bid, t in prog.calls(p):
                n = Program.callee_name(t)
                g = t["callee"].get("generics") or []
                is_conv = n == vsf or (n.endswith("Into<U>>::into") and len(g) == 2 and g[0].endswith("CellBuffer") and g[1].endswith("Vec<svgbob::buffer::cell_buffer::span::Span>"))
                if is_conv:
                    users.append((p, bid, t))
        run.record("span_producers_consumers", [short(p) for p, _, _ in users])
        # the two library consumers, or a private helper of their module that both of them call (`endorse_spans()`)
        from ..common import module_region as _mr
        cons_region = set()
        for q_ in prog.bodies:
            if q_.endswith("CellBuffer::endorse_to_fragment_spans") or q_.endswith("CellBuffer::get_fragment_spans"):
                cons_region.update(_mr(prog, q_))
        lib_users = [(p, bid, t) for p, bid, t in users if p in cons_region and "{closure" not in p]
        for p, bid, t in lib_users:
            # into_iter().map(|span| span.endorse())
            ok = False
            for c in prog.closures_of(p):
                r = [strip(x) for x in Expr(prog, c).returns()]
                if len(r) == 1 and r[0][0] == "call" and r[0][1] == se and strip(r[0][2][0]) == ("param", 2, ()):
                    ok = True
            if not ok:
                # the loop form: `for span in spans { let endorse = span.endorse(); .. }`: a call of Span::endorse in the
                # function itself whose receiver is the item of the iteration over the spans
                pex = Expr(prog, p)
                for _, t2 in prog.calls(p):
                    if Program.callee_name(t2) == se and t2["args"]:
                        recv = strip(pex.operand(t2["args"][0]))
                        if recv[0] == "field" and "@Some" in recv[2] and strip(recv[1])[0] == "call" and strip(recv[1])[1].endswith("Iterator>::next") and \
                                mentions(recv, lambda z: z[0] == "call" and (z[1] == vsf or z[1].endswith("Into<U>>::into"))) and \
                                not mentions(recv, lambda z: z[0] == "call" and re.search(r"Iterator::(filter|skip|take|step_by|zip|chain)$", z[1])):
                            ok = True
            sl = prog.slicer(p)
            uses = sl.forward_uses(t["dst"]["l"])
            only_iter = all(u.get("k") == "call" and re.search(r"IntoIterator>::into_iter$|into_iter$", Program.callee_name(u)) for u, _ in uses) and bool(uses)
            if ok and only_iter:
                run.ok("C10.I1", "in %s every span goes through `span.endorse()` on its own" % short(p), where(t))
            else:
                run.bad("C10.I1", "span-consumer/%s" % short(p), where(t), "%s does not simply map `span.endorse()` over the spans (endorse closure=%s, only iterated=%s)" % (short(p), ok, only_iter))
        run.floor("C10.I1", "span_consumers", len(lib_users), 1)
        i3(run)
        from .c16 import chord_box_rule
        chord_box_rule(run, "C10.I4")
        # ---------------- I2 grouping
        r = [strip(x) for x in Expr(prog, vsf).returns()]
        ok = len(r) == 1 and r[0][0] == "call" and r[0][1].endswith("merge::Merge::merge_recursive")
        if ok:
            c = strip(r[0][2][0])
            ok = c[0] == "call" and c[1].endswith("Iterator::collect") and mentions(c, lambda z: z[0] == "call" and z[1].endswith("Iterator::map")) and \
                mentions(c, lambda z: z[0] == "call" and re.search(r"BTreeMap::<K, V, A>::iter$", z[1]))
            cls = prog.closures_of(vsf)
            okc = any(len(rr := [strip(x) for x in Expr(prog, cc).returns()]) == 1 and rr[0][0] == "call" and rr[0][1].endswith("span::Span::new") and
                      [strip(a) for a in rr[0][2]] == [("param", 2, ("0",)), ("param", 2, ("1",))] for cc in cls)
            ok = ok and okc
        if ok:
            run.ok("C10.I2", "spans = merge_recursive(one Span::new(cell, ch) per occupied cell)", where(prog.bodies[vsf]))
        else:
            run.bad("C10.I2", "span-grouping", where(prog.bodies[vsf]), "Vec<Span>::from(&CellBuffer) is `%s`" % (expr_str(r[0])[:160] if r else "?"))
    sm = prog.method("merge", r"span::Span$", r"Merge$")
    cm = prog.method("can_merge", r"span::Span$", "")
    adj = prog.method("is_adjacent", r"cell::Cell$", "")
    if sm and cm and adj:
        calls = [Program.callee_name(t) for _, t in prog.calls(sm)]
        inner = [c for c in prog.closures_of(cm)]
        uses_adj = any(any(strip(r)[0] == "call" and strip(r)[1] == adj for r in Expr(prog, c).returns()) for c in inner)
        # exact shape: can_merge = any cell of self x any cell of other is_adjacent, and nothing else decides
        # (an extra early return, a filter or a bound on the iteration makes adjacent cells end up in
        # different spans, and a cell only reacts to neighbours of its own span)
        def any_over(body, src_ok):
            rets = [strip(r) for r in Expr(prog, body).returns()]
            if len(rets) != 1:
                return None, "%d return expressions (an additional condition decides)" % len(rets)
            r = rets[0]
            if not (r[0] == "call" and re.search(r"Iterator>?::any$", r[1]) and len(r[2]) == 2):
                return None, "not an `any` over the cells: %s" % expr_str(r)[:80]
            it = strip(r[2][0])
            if it[0] == "phi":
                it = strip(it[1][0])
            while it[0] == "call" and re.search(r"::(rev|iter|deref|into_iter)$", it[1]) and it[2]:
                it = strip(it[2][0])
            if not src_ok(it):
                return None, "iterates `%s`, not all cells of the span" % expr_str(it)[:60]
            cl, caps = closure_of(strip(r[2][1]))
            return cl, None
        c1, why = any_over(cm, lambda e: e == ("param", 1, ()))
        c2 = None
        if c1:
            c2, why = any_over(c1, lambda e: e[0] == "param" and e[1] == 1 and len(e[2]) == 1)
        exact = False
        if c2:
            rr = [strip(r) for r in Expr(prog, c2).returns()]
            exact = len(rr) == 1 and rr[0][0] == "call" and rr[0][1] == adj and {strip(a)[1] for a in rr[0][2] if strip(a)[0] == "param"} == {1, 2}
            why = None if exact else "the innermost test is `%s`" % (expr_str(rr[0])[:80] if rr else "?")
        if not exact:
            # the same test written as two nested `for` loops with `return true` inside and `false` after them
            cex = Expr(prog, cm)
            rets = sorted(str(strip(r)) for r in cex.returns())
            if rets == [str(("const", "int", 0)), str(("const", "int", 1))]:
                ITER = re.compile(r"::(next|into_iter|iter|rev|deref)$")
                seen_params, adj_guard, other = set(), 0, []
                for blk in prog.bodies[cm]["blocks"]:
                    if blk.get("cleanup") or not any(st.get("dst") and st["dst"]["l"] == 0 and not st["dst"]["p"] for st in blk["stmts"]):
                        continue
                    for cond, tk, sw in guards(prog, cm, blk["id"]):
                        c = strip(cond)
                        names = []
                        mentions(c, lambda z: z[0] == "call" and names.append(z[1]) and False)
                        if c[0] == "discr" and names and all(ITER.search(n) for n in names):
                            mentions(c, lambda z: z[0] == "param" and seen_params.add(z[1]) and False)
                        elif c[0] == "call" and c[1] == adj and all(ITER.search(n) or n == adj for n in names):
                            adj_guard += 1
                        else:
                            other.append(expr_str(c)[:80])
                if not other and adj_guard and {1, 2} <= seen_params:
                    exact, uses_adj, why = True, True, None
                elif other:
                    why = "an additional condition decides: `%s`" % other[0]
        if cm in calls and uses_adj and exact:
            run.ok("C10.I2", "Span::merge merges iff some cell of one span is adjacent to some cell of the other", where(prog.bodies[cm]))
        elif cm in calls and uses_adj:
            run.bad("C10.I2", "span-can-merge-extra-condition", where(prog.bodies[cm]),
                    "Span::can_merge is not exactly `self.iter().any(|a| other.iter().any(|b| a.is_adjacent(b)))`: %s" % why)
        else:
            run.bad("C10.I2", "span-can-merge", where(prog.bodies[cm]), "Span::merge/can_merge do not test Cell::is_adjacent between the spans' cells")
        # decided on the truth table: the body is evaluated path by path (integer arithmetic folded exactly) for
        # self = (0, 0) and every other cell in [-3, 3]^2 (the formula can only depend on small differences if it is
        # right), and must equal |dx| <= 1 && |dy| <= 1.  Any way of writing the formula is accepted.
        from ..mirlib import paths as mir_paths
        ok = False
        why_adj = ""
        ps = mir_paths(prog, adj)

        def ev(e, env):
            e = strip(e)
            k = e[0]
            if k == "const" and e[1] in ("int",):
                return int(e[2])
            if k == "param":
                return env[(e[1], tuple(f for f in e[2] if not str(f).startswith("@")))]
            if k == "field":
                base = strip(e[1])
                if base[0] == "param":
                    return env[(base[1], tuple(base[2]) + tuple(e[2]))]
                raise ValueError("field of %s" % base[0])
            if k == "cast":
                return ev(e[2], env)
            if k == "un" and e[1] == "Neg":
                return -ev(e[2], env)
            if k == "un" and e[1] == "Not":
                return not ev(e[2], env)
            if k == "bin":
                x, y = ev(e[2], env), ev(e[3], env)
                op = e[1].replace("WithOverflow", "").replace("Unchecked", "")
                return {"Add": lambda: x + y, "Sub": lambda: x - y, "Mul": lambda: x * y, "Le": lambda: x <= y, "Lt": lambda: x < y, "Ge": lambda: x >= y,
                        "Gt": lambda: x > y, "Eq": lambda: x == y, "Ne": lambda: x != y, "BitAnd": lambda: x & y, "BitOr": lambda: x | y}[op]()
            if k == "call" and re.search(r"::abs$|::unsigned_abs$|::abs_diff$", e[1]):
                vals = [ev(a, env) for a in e[2]]
                return abs(vals[0]) if len(vals) == 1 else abs(vals[0] - vals[1])
            if k == "call" and re.search(r"cmp::(max|min)$|Ord::(max|min)$", e[1]) and len(e[2]) == 2:
                vals = [ev(a, env) for a in e[2]]
                return max(vals) if e[1].endswith("max") else min(vals)
            raise ValueError("unsupported %s" % (e[1] if k == "call" else k))

        if ps:
            try:
                ok = True
                for dx in range(-3, 4):
                    for dy in range(-3, 4):
                        env = {(1, ("x",)): 0, (1, ("y",)): 0, (2, ("x",)): dx, (2, ("y",)): dy}
                        res = None
                        for conds, ret in ps:
                            taken = True
                            for c, tk in conds:
                                v = int(ev(c, env))
                                if isinstance(tk, tuple):
                                    if v in tk[1]:
                                        taken = False
                                elif v != tk:
                                    taken = False
                                if not taken:
                                    break
                            if taken:
                                res = bool(ev(ret, env))
                                break
                        want = abs(dx) <= 1 and abs(dy) <= 1
                        if res is None or res != want:
                            ok = False
                            why_adj = "for other - self = (%d, %d) it yields %s" % (dx, dy, res)
                            break
                    if not ok:
                        break
            except (ValueError, KeyError, TypeError) as ex:
                ok = False
                why_adj = "the body is not an integer formula over the two cells (%s)" % ex
        else:
            why_adj = "the body is not loop-free"
        it = src_fn(run, "cell_buffer/cell.rs", "is_adjacent", impl_self="Cell") or {"_file": "crates/svgbob/src/buffer/cell_buffer/cell.rs", "pos": [0]}
        if ok:
            run.ok("C10.I2", "Cell::is_adjacent = |dx| <= 1 && |dy| <= 1 (symmetric 8-neighbourhood)", "%s:%d" % (it["_file"], it["pos"][0]))
        else:
            run.bad("C10.I2", "adjacency", where(prog.bodies[adj]), "Cell::is_adjacent is not |dx| <= 1 && |dy| <= 1: %s" % why_adj)
    else:
        run.missing("C10.I2", "Span::merge / can_merge / Cell::is_adjacent")
    # ---------------- I3 cross-span pass cannot change geometry
    reads, writes = field_accesses(prog, "fragment_tree::FragmentTree")
    wr = {f: sorted({p for p, st in lst if not is_derived_impl(p)}) for f, lst in writes.items()}
    # mutations through &mut field references
    mut_by = {}
    for p, bb in prog.bodies.items():
        if bb["crate"] != "svgbob" or is_derived_impl(p):
            continue
        for blk in bb["blocks"]:
            for st in blk["stmts"]:
                rv = st.get("rv") or {}
                if rv.get("k") == "refmut":
                    prs = [pr for pr in rv["place"]["p"] if isinstance(pr, dict) and "f" in pr and (pr.get("adt") or "").endswith("fragment_tree::FragmentTree")]
                    if prs:
                        mut_by.setdefault(prs[-1]["name"], set()).add(p)
    frag_writers = set(wr.get("fragment", [])) | mut_by.get("fragment", set())
    newf = prog.method("new", r"fragment_tree::FragmentTree$", "")
    if newf and frag_writers == {newf}:
        run.ok("C10.I3", "FragmentTree.fragment is written only by FragmentTree::new", where(prog.bodies[newf]))
    else:
        run.bad("C10.I3", "tree-fragment-writers", where(prog.bodies[newf]) if newf else None, "FragmentTree.fragment is written/mutated in %s" % sorted(short(x) for x in frag_writers))
    for fn in ("enclose", "enclose_deep_first"):
        p = prog.method(fn, r"fragment_tree::FragmentTree$", "")
        if not p:
            continue
        touched = {f for f, ps in mut_by.items() if p in ps} | {f for f, ps in wr.items() if p in ps}
        if touched <= {"css_tag", "enclosing"}:
            run.ok("C10.I3", "FragmentTree::%s writes only %s" % (fn, sorted(touched)), where(prog.bodies[p]))
        else:
            run.bad("C10.I3", "enclose-writes/%s" % fn, where(prog.bodies[p]), "FragmentTree::%s writes %s" % (fn, sorted(touched)))
    # contacts of different spans are never merged
    ef = prog.method("endorse_to_fragment_spans", r"cell_buffer::CellBuffer$", "")
    if ef:
        bad = [Program.callee_name(t) for _, t in prog.calls(ef) if re.search(r"merge_recursive|second_pass_merge|Merge>::merge$|Contacts::endorse_rects$|is_contacting", Program.callee_name(t))]
        cl_bad = []
        for c in prog.closures_of(ef):
            cl_bad += [Program.callee_name(t) for _, t in prog.calls(c) if re.search(r"merge_recursive|Merge>::merge$", Program.callee_name(t))]
        if not bad and not cl_bad:
            run.ok("C10.I3", "per-span results are only flattened, partitioned and concatenated (no cross-span merge)", where(prog.bodies[ef]))
        else:
            run.bad("C10.I3", "cross-span-merge", where(prog.bodies[ef]), "endorse_to_fragment_spans merges across spans: %s" % [short(x) for x in bad + cl_bad])
    else:
        run.missing("C10.I3", "CellBuffer::endorse_to_fragment_spans")
    run.assume("the canvas covering both drawings is C12.M1; statics are immutable tables by C07.D2")


run_flow = run


PAIRWISE = re.compile(r"::(merge|can_merge|merge_recursive|second_pass_merge|merge_no_check|is_contacting|is_touching\w*|is_adjacent|group_by_contact|is_bounded_in|is_inside|hit|can_fit|enclose\w*)$")


def i3(run):
    """I3 [N]: where the results of the separate spans are put together, they are only concatenated.  The functions
    that collect the per-span results (get_fragment_spans, endorse_to_fragment_spans, group_nodes_and_fragments, with
    their closures and the private helpers they call) never apply a relation between two fragments - merge / can_merge /
    is_contacting / ... - to the combined list: such a step would let a fragment of one sub-diagram join or absorb a
    fragment of another one that happens to line up with it.  (Tags are matched with enclosing shapes later, in
    FragmentTree: that interaction is the subject of C16 and needs geometric containment, not adjacency.)"""
    from ..common import module_region, short, where
    prog = run.prog
    roots = [p for p in prog.bodies if re.search(r"cell_buffer::CellBuffer::(get_fragment_spans|endorse_to_fragment_spans|group_nodes_and_fragments)$", p)]
    if len(roots) != 3:
        run.missing("C10.I3", "CellBuffer::get_fragment_spans / endorse_to_fragment_spans / group_nodes_and_fragments")
        return
    region = set()
    for r in roots:
        region.update(module_region(prog, r))
    n = 0
    for q in sorted(region):
        for bid, t in prog.calls(q):
            name = Program.callee_name(t)
            if PAIRWISE.search(name) and (t["callee"].get("resolved_krate") or t["callee"].get("krate") or "svgbob") == "svgbob" and name.startswith(("svgbob::", "<svgbob::")):
                n += 1
                run.bad("C10.I3", "cross-span-relation/%s" % short(q), where(t),
                        "%s applies %s to the list that holds the results of all spans: fragments of separate sub-diagrams can now join or absorb each other" % (short(q), short(name)))
    if not n:
        run.ok("C10.I3", "the %d functions that put the per-span results together only concatenate them" % len(region), where(prog.bodies[roots[0]]),
               ", ".join(sorted(short(q) for q in region))[:300])
    run.floor("C10.I3", "collecting_functions", len(region), 6)


FIXTURE_EXPECT = ["cross-span-relation/"]


def fixture(run):
    i3(run)
