"""C05 (rectangles) — attribute clause plus one necessary recognition clause: R1 four lines are
accepted as a rectangle only if all eight end points of the two parallel pairs coincide with end
points of the other pair (lines that merely touch, e.g. a ladder, are not a rectangle); A1 in endorse_rect / endorse_rounded_rect the emitted
Rect spans min..max over *both* bound points of *all* fragments of the group, is unfilled, is dashed
iff any fragment of the group is dashed (Fragment::is_broken of lines/rects), and a rounded rect
takes its radius from an arc of the group; the endorser's result is the only source of the rect
fragment of a contact group and keeps the group's cells; A2 the rect element maps x,y <- start,
width,height <- end - start, rx <- radius (else 0) and the class flags broken/solid <- is_broken,
filled/nofill <- is_filled.  NOT decided (the core of C05): that the four/eight touching fragments
accepted by is_rect / is_rounded_rect really bound a drawn box, and that every drawn box is accepted —
recognition depends on float geometry of merged fragments at run time.  R2 the functions that decide
whether a group is a rectangle never look at the dashed flag (sides may be dashed in parts).  A3 (shared with C09.M1): a side
that contains dashed stretches still merges into one line (can_merge has no condition beyond touching and
collinearity, the merged line is dashed if any part is), otherwise such boxes are never recognised."""
import re

from ..common import guards, short, where
from ..exprs import bool_function, inline_calls, simplify, closure_of, is_const, is_param, mentions, strip
from ..mirlib import op_place, Expr, Program, expr_str


def fold_pushes_both_bounds(prog, cl):
    """closure `|mut acc, frag| { let (p1,p2) = frag.bounds(); acc.push(p1); acc.push(p2); acc }`"""
    if cl not in prog.bodies:
        return False
    ex = Expr(prog, cl)
    pushes = [t for _, t in prog.calls(cl) if Program.callee_name(t).endswith("Vec::<T, A>::push")]
    fields = set()
    for t in pushes:
        v = strip(ex.operand(t["args"][1]))
        if v[0] == "field" and strip(v[1])[0] == "call" and strip(v[1])[1].endswith("Bounds>::bounds") and mentions(v[1], lambda z: z[0] == "param" and z[1] == 3):
            fields.add(v[2][-1])
    rets = [strip(r) for r in ex.returns()]
    return fields == {"0", "1"} and len(pushes) == 2


def corners_rule(run):
    """R1 [N]: four lines are accepted as a rectangle only if they meet at their end points: the accepting
    return of is_rect must be (or be guarded by) a test in which each of the 8 end points of the two
    parallel pairs is compared with the end points of the lines of the other pair.  Lines that only touch
    somewhere along their length (a ladder's rails and rungs) must not pass."""
    prog = run.prog
    ir = [q for q in prog.bodies if q.endswith("cell_buffer::endorse::is_rect")]
    if len(ir) != 1:
        run.missing("C05.R1", "endorse::is_rect")
        return
    ir = ir[0]
    b = prog.bodies[ir]
    rets = [strip(r) for r in Expr(prog, ir).returns()]
    accepting = [r for r in rets if not is_const(r, 0)]
    tested = set()
    fns = []
    for r in accepting:
        cands = []
        mentions(r, lambda z: z[0] == "call" and z[1] in prog.bodies and z[1].startswith("svgbob::") and cands.append(z) and False)
        # conditions the accepting return is control-dependent on count as well
        for c in cands:
            f = c[1]
            if "line::Line::" in f or "Fragment::" in f:
                continue
            fns.append(f)
    # guards of the accepting return blocks
    for blk in b["blocks"]:
        for st in blk["stmts"]:
            pass
    for f in set(fns):
        ex = Expr(prog, f)
        fb = prog.bodies[f]
        for bid, t in prog.calls(f):
            if not re.search(r"Iterator>::all$|Iterator::all$", Program.callee_name(t)):
                continue
            src = ex.operand(t["args"][0])
            cl, caps = closure_of(strip(ex.operand(t["args"][1])))
            if cl not in prog.bodies:
                continue
            he = [tt for _, tt in prog.calls(cl) if Program.callee_name(tt).endswith("line::Line::has_endpoint")]
            cex = Expr(prog, cl)
            lines_tested = set()
            for tt in he:
                recv = strip(cex.operand(tt["args"][0]))
                pt = strip(cex.operand(tt["args"][1]))
                if recv[0] == "param" and recv[1] == 1 and pt[0] == "param" and pt[1] == 2:
                    idx = [x for x in recv[2] if x.isdigit()]
                    capv = strip(caps.get(idx[0], ("unknown",))) if idx else ("unknown",)
                    if capv[0] == "param":
                        lines_tested.add(capv[1])
            pts = []
            mentions(src, lambda z: z[0] == "agg" and z[1] == "array" and pts.append(z) and False)
            if pts and len(lines_tested) == 2:
                for _, e in pts[0][3]:
                    e = strip(e)
                    if e[0] == "param" and e[2] and e[2][-1] in ("start", "end") and e[1] not in lines_tested:
                        tested.add((e[1], e[2][-1], tuple(sorted(lines_tested))))
    pairs = {}
    for line, end, others in tested:
        pairs.setdefault(others, set()).add((line, end))
    complete = len(tested) == 8 and len(pairs) == 2 and all(len(v) == 4 for v in pairs.values())
    if complete and accepting:
        run.ok("C05.R1", "is_rect accepts four lines only when all 8 end points meet end points of the other pair", where(b),
               "corner test in %s" % ", ".join(sorted(short(f) for f in set(fns))))
    else:
        run.bad("C05.R1", "rect-accepts-touching-lines/is_rect", where(b),
                "is_rect accepts two parallel pairs of lines that merely touch (is_touching_aabb_perpendicular) without requiring that the lines meet at their end points "
                "(%d of 8 end-point comparisons found): the rails and rungs of a ladder are turned into one rectangle" % len(tested))


def recognition_roots(prog):
    roots = []
    for fn in ("endorse_rect", "endorse_rounded_rect"):
        ps = [p for p in prog.bodies if p.endswith("cell_buffer::endorse::" + fn)]
        mine = []
        for p in ps:
            for _, t in prog.calls(p):
                n = Program.callee_name(t)
                if re.search(r"cell_buffer::endorse::\w+$", n) and n in prog.bodies and str(prog.bodies[n].get("vis")) != "Public" and n not in mine:
                    mine.append(n)
        roots.extend(m for m in mine if m not in roots)
    return roots


def style_blind_rule(run):
    """R2 [N]: recognising a box does not look at the stroke style.  The statement lets the sides of a box be
    dashed in parts (`:` `!` stretches, `~` edges) and still demands one rect; the dashed flag only selects
    the class of the result (A1).  In the direct-call region of is_rect / is_rounded_rect (their callees and
    closures inside the crate, no callback over-approximation) no function may compare lines or fragments for
    equality (their `==` includes the dashed flag) or read `is_broken` for anything but copying it into a
    new line."""
    prog = run.prog
    # the deciding functions: the private functions of the endorse module that endorse_rect / endorse_rounded_rect call
    # (is_rect / is_rounded_rect today; found through the call graph, so a rename or a changed return type is not an event)
    roots = recognition_roots(prog)
    if len(roots) < 2:
        run.missing("C05.R2", "endorse::is_rect / is_rounded_rect")
        return
    seen, work, par = set(), list(roots), {}
    while work:
        x = work.pop()
        if x in seen or x not in prog.bodies or prog.bodies[x].get("crate") != "svgbob":
            continue
        seen.add(x)
        for c in prog.closures_of(x):
            par.setdefault(c, x)
            work.append(c)
        for bid, t in prog.calls(x):
            n = Program.callee_name(t)
            if n in prog.bodies and n not in seen:
                par.setdefault(n, x)
                work.append(n)
    run.floor("C05.R2", "recognition_region", len(seen), 20)

    def chain(p, raw=False):
        out = [p]
        while out[-1] in par and len(out) < 8:
            out.append(par[out[-1]])
        return out if raw else " <- ".join(short(x) for x in out)

    bad = 0
    for p in sorted(seen):
        b = prog.bodies[p]
        for bid, t in prog.calls(p):
            n = Program.callee_name(t)
            if re.search(r"^<svgbob::[\w:]*::(Line|Fragment|FragmentSpan|MarkerLine) as core::cmp::PartialEq>::(eq|ne)$", n):
                bad += 1
                run.bad("C05.R2", "recognition-compares-style/%s" % short(p), where(t),
                        "%s (%s) compares whole lines/fragments with `==`, which includes the dashed flag: a box whose opposite sides differ in style "
                        "(a `:` stretch on one side, `~` on one edge) is no longer recognised as a rectangle" % (short(p), chain(p)))
        flag_locals = set()
        for blk in b["blocks"]:
            for st in blk["stmts"]:
                rv = st.get("rv") or {}
                for o in rv.get("ops", []):
                    pl = op_place(o)
                    if pl and any(isinstance(pr, dict) and pr.get("name") == "is_broken" for pr in pl["p"]):
                        if rv.get("k") == "agg" and str(rv.get("adt", "")).endswith("line::Line"):
                            continue
                        if st.get("dst") and not st["dst"]["p"] and rv.get("k") in ("use", "copy", "move"):
                            flag_locals.add((st["dst"]["l"], where(st)))
                        else:
                            bad += 1
                            run.bad("C05.R2", "recognition-reads-style/%s" % short(p), where(st),
                                    "%s (%s) reads the dashed flag of a line while deciding whether the group is a rectangle" % (short(p), chain(p)))
        for l, w in flag_locals:
            for blk in b["blocks"]:
                uses = [(st, (st.get("rv") or {})) for st in blk["stmts"]]
                for st, rv in uses:
                    for o in rv.get("ops", []):
                        pl = op_place(o)
                        if pl and pl["l"] == l and not pl["p"] and not (rv.get("k") == "agg" and str(rv.get("adt", "")).endswith("line::Line")):
                            bad += 1
                            run.bad("C05.R2", "recognition-reads-style/%s" % short(p), w,
                                    "%s (%s) uses the dashed flag of a line while deciding whether the group is a rectangle" % (short(p), chain(p)))
                t = blk["term"]
                if t["k"] in ("switch",):
                    pl = op_place(t["on"])
                    if pl and pl["l"] == l:
                        bad += 1
                        run.bad("C05.R2", "recognition-reads-style/%s" % short(p), w, "%s (%s) branches on the dashed flag of a line" % (short(p), chain(p)))
    if not bad:
        run.ok("C05.R2", "the %d functions that decide whether a group is a rectangle never look at the dashed flag" % len(seen), where(prog.bodies[roots[0]]),
               ", ".join(sorted(short(x) for x in seen))[:400])
    exact_points_rule(run, seen, chain)


QUANTISE = re.compile(r"point::Point::cell$|cell::Cell::snap|<impl f(32|64)>::(floor|ceil|round|trunc|round_ties_even)$|util::pad$")


def exact_points_rule(run, region, chain):
    """R3 [N]: the conversely clause ("every rect coincides with border characters along its four edges; lines that
    merely touch are never turned into a rectangle") rests on the corner test comparing end points *exactly*: sides
    that only come near each other inside one character cell (a stub sticking out of a corner, a ladder rung) are not a
    corner.  In the recognition region nothing quantises a coordinate (no `Point::cell`, snapping, rounding, float->int
    cast), and `Line::has_endpoint` - the test the corner check is made of - is `self.start == p || self.end == p`."""
    prog = run.prog
    bad = 0
    seen_pairs = set()
    for p in sorted(region):
        b = prog.bodies[p]
        # the quantising functions themselves (and what only they call) are reported once, at the call that enters them
        if any(QUANTISE.search(x) for x in chain(p, raw=True)):
            continue
        for bid, t in prog.calls(p):
            n = Program.callee_name(t)
            if QUANTISE.search(n):
                if (p, n) in seen_pairs:
                    continue
                seen_pairs.add((p, n))
                bad += 1
                run.bad("C05.R3", "recognition-quantises/%s" % short(p), where(t),
                        "%s (%s) calls %s: end points that merely fall into the same cell would count as meeting, so sides that overhang or only touch can be closed into a rectangle" % (short(p), chain(p), short(n)))
        for blk in b["blocks"]:
            for st in blk["stmts"]:
                rv = st.get("rv") or {}
                if rv.get("k") == "cast" and str(rv.get("cast", rv.get("kind", ""))).startswith("FloatToInt"):
                    bad += 1
                    run.bad("C05.R3", "recognition-quantises/%s" % short(p), where(st), "%s (%s) casts a coordinate to an integer while deciding whether the group is a rectangle" % (short(p), chain(p)))
    if not bad:
        run.ok("C05.R3", "no coordinate is quantised in the %d functions of the recognition region" % len(region), None)
    he = [q for q in prog.bodies if q.endswith("line::Line::has_endpoint")]
    if len(he) != 1:
        run.missing("C05.R3", "Line::has_endpoint")
        return
    used = any(Program.callee_name(t) == he[0] for q in region for _, t in prog.calls(q))
    if not used:
        run.bad("C05.R3", "corner-test-missing", None, "no function of the recognition region tests end points with Line::has_endpoint (the corner check of is_rect)")
        return

    def atom(c):
        if c[0] == "call" and re.search(r"point::Point as core::cmp::PartialEq>::eq$", c[1]) and len(c[2]) == 2:
            a, b2 = strip(c[2][0]), strip(c[2][1])
            if b2[0] == "param" and b2[1] == 1:
                a, b2 = b2, a
            if a[0] == "param" and a[1] == 1 and a[2] in (("start",), ("end",)) and b2 == ("param", 2, ()):
                return "eq_" + a[2][0]
        return None
    atoms, table = bool_function(prog, he[0], atom, keep=r"PartialEq>::eq$")
    if atoms is None:
        run.bad("C05.R3", "has-endpoint", where(prog.bodies[he[0]]), "Line::has_endpoint is not `self.start == p || self.end == p`: %s" % table)
    elif atoms == ["eq_end", "eq_start"] and all(v == any(k) for k, v in table.items()):
        run.ok("C05.R3", "Line::has_endpoint = (self.start == p || self.end == p), exact point equality", where(prog.bodies[he[0]]))
    else:
        run.bad("C05.R3", "has-endpoint", where(prog.bodies[he[0]]), "Line::has_endpoint decides on %s: %s" % (atoms, table))


FIXTURE_EXPECT = ["recognition-quantises/"]


def fixture(run):
    style_blind_rule(run)


def box_outlines(run):
    """T1 [N] completeness, per cell: a box drawn with sharp corners - `+` with `-` or `~` edges and `|` sides, or the box-drawing
    characters - of any width and any number of side rows *including none* yields, cell by cell, fragments that
    form a closed outline (every cell draws, every end point meets another fragment).  Without that the four merged sides
    that `is_rect` needs never come into being.  Same model evaluation as C14.T4, on the sharp styles."""
    from ..tae import Tables, TableError
    from .c14 import t4
    try:
        T = Tables(run)
    except TableError as ex:
        run.missing("C05.T1", "character tables (%s)" % ex)
        return
    # sides are `|` (the statement's dashed `:` / `!` are stretches *within* a `|` side; a side made of nothing but one
    # `:` between two `+` does not connect in the table and is not claimed by the statement)
    styles = [("+", "+", "+", "+", hz, "|") for hz in "-~"]
    for tl, tr, bl, br, hz, vt in (("┌", "┐", "└", "┘", "─", "│"), ("╔", "╗", "╚", "╝", "═", "║"), ("┏", "┓", "┗", "┛", "━", "┃")):
        if all(c in T.unicode for c in (tl, tr, bl, br, hz, vt)):
            styles.append((tl, tr, bl, br, hz, vt))
    t4(run, T, rule="C05.T1", styles=styles, kind="sharp", floor=32)


def run(run):
    prog = run.prog
    style_blind_rule(run)
    box_outlines(run)
    fib = prog.method("is_broken", r"fragment::Fragment$", "")
    for fn, ctor, rounded in (("endorse_rect", "rect::Rect::new", False), ("endorse_rounded_rect", "rect::Rect::rounded_new", True)):
        ps = [p for p in prog.bodies if p.endswith("cell_buffer::endorse::" + fn)]
        if len(ps) != 1:
            run.missing("C05.A1", fn)
            continue
        p = ps[0]
        b = prog.bodies[p]
        rets = [strip(r) for r in Expr(prog, p).returns()]
        somes = [r for r in rets if r[0] == "agg" and r[2] == "Some"]
        if len(somes) != 1:
            run.bad("C05.A1", "endorse-shape/%s" % fn, where(b), "%s has %d Some(..) results, expected one" % (fn, len(somes)))
            continue
        c = strip(somes[0][3][0][1])
        if not (c[0] == "call" and c[1].endswith(ctor)):
            run.bad("C05.A1", "endorse-ctor/%s" % fn, where(b), "%s builds `%s`, expected %s(..)" % (fn, expr_str(c)[:100], ctor.split("::")[-2:]))
            continue
        args = [strip(a) for a in c[2]]
        names = ["start", "end", "is_filled"] + (["radius"] if rounded else []) + ["is_broken"]
        av = dict(zip(names, args))
        # extent
        for nm, ext in (("start", "min"), ("end", "max")):
            # helper extraction, `?` and match/if-let variants are normalised away first
            a = strip(simplify(inline_calls(prog, av[nm], keep=r"Bounds>::bounds$|::is_rect$|::is_rounded_rect$")))
            ok = a[0] == "field" and "@Some" in a[2] and strip(a[1])[0] == "call" and strip(a[1])[1].endswith("Iterator::" + ext)
            src_ok = False
            if ok:
                fold = []
                mentions(a, lambda z: z[0] == "call" and z[1].endswith("Iterator>::fold") and fold.append(z) and False)
                if fold:
                    it = strip(fold[0][2][0])
                    cl, _ = closure_of(fold[0][2][2])
                    src_ok = it[0] == "call" and it[1].endswith("<impl [T]>::iter") and strip(it[2][0]) == ("param", 1, ()) and fold_pushes_both_bounds(prog, cl)
                else:
                    # the same vector built by a `for` loop: every definition is an empty vector or a push of
                    # bounds(item).0 / bounds(item).1 with item taken from the iteration over all fragments
                    v = strip(a[1])[2][0]
                    while strip(v)[0] == "call" and re.search(r"::(iter|deref|into_iter|as_slice)$", strip(v)[1]):
                        v = strip(v)[2][0]
                    v = strip(v)
                    alts = [strip(x) for x in v[1]] if v[0] == "phi" else [v]
                    pushed = set()
                    good = True
                    for x in alts:
                        if x[0] == "call" and re.search(r"Vec::<T>::(new|with_capacity)$|vec::from_elem", x[1]):
                            continue
                        if x[0] == "mutated_by" and x[1].endswith("Vec::<T, A>::push") and len(x[2]) == 2:
                            val = strip(x[2][1])
                            if val[0] == "field" and strip(val[1])[0] == "call" and strip(val[1])[1].endswith("Bounds>::bounds") and \
                                    mentions(val[1], lambda z: z[0] == "call" and z[1].endswith("Iterator>::next")) and \
                                    mentions(val[1], lambda z: z[0] == "call" and re.search(r"into_iter$|::iter$", z[1]) and strip(z[2][0]) == ("param", 1, ())) and \
                                    not mentions(val[1], lambda z: z[0] == "call" and re.search(r"Iterator::(filter|skip|take|step_by|skip_while|take_while)$", z[1])):
                                pushed.add(tuple(val[2])[-1])
                                continue
                        good = False
                    src_ok = good and pushed == {"0", "1"}
            if ok and src_ok:
                run.ok("C05.A1", "%s: rect %s = %s over both bound points of all fragments" % (fn, nm, ext), where(b))
            else:
                run.bad("C05.A1", "rect-extent/%s/%s" % (fn, nm), where(b), "%s: rect %s is `%s`, expected %s over the bounds of all fragments of the group" % (fn, nm, expr_str(a)[:120], ext))
        if is_const(av["is_filled"], 0):
            run.ok("C05.A1", "%s: the rect is not filled" % fn, where(b), nontrivial=False)
        else:
            run.bad("C05.A1", "rect-filled/%s" % fn, where(b), "%s: is_filled is `%s`" % (fn, expr_str(av["is_filled"])))
        br = av["is_broken"]
        okb = False
        if br[0] == "call" and br[1].endswith("Iterator>::any"):
            cl, _ = closure_of(br[2][1])
            it = strip(br[2][0])
            over_all = mentions(it, lambda z: z[0] == "call" and z[1].endswith("<impl [T]>::iter") and strip(z[2][0]) == ("param", 1, ()))
            if cl in prog.bodies:
                r = [strip(x) for x in Expr(prog, cl).returns()]
                okb = over_all and len(r) == 1 and r[0][0] == "call" and r[0][1] == fib
        if okb:
            run.ok("C05.A1", "%s: dashed iff any fragment of the group is dashed" % fn, where(b))
        else:
            run.bad("C05.A1", "rect-dashed/%s" % fn, where(b), "%s: the dashed flag is `%s`, expected fragments.iter().any(is_broken)" % (fn, expr_str(br)[:120]))
        if rounded:
            r = av["radius"]
            # whatever the recognising helper returns (a (bool, Option<f32>) pair, an Option<f32>, ..) and however it is
            # unpacked (expect, `?`, if let): with the helper inlined every alternative of the value is the `radius` field
            # of an arc taken from the group
            def unwrapped(e_):
                e_ = strip(e_)
                while e_[0] == "call" and re.search(r"Option::<T>::(expect|unwrap)$", e_[1]) and e_[2]:
                    e_ = ("field", e_[2][0], ("@Some", "0"))
                return e_
            rr = strip(simplify(unwrapped(strip(simplify(inline_calls(prog, unwrapped(r), keep=r"Fragment::as_arc$", depth=2))))))
            alts = [strip(a) for a in (rr[1] if rr[0] == "phi" else [rr])]
            from_arc = lambda v: v[0] == "field" and v[2][-1:] == ("radius",) and \
                mentions(v, lambda z: z[0] == "call" and z[1].endswith("Fragment::as_arc") and mentions(z, lambda y: y[0] == "param" and y[1] == 1))
            okr = okq = bool(alts) and all(from_arc(a) for a in alts)
            if okr and okq:
                run.ok("C05.A1", "rounded rect radius = radius of an arc of the group", where(b))
            else:
                run.bad("C05.A1", "rect-radius", where(b), "the corner radius is `%s` (from an arc of the group: %s)" % (expr_str(r)[:100], okq))
    corners_rule(run)
    # completeness needs every side to merge into ONE line even when it has dashed stretches (shared with C09.M1)
    from .c09 import merge_rules
    merge_rules(run, "C05.A3")
    if fib:
        rets = [strip(r) for r in Expr(prog, fib).returns()]
        calls = sorted(r[1].split("::")[-2] for r in rets if r[0] == "call")
        consts = [r for r in rets if r[0] == "const"]
        if "Line" in calls and all(is_const(c, 0) for c in consts):
            run.ok("C05.A1", "Fragment::is_broken reports the dashed flag of lines (%s), false otherwise" % ",".join(calls), where(prog.bodies[fib]))
        else:
            run.bad("C05.A1", "fragment-is-broken", where(prog.bodies[fib]), "Fragment::is_broken is %s" % " | ".join(expr_str(r)[:40] for r in rets))
        lib = prog.method("is_broken", r"line::Line$", "")
        if lib:
            r = [strip(x) for x in Expr(prog, lib).returns()]
            if len(r) == 1 and r[0] == ("param", 1, ("is_broken",)):
                run.ok("C05.A1", "Line::is_broken = self.is_broken", where(prog.bodies[lib]), nontrivial=False)
            else:
                run.bad("C05.A1", "line-is-broken", where(prog.bodies[lib]), "Line::is_broken is %s" % (expr_str(r[0]) if r else "?"))
    else:
        run.missing("C05.A1", "Fragment::is_broken")
    # the endorsed rect replaces the group and keeps its cells
    er = prog.method("endorse_rects", r"contacts::Contacts$", "")
    if er:
        ex = Expr(prog, er)
        news = [(bid, t) for bid, t in prog.calls(er) if Program.callee_name(t).endswith("FragmentSpan::new")]
        ok = False
        for bid, t in news:
            sp = strip(ex.operand(t["args"][0]))
            fr = strip(ex.operand(t["args"][1]))
            ok = sp[0] == "call" and sp[1].endswith("Contacts::span") and mentions(fr, lambda z: z[0] == "call" and z[1].endswith("Contacts::endorse_rect"))
        pushes = [(bid, t) for bid, t in prog.calls(er) if Program.callee_name(t).endswith("Vec::<T, A>::push")]
        if ok and len(pushes) == 2:
            run.ok("C05.A1", "an endorsed group becomes FragmentSpan(group's cells, rect); a rejected group is kept unchanged", where(news[0][1]))
        else:
            run.bad("C05.A1", "endorse-rects", where(prog.bodies[er]), "Contacts::endorse_rects does not pair the group's span with its endorsed rect")
    else:
        run.missing("C05.A1", "Contacts::endorse_rects")
    # ---------------- A2 rendering
    rn = prog.methods("from", r"vdom::node::Node<MSG>$", r"From<.*rect::Rect>")
    if len(rn) != 1:
        run.missing("C05.A2", "From<Rect> for Node")
    else:
        p = rn[0]
        ex = Expr(prog, p)
        got = {}
        rxs = []
        for bid, t in prog.calls(p):
            n = Program.callee_name(t)
            m = re.search(r"svg::attributes::(?:commons::)?(x|y|width|height|rx)$", n)
            if m:
                e = strip(ex.operand(t["args"][0]))
                if m.group(1) == "rx":
                    rxs.append((bid, t, e))
                else:
                    got[m.group(1)] = (t, e)
            if n.endswith("attributes::classes_flag"):
                got["classes"] = (t, strip(ex.operand(t["args"][0])))
        w = prog.method("width", r"rect::Rect$", "")
        h = prog.method("height", r"rect::Rect$", "")
        def coord(e, field, c):
            return e[0] == "field" and e[2] == (c,) and mentions(e, lambda z: z[0] == "param" and z[1] == 1 and z[2] == (field,))
        checks = [
            ("x", lambda e: coord(e, "start", "x"), "start.x"),
            ("y", lambda e: coord(e, "start", "y"), "start.y"),
            ("width", lambda e: e[0] == "call" and e[1] == w and strip(e[2][0]) == ("param", 1, ()), "width()"),
            ("height", lambda e: e[0] == "call" and e[1] == h and strip(e[2][0]) == ("param", 1, ()), "height()"),
        ]
        for attr, pred, what in checks:
            if attr in got and pred(got[attr][1]):
                run.ok("C05.A2", "rect %s <- %s" % (attr, what), where(got[attr][0]))
            else:
                run.bad("C05.A2", "rect-attr/%s" % attr, where(got[attr][0]) if attr in got else where(prog.bodies[p]),
                        "rect attribute %s is `%s`, expected %s" % (attr, expr_str(got[attr][1])[:80] if attr in got else "missing", what))
        for fn, c in ((w, "x"), (h, "y")):
            if fn:
                r = [strip(x) for x in Expr(prog, fn).returns()]
                ok = len(r) == 1 and r[0][0] == "bin" and r[0][1] == "Sub" and coord(strip(r[0][2]), "end", c) and coord(strip(r[0][3]), "start", c)
                if ok:
                    run.ok("C05.A2", "Rect::%s = end.%s - start.%s" % ("width" if c == "x" else "height", c, c), where(prog.bodies[fn]))
                else:
                    run.bad("C05.A2", "rect-size/%s" % c, where(prog.bodies[fn]), "Rect::%s is `%s`" % ("width" if c == "x" else "height", expr_str(r[0])[:100] if r else "?"))
        # rx: Some(radius) -> radius, None -> 0
        ok_some = any(e[0] == "param" and e[2][:1] == ("radius",) and "@Some" in e[2] for _, _, e in rxs)
        ok_none = any(is_const(e, 0) for _, _, e in rxs)
        if len(rxs) == 2 and ok_some and ok_none:
            run.ok("C05.A2", "rx <- radius when present, else 0", where(rxs[0][1]))
        else:
            run.bad("C05.A2", "rect-attr/rx", where(prog.bodies[p]), "rx is %s" % [expr_str(e)[:40] for _, _, e in rxs])
        if "classes" in got:
            e = got["classes"][1]
            pairs = {}
            if e[0] == "agg":
                for _, it in e[3]:
                    it = strip(it)
                    if it[0] == "agg" and len(it[3]) == 2:
                        k = strip(it[3][0][1])
                        v = strip(it[3][1][1])
                        neg = v[0] == "un" and v[1] == "Not"
                        vv = strip(v[2]) if neg else v
                        pairs[k[2] if k[0] == "const" else "?"] = (neg, vv[2][-1] if vv[0] == "param" and vv[2] else "?")
            want = {"broken": (False, "is_broken"), "solid": (True, "is_broken"), "filled": (False, "is_filled"), "nofill": (True, "is_filled")}
            if pairs == want:
                run.ok("C05.A2", "class flags: broken/solid <- is_broken, filled/nofill <- is_filled", where(got["classes"][0]))
            else:
                run.bad("C05.A2", "rect-classes", where(got["classes"][0]), "class flags are %r" % pairs)
        else:
            run.bad("C05.A2", "rect-classes", where(prog.bodies[p]), "no classes_flag on the rect element")
    run.assume("recognition (is_rect / is_rounded_rect on merged float geometry) is NOT decided: the ladder case noted by the property author is outside the decided clause")


run_flow = run
