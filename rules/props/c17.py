"""C17 (line endings and invisible trailing white space) — structural clauses:
W1 rows come from `str::lines` (which removes LF and CRLF), and a cell is inserted only under
`!ch.is_whitespace()` for the very character that is inserted (so trailing blanks, tabs and a stray
CR never become cells); W2 the cell buffer has no field that could carry the number of rows or the
row length, so canvas and rendering depend on occupied cells only; W3 the legend parser is
insensitive to the line-ending convention (its input is filtered of CR before the grammar runs, or
else the grammar itself accepts CRLF witnesses identically) and to blanks before a line end
(192 witness documents are matched with a PEG-faithful interpreter of the extracted pom grammar and
must yield the canonical entries)."""
import itertools
import re

from ..charset import WHITESPACE
from ..common import guards, short, where
from ..exprs import closure_of, mentions, strip
from ..grammar import GrammarError, load_parser_module
from ..charset import Unknown
from ..mirlib import Expr, Program, expr_str

SPLITTERS_BAD = re.compile(r"str::<impl str>::(split|split_terminator|split_inclusive|rsplit|splitn|split_whitespace|split_once)$|str>::split")


def run(run):
    prog = run.prog
    # ---------------- W1a line splitter
    sb_from = prog.method("from", r"string_buffer::StringBuffer$", r"From<&str>")
    if not sb_from:
        run.missing("C17.W1", "From<&str> for StringBuffer")
    else:
        ex = Expr(prog, sb_from)
        lines = [t for _, t in prog.calls(sb_from) if re.search(r"str::<impl str>::lines$", Program.callee_name(t))]
        bad = [t for _, t in prog.calls(sb_from) if SPLITTERS_BAD.search(Program.callee_name(t))]
        if len(lines) == 1 and strip(ex.operand(lines[0]["args"][0])) == ("param", 1, ()) and not bad:
            run.ok("C17.W1", "rows = input.lines() (LF and CRLF terminators removed)", where(lines[0]))
        else:
            t = (bad or lines or [None])[0]
            run.bad("C17.W1", "line-splitter", where(t) if t else where(prog.bodies[sb_from]),
                    "StringBuffer::from does not split the input with exactly one str::lines on the whole input (found %d lines(), %d other splitters): "
                    "unrecognised splitter, CRLF handling cannot be established" % (len(lines), len(bad)))
        # every row that is pushed comes from a lines() item; chars of the row come from line.chars()
        chars = [t for _, t in prog.calls(sb_from) if re.search(r"str::<impl str>::chars$", Program.callee_name(t))]
        closure_chars = False
        if not chars:
            # `s.lines().map(|line| line.chars()...collect())`: chars() of the closure's item, the closure mapped over lines()
            for q in prog.closures_of(sb_from):
                qc = [t for _, t in prog.calls(q) if re.search(r"str::<impl str>::chars$", Program.callee_name(t))]
                if len(qc) == 1 and strip(Expr(prog, q).operand(qc[0]["args"][0])) == ("param", 2, ()):
                    for _, t2 in prog.calls(sb_from):
                        if re.search(r"Iterator::map$", Program.callee_name(t2)) and len(t2["args"]) == 2:
                            cl_, _ = closure_of(strip(ex.operand(t2["args"][1])))
                            src_ = strip(ex.operand(t2["args"][0]))
                            if cl_ == q and src_[0] == "call" and src_[1].endswith("str::<impl str>::lines"):
                                closure_chars = True
                                chars = qc
        if closure_chars:
            run.ok("C17.W1", "row characters = line.chars() of a lines() item", where(chars[0]))
        elif len(chars) == 1 and mentions(ex.operand(chars[0]["args"][0]), lambda z: z[0] == "call" and z[1].endswith("str::<impl str>::lines")):
            run.ok("C17.W1", "row characters = line.chars() of a lines() item", where(chars[0]))
        else:
            run.bad("C17.W1", "row-chars", where(prog.bodies[sb_from]), "rows are not built from line.chars() of the lines() items")
    # ---------------- W1b whitespace never becomes a cell
    cb_from = prog.method("from", r"cell_buffer::CellBuffer$", r"From<.*StringBuffer>")
    if cb_from:
        # a per-row helper the conversion was split into (`insert_row(y, chars)`) is spliced back
        prog.inline_single_use_helpers(cb_from, same_file=True, skip=r"::(escape_line|add_css_styles|insert)$", skip_ret=r"^bool$")
    if not cb_from:
        run.missing("C17.W1", "From<StringBuffer> for CellBuffer")
    else:
        ex = Expr(prog, cb_from)
        inserts = [(bid, t) for bid, t in prog.calls(cb_from)
                   if re.search(r"BTreeMap::<K, V, A>::insert$|::insert$", Program.callee_name(t)) and "Cell" in " ".join(t.get("arg_tys", []))]
        ext_sites = []
        if not inserts:
            from ..common import cell_extend_sites
            ext_sites = cell_extend_sites(prog, cb_from)
            for site in ext_sites:
                if "ws" in site["filter_atoms"] and strip(site["ch"]) == ("param", 2, ("1",)):
                    run.ok("C17.W1", "cells are extended from a filter that requires !ch.is_whitespace() of the inserted char", where(site["term"]),
                           "is_whitespace covers space, tab, CR, LF (%d code points)" % WHITESPACE.count())
                else:
                    run.bad("C17.W1", "whitespace-cell", where(site["term"]),
                            "cells are inserted without a `!ch.is_whitespace()` filter on the inserted character: trailing blanks / CR could become cells")
        run.floor("C17.W1", "cell_inserts", len(inserts) + len(ext_sites), 1)
        for bid, t in inserts:
            ch_expr = ex.operand(t["args"][-1])
            ok = False
            for cond, taken, sw in guards(prog, cb_from, bid):
                c = strip(cond)
                if c[0] == "call" and re.search(r"char::methods::<impl char>::is_whitespace$", c[1]) and taken == 0:
                    if strip(c[2][0]) == strip(ch_expr):
                        ok = True
            if not ok:
                # the test sits in a helper (`if !Self::is_blank(ch)`): decided through the helper's boolean function
                from ..common import blank_guard_atoms
                ok = "ws" in blank_guard_atoms(prog, cb_from, bid, ch_expr)
            if ok:
                run.ok("C17.W1", "cell insert guarded by !ch.is_whitespace() on the inserted char", where(t),
                       "is_whitespace covers space, tab, CR, LF (%d code points)" % WHITESPACE.count())
            else:
                run.bad("C17.W1", "whitespace-cell", where(t),
                        "a cell is inserted without a dominating `!ch.is_whitespace()` test of the inserted character: trailing blanks / CR could become cells")
    # ---------------- W2 no row count in the buffer
    cb = prog.adts.get("svgbob::buffer::cell_buffer::CellBuffer")
    if not cb:
        run.missing("C17.W2", "CellBuffer")
    else:
        for f in cb["variants"][0]["fields"]:
            ty = f["ty"]
            content_keyed = re.match(r"^alloc::collections::btree::map::BTreeMap<svgbob::[\w:]*Cell, char>$|^alloc::vec::Vec<\(alloc::string::String, alloc::string::String\)>$|"
                                     r"^alloc::vec::Vec<\(svgbob::[\w:]*Cell, alloc::string::String\)>$", ty)
            scalar = re.search(r"(?<![\w:])([ui](8|16|32|64|128|size)|f32|f64)(?![\w])|::Cell(?![\w])|::Point(?![\w])", ty)
            if (scalar and not content_keyed) or re.search(r"Vec<alloc::vec::Vec<char>>|StringBuffer|Vec<alloc::string::String>$", ty):
                run.bad("C17.W2", "row-count-field/%s" % f["name"], where(cb),
                        "CellBuffer.%s : %s can carry the number/length of rows or an extent that is not derived from the occupied cells, which depends on trailing blank lines and blanks" % (f["name"], f["ty"]))
            else:
                run.ok("C17.W2", "CellBuffer.%s cannot carry a row count" % f["name"], where(cb), f["ty"][:70], nontrivial=False)
        b = prog.method("bounds", r"cell_buffer::CellBuffer$")
        if b:
            calls = [Program.callee_name(t) for _, t in prog.calls(b)]
            if any(re.search(r"BTreeMap<.*>::(iter|keys|range)$|BTreeMap::<K, V, A>::(iter|keys|range)$|::iter$", c) for c in calls):
                run.ok("C17.W2", "bounds() is computed from the occupied cells", where(prog.bodies[b]))
            else:
                run.bad("C17.W2", "bounds-source", where(prog.bodies[b]), "bounds() does not iterate the cell map")
        else:
            run.missing("C17.W2", "CellBuffer::bounds")
    # ---------------- W3 legend
    w3(run)
    # ---------------- W4 blanks at the end of a row are never inside a quoted region
    w4(run, 5)
    # ---------------- W5 where the legend starts does not depend on what follows the marker on its line
    w5(run)
    run.assume("str::lines splits on \\n and removes one trailing \\r per line (std documentation)")


run_flow = run

ENTRIES = [("a", "fill:red"), ("b1", "stroke: blue; x:y"), ("_c", " fill : #abadb0; ")]


def witness(header_trail, seps, final, nl):
    s = "# Legend:" + header_trail + nl
    parts = ["%s = {%s}" % (n, v) for n, v in ENTRIES]
    s += parts[0] + seps[0] + nl + parts[1] + seps[1] + nl + parts[2] + final.replace("\n", nl)
    return s


def w5(run):
    """W5 [N]: W3 decides that the legend *parser* is blind to line endings and trailing blanks; that only helps if the step
    before it - finding the legend - does not look at them either.  `CellBuffer::from(&str)` locates the legend with
    `input.find("# Legend:")` and hands everything from there to the parser, keeping `input[..loc]` as the drawing exactly
    when the parser accepts (same decision as C16.L2, evaluated here under C17: a header test of its own - "the marker must
    stand alone on its line" with a home-made notion of blank - is reported)."""
    from .c16 import l2_combinator, l2_paths, l2_shape
    prog = run.prog
    cf = prog.method("from", r"cell_buffer::CellBuffer$", r"From<&str>")
    if not cf:
        run.missing("C17.W5", "From<&str> for CellBuffer")
        return
    l2_combinator(run, cf, "C17.W5") or l2_paths(run, cf, "C17.W5") or l2_shape(run, cf, "C17.W5")


def w4(run, maxlen):
    """W4 [N]: quoted text is copied verbatim into a text element, blanks included, so trailing blanks are invisible only if
    the row scanner can never put them inside a quoted region.  The extracted grammar `line_parse` is run on every row over
    {letter, blank, quote, backslash} up to length maxlen, followed by each of four blank suffixes: the regions must be the
    same as without the suffix and none may reach into the suffix (a region ends at a closing quote, never at the end of
    the row)."""
    import itertools
    from ..grammar import GrammarError, load_parser_module
    from ..charset import Unknown
    g, mod, gfile = load_parser_module(run)
    if g is None or "line_parse" not in g.fns:
        run.missing("C17.W4", "util::parser::line_parse")
        return
    n = 0
    try:
        for L in range(0, maxlen + 1):
            for tup in itertools.product('a "\\', repeat=L):
                text = "".join(tup)
                body = text.rstrip(" ")
                if body != text:
                    continue  # rows ending in a blank are covered as body + suffix
                ok0, _, ref = g.parse("line_parse", body)
                ref = [tuple(x) for x in ref] if ok0 and isinstance(ref, list) else None
                for suf in (" ", "   ", "\t", " \t"):
                    n += 1
                    ok, _, out = g.parse("line_parse", body + suf)
                    got = [tuple(x) for x in out] if ok and isinstance(out, list) else None
                    if got != ref or any(k >= len(body) for _, k in (got or [])):
                        run.bad("C17.W4", "quoted-region-reaches-trailing-blanks", gfile,
                                "the row scanner reads %r as quoted regions %r but %r (same row with trailing blanks) as %r: the blanks at the end of the line become part of a text element" % (body, ref, body + suf, got))
                        return
    except (GrammarError, Unknown) as ex:
        run.bad("C17.W4", "line-grammar-uninterpretable", gfile, "grammar line_parse: %s" % ex)
        return
    run.ok("C17.W4", "no quoted region of line_parse reaches into trailing blanks (%d rows x suffixes)" % n, gfile)
    run.floor("C17.W4", "rows", n, 1000)


def w3(run):
    prog = run.prog
    g, mod, gfile = load_parser_module(run)
    if g is None:
        run.missing("C17.W3", "util::parser module")
        return
    entry = "parse_css_legend"
    pcl = [p for p in prog.bodies if p.endswith("util::parser::" + entry)]
    if len(pcl) != 1:
        run.missing("C17.W3", "util::parser::parse_css_legend")
        return
    pcl = pcl[0]
    # which grammar does the legend entry point run, and on what input?
    cr_filtered = False
    gname = None
    chain = [pcl]
    seen = set()
    input_expr = None
    while chain:
        p = chain.pop()
        if p in seen:
            continue
        seen.add(p)
        ex = Expr(prog, p)
        for bid, t in prog.calls(p):
            n = Program.callee_name(t)
            if re.search(r"pom::parser::Parser::<'a, I, O>::parse$", n):
                ge = strip(ex.operand(t["args"][0]))
                if ge[0] == "call":
                    gname = ge[1].split("::")[-1]
            elif n in prog.bodies and n.startswith("svgbob::util::parser::") and "closure" not in n:
                if p == pcl:
                    input_expr = ex.operand(t["args"][0])
                chain.append(n)
    if gname is None or gname not in g.fns:
        run.missing("C17.W3", "grammar run by parse_css_legend")
        return
    if input_expr is not None:
        e = strip(input_expr)
        # collect(filter(chars(arg1), |ch| *ch != '\r'))
        if e[0] == "call" and re.search(r"Iterator::collect$", e[1]):
            f = strip(e[2][0])
            if f[0] == "call" and re.search(r"Iterator::filter$", f[1]):
                src = strip(f[2][0])
                cl, caps = closure_of(f[2][1])
                if src[0] == "call" and src[1].endswith("str::<impl str>::chars") and strip(src[2][0]) == ("param", 1, ()) and cl in prog.bodies:
                    rets = [strip(r) for r in Expr(prog, cl).returns()]
                    if len(rets) == 1 and rets[0][0] == "bin" and rets[0][1] == "Ne":
                        a, b = strip(rets[0][2]), strip(rets[0][3])
                        if a[0] == "param" and b == ("const", "int", 13):
                            cr_filtered = True
    run.record("legend_grammar", gname)
    # the text preparation that runs before the grammar, evaluated as a model on every witness
    from ..strpipe import StrEval
    entry_item = [it for it in mod["items"] if it.get("k") == "fn" and it.get("name") == entry and not it.get("test")]
    # the pipeline ends where the text is handed to a function that runs the grammar; every other function of the
    # module that the preparation calls (a normalising helper ...) is interpreted
    def runs_parser(q, seen_=None):
        seen_ = seen_ if seen_ is not None else set()
        if q in seen_ or q not in prog.bodies:
            return False
        seen_.add(q)
        for _, t_ in prog.calls(q):
            n_ = Program.callee_name(t_)
            if re.search(r"pom::parser::Parser::<'a, I, O>::parse$", n_):
                return True
            if n_.startswith("svgbob::util::parser::") and "closure" not in n_ and runs_parser(n_, seen_):
                return True
        return False
    sink_names = {n.split("::")[-1] for n in seen if n != pcl and runs_parser(n)}
    mod_fns = {it["name"]: it for it in mod["items"] if it.get("k") == "fn" and not it.get("test") and it["name"] not in sink_names and it["name"] != entry}
    prep = None
    if entry_item:
        try:
            mod_consts = {it["name"]: it["e"] for it in mod["items"] if it.get("k") == "const" and not it.get("test") and it.get("e")}

            def mk_eval():
                ev_ = StrEval(sink_names, mod_fns)
                ev_.consts = mod_consts
                return ev_
            mk_eval().run_fn(entry_item[0], "x")
            prep = lambda doc: mk_eval().run_fn(entry_item[0], doc)[1]
        except Unknown as ex:
            run.bad("C17.W3", "legend-preparation-uninterpretable", gfile,
                    "the text preparation in %s uses a construct outside the modelled subset (%s); its effect on line ends cannot be decided" % (entry, ex))
            return
    if prep is None:
        run.missing("C17.W3", "source of util::parser::parse_css_legend")
        return
    # cross-check of the two views of the same code: MIR says CR is filtered <=> the model drops CR
    model_drops_cr = "\r" not in prep("a\r\nb\rc")
    if cr_filtered and not model_drops_cr:
        run.bad("C17.W3", "legend-preparation-disagrees", gfile, "MIR shows a CR filter on the legend input but the source model keeps CR")
    cr_filtered = model_drops_cr
    run.record("legend_input_cr_filtered", cr_filtered)
    try:
        canon_ok, _, canon = g.parse(gname, witness("", ("", ""), "", "\n"))
    except (GrammarError, Unknown) as ex:
        run.bad("C17.W3", "grammar-uninterpretable", gfile, "legend grammar not interpretable: %s" % ex)
        return
    want = [(n, v) for n, v in ENTRIES]
    if not canon_ok or [tuple(x) for x in canon] != want:
        run.bad("C17.W3", "legend-canonical", gfile, "the canonical 3-entry legend does not parse to its 3 entries (got %r)" % (canon,))
        return
    run.ok("C17.W3", "canonical legend parses to 3 entries", gfile, repr(canon))
    # line terminators
    n_w = 0
    fails_crlf, fails_blank = [], []
    blanks = ["", "  ", "\t", " \t "]
    for ht in ["", " ", "\t"]:
        for s0 in blanks:
            for s1 in blanks:
                for fin in ["", "\n", "  ", " \n\n"]:
                    for nl in ("\n", "\r\n"):
                        doc = witness(ht, (s0, s1), fin, nl)
                        eff = prep(doc)
                        n_w += 1
                        try:
                            ok, _, out = g.parse(gname, eff)
                        except GrammarError as ex:
                            ok, out = False, str(ex)
                        got = [tuple(x) for x in out] if ok and isinstance(out, list) else out
                        if got != want:
                            (fails_crlf if nl == "\r\n" and not (s0 or s1 or ht.strip(" ") or fin) else fails_blank if nl == "\n" else fails_crlf).append((doc, got))
    run.record("legend_witnesses", n_w)
    if fails_crlf:
        doc, got = fails_crlf[0]
        run.bad("C17.W3", "legend-line-terminator", gfile,
                "legend with CRLF line endings parses differently: %r -> %r (expected the 3 entries); %d witnesses fail" % (doc, got, len(fails_crlf)))
    else:
        run.ok("C17.W3", "CRLF legend witnesses yield the canonical entries", gfile,
               "CR filtered before parsing" if cr_filtered else "grammar accepts CRLF")
    if fails_blank:
        doc, got = fails_blank[0]
        run.bad("C17.W3", "legend-trailing-blanks", gfile,
                "legend with blanks before a line end parses differently: %r -> %r (expected the 3 entries); %d witnesses fail" % (doc, got, len(fails_blank)))
    else:
        run.ok("C17.W3", "trailing-blank legend witnesses yield the canonical entries", gfile, "%d witness documents" % n_w)
    # declarations that span several lines: neither CR nor the blanks before a line end may survive in the css
    def block_doc(b, nl):
        return "# Legend:" + nl + "a = {" + b + nl + " fill:red;" + b + nl + " stroke : blue;" + b + nl + "}" + b + nl + "b = {x:y}" + nl
    try:
        ok0, _, ref = g.parse(gname, prep(block_doc("", "\n")))
        if not ok0 or len(ref) != 2:
            run.bad("C17.W3", "legend-multiline-canonical", gfile, "a legend entry spanning several lines does not parse (%r)" % (ref,))
        else:
            nb = 0
            for b in ("", " ", "   ", "\t", " \t"):
                for nl in ("\n", "\r\n"):
                    nb += 1
                    ok, _, out = g.parse(gname, prep(block_doc(b, nl)))
                    if out != ref:
                        kind = "legend-cr-in-declarations" if nl == "\r\n" and not b else "legend-blanks-in-declarations"
                        run.bad("C17.W3", kind, gfile,
                                "multi-line declarations keep %s: %r gives %r, the clean LF legend gives %r" % (
                                    "CR characters" if kind.endswith("cr-in-declarations") else "the blanks before a line end", block_doc(b, nl), out, ref))
                        break
                else:
                    continue
                break
            else:
                run.ok("C17.W3", "multi-line declarations are the same under LF/CRLF and trailing blanks", gfile, "%d witness documents" % nb)
    except GrammarError as ex:
        run.bad("C17.W3", "grammar-uninterpretable", gfile, "legend grammar not interpretable: %s" % ex)
