"""C20 (HTTP server) — structural clauses on the MIR/syntax of svgbob_server: Y1 the router has exactly
one route, "/", with GET -> hello and POST -> text_to_svgbob, and no layer/fallback/body-limit call
alters the framework defaults (2 MiB limit untouched); Y2 the POST handler returns Ok(unmodified
svgbob::to_svg(&s)) where s is the Ok of the strict String::from_utf8 of the whole body, and
Err(StatusCode::BAD_REQUEST) otherwise; Y3 the GET handler returns `"{} {}"` of the package name and
version constants (env!("CARGO_PKG_NAME"/"CARGO_PKG_VERSION")); Y4 handlers share no state: the crate
has no static, the handlers take no State/Extension and no lock/atomic type occurs in the crate;
library statelessness is C07; Y5 nothing reachable from a handler can exit or abort the process.
Not decided: runtime behaviour of axum/hyper/tokio under concurrency and malformed requests."""
import re

from ..common import find_nodes, short, src_file, where
from ..exprs import expand_combinators, inline_calls, simplify, decode_fmt_template, format_parts, mentions, strip
from ..mirlib import Expr, Program, expr_str, op_const

CR = "svgbob_server::"
ROUTER_OK = re.compile(r"axum::routing::Router::<S, B>::new$|axum::routing::method_routing::get$|MethodRouter::<S, B>::post$|"
                       r"axum::routing::Router::<S, B>::route$|Router::<\(\), B>::into_make_service$|Server::<.*>::bind$|Builder::<I, E>::serve$")
ROUTER_BAD = re.compile(r"::layer$|route_layer|DefaultBodyLimit|::fallback|::nest$|::merge$|with_state|RequestBodyLimit|::route_service$|nest_service")
STATE_TY = re.compile(r"Mutex|RwLock|Atomic|extract::State|Extension<|OnceCell|OnceLock|LazyLock|RefCell|static mut")


def run(run):
    prog = run.prog
    bodies = [p for p in prog.bodies if p.startswith(CR)]
    if not bodies:
        run.missing("C20", "svgbob_server crate")
        return
    mainc = [p for p in bodies if p.startswith(CR + "main::{closure#0}") and p.count("{closure") == 1]
    if len(mainc) != 1:
        run.missing("C20.Y1", "async body of svgbob_server::main")
        return
    mc = mainc[0]
    # helpers main was split into (router(), listen_port() ..) are spliced back into its body
    inl = prog.inline_single_use_helpers(mc, same_file=True, skip=r"::(hello|text_to_svgbob)(::|$)")
    run.record("inlined_helpers", [short(x) for x in inl])
    bodies = [p for p in prog.bodies if p.startswith(CR)]
    ex = Expr(prog, mc)
    # ---------------- Y1 routes
    routes = [(bid, t) for bid, t in prog.calls(mc) if re.search(r"Router::<S, B>::route$", Program.callee_name(t))]
    if len(routes) != 1:
        run.bad("C20.Y1", "route-count", where(prog.bodies[mc]), "the router has %d route(..) calls, expected exactly one" % len(routes))
    else:
        t = routes[0][1]
        path = strip(ex.operand(t["args"][1]))
        mr = strip(ex.operand(t["args"][2]))
        ok_path = path == ("const", "str", "/")
        ok_methods = False
        if mr[0] == "call" and re.search(r"MethodRouter::<S, B>::post$", mr[1]):
            g = strip(mr[2][0])
            h = strip(mr[2][1])
            if g[0] == "call" and re.search(r"method_routing::get$", g[1]):
                gh = strip(g[2][0])
                ok_methods = gh == ("fn", CR + "hello") and h == ("fn", CR + "text_to_svgbob")
        if ok_path and ok_methods:
            run.ok("C20.Y1", 'route "/": GET -> hello, POST -> text_to_svgbob', where(t))
        else:
            run.bad("C20.Y1", "route-table", where(t), "route is `%s` -> `%s`" % (expr_str(path), expr_str(mr)[:120]))
    nax = 0
    for bid, t in prog.calls(mc):
        n = Program.callee_name(t)
        kr = t["callee"].get("resolved_krate") or t["callee"].get("krate") or ""
        if kr in ("axum", "tower", "tower_http", "tower_layer", "hyper", "axum_core"):
            nax += 1
            if ROUTER_BAD.search(n) or (kr in ("axum", "tower", "tower_http", "tower_layer") and not ROUTER_OK.search(n)):
                run.bad("C20.Y1", "router-config/%s" % short(n), where(t), "the server configures `%s`: routing/limits differ from the framework defaults the property relies on" % n)
    run.ok("C20.Y1", "no layer / fallback / body-limit / state call among %d framework calls" % nax, where(prog.bodies[mc]))
    run.floor("C20.Y1", "framework_calls", nax, 5)
    # ---------------- Y2 POST handler
    hc = [p for p in bodies if p == CR + "text_to_svgbob::{closure#0}"]
    hf = CR + "text_to_svgbob"
    if len(hc) != 1 or hf not in prog.bodies:
        run.missing("C20.Y2", "text_to_svgbob")
    else:
        h = hc[0]
        rets = [strip(r) for r in Expr(prog, h).returns()]
        ready = [r for r in rets if r[0] == "agg" and r[2] == "Ready"]
        ok = len(ready) == 1
        detail = ""
        if ok:
            v = strip(simplify(expand_combinators(prog, ready[0][3][0][1])))
            alts = list(v[1]) if v[0] == "phi" else [v]
            oks = [strip(a) for a in alts if strip(a)[0] == "agg" and strip(a)[2] == "Ok"]
            errs = [strip(a) for a in alts if strip(a)[0] == "agg" and strip(a)[2] == "Err"]
            ok = len(oks) == 1 and len(errs) == 1 and len(alts) == 2
            if ok:
                val = strip(oks[0][3][0][1])
                okv = val[0] == "call" and val[1] == "svgbob::to_svg"
                if okv:
                    arg = strip(val[2][0])
                    # from_utf8(to_vec(deref(body))).@Ok.0
                    # both strict validators are accepted: String::from_utf8(body.to_vec()) and str::from_utf8(&body)
                    while arg[0] == "call" and re.search(r"[dD]eref>?::deref$|::as_str$|::as_ref$|::borrow$", arg[1]) and arg[2]:
                        arg = strip(arg[2][0])
                    okv = arg[0] == "field" and "@Ok" in arg[2] and strip(arg[1])[0] == "call" and \
                        strip(arg[1])[1] in ("alloc::string::String::from_utf8", "core::str::converts::from_utf8")
                    if okv:
                        src = strip(strip(arg[1])[2][0])
                        while src[0] == "call" and re.search(r"<impl \[T\]>::to_vec$|[dD]eref>?::deref$|::as_ref$|Vec::<T>::from|::into$|::to_owned$", src[1]) and src[2]:
                            src = strip(src[2][0])
                        okv = src[0] == "param" and src[1] == 1 and not any(f in ("[]",) for f in src[2])
                        if not okv:
                            detail = "the decoded bytes are `%s`, not the whole body" % expr_str(src)[:100]
                    else:
                        detail = "the text is `%s`, not the strict String::from_utf8 of the body" % expr_str(arg)[:100]
                else:
                    detail = "the Ok value is `%s`, not the unmodified svgbob::to_svg(..)" % expr_str(val)[:100]
                ev = strip(errs[0][3][0][1])
                oke = ev[0] == "const" and str(ev[2]).endswith("StatusCode::BAD_REQUEST")
                if not oke:
                    detail += " the Err value is `%s`, not StatusCode::BAD_REQUEST" % expr_str(ev)[:80]
                ok = okv and oke
            else:
                detail = "handler result alternatives: %s" % " | ".join(expr_str(a)[:60] for a in alts)
        if ok:
            run.ok("C20.Y2", "POST: Ok(svgbob::to_svg(&String::from_utf8(body)?)) / Err(400)", where(prog.bodies[h]))
        else:
            run.bad("C20.Y2", "post-handler", where(prog.bodies[h]), "text_to_svgbob: " + (detail or "unexpected shape: %s" % " | ".join(expr_str(r)[:80] for r in rets)))
        # the Ok branch is selected by the discriminant of from_utf8
        sig = prog.bodies[hf].get("sig", "")
        if "bytes::bytes::Bytes" in sig and not re.search(r"extract::State|State<|Extension<", sig) and sig.split(") ->")[0].count(",") == 0:
            run.ok("C20.Y2", "handler takes the raw body (Bytes) only", where(prog.bodies[hf]), sig[:100], nontrivial=False)
        else:
            run.bad("C20.Y2", "post-signature", where(prog.bodies[hf]), "text_to_svgbob signature is `%s`" % sig)
    # ---------------- Y3 GET handler
    f, v = src_file(run, "svgbob_server/src/main.rs")
    consts = {}
    if v is not None:
        for it in v["items"]:
            if it.get("k") == "const" and it["e"].get("k") == "macro" and it["e"]["name"].endswith("env"):
                a = it["e"].get("args") or []
                if a and a[0].get("ty") == "str":
                    consts[it["name"]] = a[0]["v"]
        hello = [it for it in v["items"] if it.get("k") == "fn" and it.get("name") == "hello"]
        ok = False
        # `hello` may delegate to a helper without arguments that builds the text (`fn banner() -> String`)
        for _ in range(2):
            if hello and len(hello[0]["body"]["stmts"]) == 1:
                e0 = hello[0]["body"]["stmts"][0].get("expr") or {}
                if e0.get("k") == "call" and e0["func"].get("k") == "path" and not e0["args"]:
                    tgt = [it for it in v["items"] if it.get("k") == "fn" and it.get("name") == e0["func"]["path"].split("::")[-1] and not it["sig"]["inputs"]]
                    if len(tgt) == 1:
                        hello = tgt
                        continue
            break
        if hello:
            fm = find_nodes(hello[0]["body"], lambda n: n.get("k") == "macro" and n["name"].endswith("format") and "args" in n)
            if len(fm) == 1:
                a = fm[0]["args"]
                if len(a) == 3 and a[0].get("v") == "{} {}" and a[1].get("k") == "path" and a[2].get("k") == "path":
                    ok = consts.get(a[1]["path"]) == "CARGO_PKG_NAME" and consts.get(a[2]["path"]) == "CARGO_PKG_VERSION"
            stm = hello[0]["body"]["stmts"]
            ok = ok and len(stm) == 1
        if ok:
            run.ok("C20.Y3", 'GET: format!("{} {}", package name, package version)', "%s:%d" % (f, hello[0]["pos"][0]))
        else:
            run.bad("C20.Y3", "get-handler", f, "hello() is not `format!(\"{} {}\", <CARGO_PKG_NAME>, <CARGO_PKG_VERSION>)` (constants: %r)" % consts)
    else:
        run.missing("C20.Y3", "svgbob_server/src/main.rs")
    # ---------------- Y4 no shared state
    st = [s for s, d in prog.statics.items() if d["crate"] == "svgbob_server"]
    if st:
        run.bad("C20.Y4", "server-static/%s" % short(st[0]), where(prog.statics[st[0]]), "the server crate has a static (%s): requests could share state" % st[0])
    else:
        run.ok("C20.Y4", "no static in the server crate", f, nontrivial=False)
    bad_ty = None
    for p in bodies:
        for l in prog.bodies[p]["locals"]:
            if STATE_TY.search(l["ty"]) and "tokio::runtime" not in l["ty"] and "hyper::" not in l["ty"] and "axum::routing" not in l["ty"]:
                bad_ty = (p, l["ty"])
    if bad_ty:
        run.bad("C20.Y4", "server-shared-state/%s" % short(bad_ty[0]), where(prog.bodies[bad_ty[0]]), "%s uses %s: handlers may share mutable state" % bad_ty)
    else:
        run.ok("C20.Y4", "no lock / atomic / State / Extension type in the server crate (%d bodies)" % len(bodies), f)
    y5(run)
    run.assume("axum 0.6 default request body limit (2 MiB) applies to the Bytes extractor when no layer changes it")
    run.assume("a panic inside a handler is confined to its tokio task (framework behaviour, not decided)")


def y5(run):
    # ---------------- Y5 no exit/abort from handlers
    prog = run.prog
    bodies = [p for p in prog.bodies if p.startswith(CR)]
    f = "crates/svgbob_server/src/main.rs"
    roots = [p for p in bodies if p.startswith(CR + "hello") or p.startswith(CR + "text_to_svgbob")]
    reach = prog.reachable(roots)
    n = 0
    for p in sorted(reach):
        if p not in prog.bodies:
            continue
        for bid, t in prog.calls(p):
            n += 1
            nm = Program.callee_name(t)
            if re.search(r"^std::process::(exit|abort)$|^core::intrinsics::abort$|^std::process::Child|^libc::", nm):
                run.bad("C20.Y5", "handler-exits/%s" % short(p), where(t), "%s calls %s: a request can stop the server (reached via %s)" % (
                    p, nm, " -> ".join(short(x) for x in prog.path_to(p)[-4:])))
    run.ok("C20.Y5", "no process::exit/abort among %d call sites reachable from the handlers" % n, f)
    if run.repo == "/repo" or "fixtures" not in run.repo:
        run.floor("C20.Y5", "reachable_call_sites", n, 2000)


run_flow = run
fixture = y5
FIXTURE_EXPECT = ["handler-exits/"]
