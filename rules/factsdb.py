"""Fact extraction and caching: runs the mirfacts driver and the srcfacts extractor on the
repository's *current working tree* and caches the result under /verif/.work keyed by a hash of
the tree, so that every check rebuilds from what is on disk right now."""
import fcntl
import glob
import hashlib
import json
import os
import shutil
import subprocess
import sys
import time

VERIF = os.path.dirname(os.path.dirname(os.path.abspath(__file__)))
REPO = os.environ.get("VERIF_REPO", "/repo")
WORK = os.environ.get("VERIF_WORK", os.path.join(VERIF, ".work"))
MIRFACTS = os.path.join(VERIF, "tools/mirfacts/target/debug/mirfacts")
SRCFACTS = os.path.join(VERIF, "tools/srcfacts/target/debug/srcfacts")

CONFIGS = {
    # name -> extra rustflags
    "debug": "-Zmir-opt-level=0 --cap-lints=allow",
    "release": "-Zmir-opt-level=0 --cap-lints=allow -C debug-assertions=off -C overflow-checks=off",
}


class NoVerdict(Exception):
    """the tree under analysis cannot be analysed (does not compile, tool missing)"""


def repo_files(repo=None):
    repo = repo or REPO
    out = []
    for top in ("Cargo.toml", "Cargo.lock"):
        p = os.path.join(repo, top)
        if os.path.exists(p):
            out.append(top)
    for root, dirs, files in os.walk(os.path.join(repo, "crates")):
        dirs[:] = sorted(d for d in dirs if d not in ("target", ".git"))
        for f in sorted(files):
            full = os.path.join(root, f)
            out.append(os.path.relpath(full, repo))
    return sorted(out)


def tree_hash(repo=None):
    repo = repo or REPO
    h = hashlib.sha256()
    for rel in repo_files(repo):
        if not (rel.endswith(".rs") or rel.endswith(".toml") or rel.endswith(".lock")):
            continue
        h.update(rel.encode())
        h.update(b"\0")
        with open(os.path.join(repo, rel), "rb") as fh:
            h.update(fh.read())
        h.update(b"\0")
    # the tools are part of the key: new tool => new facts
    for tool in (MIRFACTS, SRCFACTS):
        try:
            st = os.stat(tool)
            h.update(("%s:%d:%d" % (tool, st.st_size, int(st.st_mtime))).encode())
        except OSError:
            h.update(b"missing")
    return h.hexdigest()[:20]


def _sysroot():
    r = subprocess.run(["rustc", "+nightly", "--print", "sysroot"], capture_output=True, text=True)
    if r.returncode != 0:
        raise NoVerdict("nightly toolchain not available: " + r.stderr.strip())
    return r.stdout.strip()


def build_tools():
    """build the two extractors if missing (setup_cmd does this ahead of time)"""
    env = dict(os.environ, CARGO_NET_OFFLINE="true")
    if not os.path.exists(MIRFACTS):
        r = subprocess.run(["cargo", "build", "--offline"], cwd=os.path.join(VERIF, "tools/mirfacts"),
                           env=env, capture_output=True, text=True)
        if r.returncode != 0:
            raise NoVerdict("cannot build mirfacts: " + r.stderr[-2000:])
    if not os.path.exists(SRCFACTS):
        r = subprocess.run(["cargo", "build", "--offline"], cwd=os.path.join(VERIF, "tools/srcfacts"),
                           env=env, capture_output=True, text=True)
        if r.returncode != 0:
            raise NoVerdict("cannot build srcfacts: " + r.stderr[-2000:])


def _extract(repo, config, outdir):
    os.makedirs(outdir, exist_ok=True)
    target = os.path.join(WORK, "target-" + config)
    os.makedirs(target, exist_ok=True)
    # cargo's freshness cache would skip the wrapper: drop the members' fingerprints
    for fp in glob.glob(os.path.join(target, "debug/.fingerprint/svgbob*")):
        shutil.rmtree(fp, ignore_errors=True)
    env = dict(os.environ)
    env.update({
        "LD_LIBRARY_PATH": _sysroot() + "/lib",
        "RUSTFLAGS": CONFIGS[config],
        "RUSTC_WORKSPACE_WRAPPER": MIRFACTS,
        "CARGO_TARGET_DIR": target,
        "MIRFACTS_OUT": outdir,
        "CARGO_NET_OFFLINE": "true",
        "CARGO_TERM_COLOR": "never",
    })
    env.pop("RUSTC_WRAPPER", None)
    r = subprocess.run(["cargo", "+nightly", "check", "--offline", "--workspace", "--locked"],
                       cwd=repo, env=env, capture_output=True, text=True)
    if r.returncode != 0 and "--locked" in r.stderr:
        r = subprocess.run(["cargo", "+nightly", "check", "--offline", "--workspace"],
                           cwd=repo, env=env, capture_output=True, text=True)
    if r.returncode != 0:
        lines = [l for l in r.stderr.splitlines() if l.startswith("error")]
        raise NoVerdict("cargo check failed on the tree under analysis: " + (lines[0] if lines else r.stderr[-800:]))
    want = ["svgbob.rlib.mir.json", "svgbob_cli.executable.mir.json", "svgbob_server.executable.mir.json"]
    for w in want:
        if not os.path.exists(os.path.join(outdir, w)):
            raise NoVerdict("fact file %s was not produced (driver skipped?)" % w)


def _extract_src(repo, outdir):
    files = [f for f in repo_files(repo) if f.endswith(".rs")]
    out = os.path.join(outdir, "src.json")
    r = subprocess.run([SRCFACTS, out, repo] + files, capture_output=True, text=True)
    if r.returncode != 0:
        raise NoVerdict("srcfacts failed: " + r.stderr.strip()[-500:])


def ensure(config="debug", repo=None):
    """returns (facts_dir, tree_hash); extracts if the cache has no facts for the current tree"""
    repo = repo or REPO
    os.makedirs(WORK, exist_ok=True)
    build_tools()
    lock = open(os.path.join(WORK, "lock"), "w")
    fcntl.flock(lock, fcntl.LOCK_EX)
    try:
        th = tree_hash(repo)
        outdir = os.path.join(WORK, "facts", th, config)
        marker = os.path.join(outdir, "OK")
        if not os.path.exists(marker):
            if os.path.isdir(outdir):
                shutil.rmtree(outdir)
            t0 = time.time()
            _extract(repo, config, outdir)
            _extract_src(repo, outdir)
            if tree_hash(repo) != th:
                raise NoVerdict("tree changed during fact extraction")
            with open(marker, "w") as fh:
                fh.write(json.dumps({"tree_hash": th, "config": config, "wall_s": time.time() - t0}))
            _gc(os.path.join(WORK, "facts"), keep=th)
        return outdir, th
    finally:
        fcntl.flock(lock, fcntl.LOCK_UN)
        lock.close()


def _gc(root, keep, max_keep=6):
    try:
        ents = [(os.path.getmtime(os.path.join(root, d)), d) for d in os.listdir(root) if d != keep]
    except OSError:
        return
    ents.sort(reverse=True)
    for _, d in ents[max_keep:]:
        shutil.rmtree(os.path.join(root, d), ignore_errors=True)


def load(config="debug", repo=None):
    d, th = ensure(config, repo)
    crates = {}
    for name, fn in (("svgbob", "svgbob.rlib.mir.json"), ("svgbob_cli", "svgbob_cli.executable.mir.json"),
                     ("svgbob_server", "svgbob_server.executable.mir.json")):
        with open(os.path.join(d, fn)) as fh:
            crates[name] = json.load(fh)
    with open(os.path.join(d, "src.json")) as fh:
        src = json.load(fh)
    return crates, src, th


if __name__ == "__main__":
    try:
        d, th = ensure(sys.argv[1] if len(sys.argv) > 1 else "debug")
        print(d, th)
    except NoVerdict as e:
        print("NO-VERDICT", e)
        sys.exit(2)
