"""Conformance of the table evaluator's models with the code: the three predicate families
(`is`, `line_*overlap`, `arcs_to`), the signal order, the fragment constructors, the end-point
normalisation of Line/Arc and the Point order are re-derived from MIR / syntax on every run.  If the
code's shape changes, TAE-based checks fail closed instead of reasoning with a stale model."""
import re

from .common import src_fn, where
from .exprs import bool_function, closure_of, is_const, is_param, mentions, strip
from .mirlib import Expr, Program, expr_str


def _one(prog, suffix):
    ps = [p for p in prog.bodies if p.endswith(suffix) and "{closure" not in p.replace(suffix, "")]
    return ps[0] if len(ps) == 1 else None


def _rets(prog, p):
    return [strip(r) for r in Expr(prog, p).returns()]


def check(run, rule):
    prog = run.prog
    ok_all = True

    def good(name, p, note=""):
        run.ok(rule, "model conformance: " + name, where(prog.bodies[p]) if p else None, note, nontrivial=True)

    def bad(name, p, msg):
        nonlocal ok_all
        ok_all = False
        run.bad(rule, "model-mismatch/%s" % name, where(prog.bodies[p]) if p in prog.bodies else None,
                "the table evaluator's model of %s no longer matches the code: %s" % (name, msg))

    PB = "property_buffer::property::Property::"

    def exists_loop(p, inner_suffix, with_filter):
        """`for (signal, frags) in self.signature.iter() { [if *signal >= required {] for f in frags.iter() { if f.<inner>(a, b)
        { return true } } [}] } false` — the loop spelling of `signature.iter()[.filter(..)].any(|..| frags.iter().any(..))`.
        Decided on the CFG: the exact set of branches (two loop headers, the inner predicate, the optional signal filter),
        what each of the two result assignments and each loop/predicate block is directly control dependent on, and the
        operands of the predicate and the filter.  Returns None when it is that function, else the reason."""
        from .common import guards
        b = prog.bodies[p]
        ex = Expr(prog, p)
        is_next = lambda z: z[0] == "call" and z[1].endswith("Iterator>::next")
        sw = {"loop": [], "inner": [], "filter": [], "other": []}
        for bid, blk in enumerate(b["blocks"]):
            t = blk["term"]
            if t["k"] != "switch":
                continue
            e = strip(ex.operand(t["on"]))
            if e[0] == "discr" and is_next(strip(e[1])):
                sw["loop"].append((bid, e))
            elif e[0] == "call" and e[1].endswith(inner_suffix):
                sw["inner"].append((bid, e))
            elif e[0] == "call" and re.search(r"PartialOrd(<.*>)?>?::ge$", e[1]):
                sw["filter"].append((bid, e))
            else:
                sw["other"].append((bid, e))
        if len(sw["loop"]) != 2 or len(sw["inner"]) != 1 or len(sw["filter"]) != (1 if with_filter else 0) or sw["other"]:
            return "branches: %d loop headers, %d `%s` tests, %d signal filters, %d others" % (len(sw["loop"]), len(sw["inner"]), inner_suffix, len(sw["filter"]), len(sw["other"]))
        # which header is the outer one: its iterator does not mention another `next`
        def src_of(e):
            return strip(strip(e[1])[2][0])
        outer = [x for x in sw["loop"] if mentions(src_of(x[1]), lambda z: z[0] == "param" and z[1] == 1 and z[2] == ("signature",)) and
                 not mentions(src_of(x[1]), lambda z: z[0] == "field" and "@Some" in z[2])]
        inner = [x for x in sw["loop"] if x not in outer]
        if len(outer) != 1 or len(inner) != 1:
            return "the outer loop does not iterate self.signature"
        isrc = src_of(inner[0][1])
        if not mentions(isrc, lambda z: z[0] == "field" and z[2][-3:] == ("@Some", "0", "1") and is_next(strip(z[1]))):
            return "the inner loop does not iterate the fragments (`.1`) of the outer item"
        ic = sw["inner"][0][1]
        a0 = strip(ic[2][0])
        if not (a0[0] == "field" and a0[2] == ("@Some", "0") and is_next(strip(a0[1])) and mentions(a0, lambda z: z[0] == "field" and z[2][-3:] == ("@Some", "0", "1"))) or \
                [strip(x) for x in ic[2][1:]] != [("param", 2, ()), ("param", 3, ())]:
            return "the predicate is not `<inner item>.%s(a, b)`" % inner_suffix.split("::")[-1]
        if with_filter:
            fc = sw["filter"][0][1]
            f0, f1 = strip(fc[2][0]), strip(fc[2][1])
            if not (f0[0] == "field" and f0[2] == ("@Some", "0", "0") and is_next(strip(f0[1])) and f1 == ("param", 4, ())):
                return "the filter is not `<outer item>.0 >= required_signal`"
        # result assignments
        res = []
        for bid, blk in enumerate(b["blocks"]):
            for st in blk["stmts"]:
                if st.get("dst", {}).get("l") == 0 and not st["dst"].get("p"):
                    c = (st.get("rv", {}).get("ops") or [{}])[0].get("const") if st.get("rv", {}).get("k") == "use" else None
                    res.append((bid, None if c is None else c.get("int")))
        if sorted(v for _, v in res if v is not None) != [0, 1] or len(res) != 2:
            return "the result is not assigned exactly once `true` and once `false`"
        def deps(bid):
            return sorted((t_["on"].get("move", t_["on"].get("copy", {})).get("l"), tk if isinstance(tk, int) else "else") for g, tk, t_ in guards(prog, p, bid, direct=True))
        def sel(swblk, truth):
            t_ = b["blocks"][swblk]["term"]
            l = t_["on"].get("move", t_["on"].get("copy", {})).get("l")
            if truth == "some":
                return [(l, 1)]
            if truth == "none":
                return [(l, 0)]
            # bool switch: values [0] -> false edge, otherwise true
            return [(l, "else")] if truth else [(l, 0)]
        tb = [bid for bid, v in res if v == 1][0]
        fb = [bid for bid, v in res if v == 0][0]
        call_block = lambda e: e[3] if len(e) > 3 else None
        want = [(tb, sel(sw["inner"][0][0], True), "`true` is returned exactly when the predicate holds"),
                (fb, sel(outer[0][0], "none"), "`false` is returned exactly when the outer loop is exhausted"),
                (call_block(ic), sel(inner[0][0], "some"), "the predicate is evaluated for every inner item")]
        if with_filter:
            want.append((call_block(sw["filter"][0][1]), sel(outer[0][0], "some"), "the filter is evaluated for every outer item"))
        for bid, expect, what in want:
            if bid is None or deps(bid) != expect:
                return "%s: not established (block %s depends on %s)" % (what, bid, deps(bid) if bid is not None else "?")
        # the inner loop is entered exactly under the filter (or for every outer item)
        hb = call_block(strip(inner[0][1][1]))
        entry = [d for d in deps(hb) if d not in sel(sw["inner"][0][0], False)]
        expect = sel(sw["filter"][0][0], True) if with_filter else sel(outer[0][0], "some")
        if entry != expect:
            return "the inner loop is not entered for exactly the %s outer items (depends on %s)" % ("filtered" if with_filter else "all", entry)
        return None
    # line_overlap family -> line_overlap_with_signal(.., Signal::X)
    for fn, sig in (("line_overlap", "Medium"), ("line_strongly_overlap", "Strong"), ("line_weakly_overlap", "Weak")):
        p = _one(prog, PB + fn)
        if not p:
            bad(fn, None, "function not found")
            continue
        r = _rets(prog, p)
        ok = len(r) == 1 and r[0][0] == "call" and r[0][1].endswith(PB + "line_overlap_with_signal") and \
            [strip(x) for x in r[0][2][:3]] == [("param", 1, ()), ("param", 2, ()), ("param", 3, ())] and \
            strip(r[0][2][3])[0] == "agg" and strip(r[0][2][3])[2] == sig
        good(fn + " = line_overlap_with_signal(a, b, %s)" % sig, p) if ok else bad(fn, p, "is `%s`" % (expr_str(r[0]) if r else "?"))
    p = _one(prog, PB + "line_overlap_with_signal")
    if not p:
        bad("line_overlap_with_signal", None, "function not found")
    else:
        cls = prog.closures_of(p)
        r = _rets(prog, p)
        e = r[0] if r else ("unknown",)
        shape = e[0] == "call" and e[1].endswith("Iterator::any") and mentions(e, lambda z: z[0] == "call" and z[1].endswith("Iterator::filter")) and \
            mentions(e, lambda z: z[0] == "param" and z[1] == 1 and z[2] == ("signature",))
        filt = None
        inner = None
        for c in cls:
            rr = _rets(prog, c)
            if len(rr) == 1 and rr[0][0] == "call" and rr[0][1].endswith("PartialOrd::ge"):
                a, b = strip(rr[0][2][0]), strip(rr[0][2][1])
                # ge(element.0 (signal), captured required)
                filt = a[0] == "param" and a[1] == 2 and b[0] == "param" and b[1] == 1
            if len(rr) == 1 and rr[0][0] == "call" and rr[0][1].endswith("Fragment::line_overlap"):
                inner = True
        why = None
        if not (shape and filt and inner):
            why = exists_loop(p, "Fragment::line_overlap", True)
        if shape and filt and inner:
            good("line_overlap_with_signal = signature.filter(signal >= required).any(frags.any(line_overlap))", p)
        elif why is None:
            good("line_overlap_with_signal = signature.filter(signal >= required).any(frags.any(line_overlap))", p, "loop form")
        else:
            bad("line_overlap_with_signal", p, "shape=%s filter(signal>=required)=%s inner(Fragment::line_overlap)=%s; as a loop: %s" % (shape, filt, inner, why))
    # signal order
    it = None
    for sfx in ("svgbob/src/buffer/property_buffer/property.rs",):
        it = src_fn(run, sfx, "intensity", impl_self="Signal")
    if it is None:
        bad("Signal::intensity", None, "function not found")
    else:
        vals = {}
        st = it["body"]["stmts"]
        m = st[0]["expr"] if st and st[0]["k"] == "expr_stmt" else {}
        for arm in m.get("arms", []):
            n = (arm["pat"].get("path") or "").split("::")[-1]
            if arm["body"].get("ty") == "int":
                vals[n] = int(arm["body"]["v"])
        if all(k in vals for k in ("Faint", "Weak", "Medium", "Strong")) and vals["Faint"] < vals["Weak"] < vals["Medium"] < vals["Strong"]:
            good("Signal order Faint < Weak < Medium < Strong", None, repr(vals))
        else:
            bad("Signal::intensity", None, "order is %r" % vals)
    p = [q for q in prog.bodies if q.endswith("Signal as core::cmp::PartialOrd>::partial_cmp")]
    if len(p) == 1:
        r = _rets(prog, p[0])
        ok = len(r) == 1 and mentions(r[0], lambda z: z[0] == "call" and z[1].endswith("Signal::intensity") and strip(z[2][0]) == ("param", 1, ())) and \
            mentions(r[0], lambda z: z[0] == "call" and "Ord for u8>::cmp" in z[1] and strip(strip(z[2][0])[2][0]) == ("param", 1, ()))
        good("Signal comparison = intensity(self).cmp(intensity(other))", p[0]) if ok else bad("Signal::partial_cmp", p[0], expr_str(r[0]) if r else "?")
    else:
        bad("Signal::partial_cmp", None, "impl not found")
    # Fragment::line_overlap: only Line
    p = _one(prog, "fragment::Fragment::line_overlap")
    if p:
        r = _rets(prog, p)
        calls = [x for x in r if x[0] == "call"]
        consts = [x for x in r if x[0] == "const"]
        ok = len(calls) == 1 and calls[0][1].endswith("line::Line::overlaps") and "@Line" in strip(calls[0][2][0])[2] and \
            all(is_const(c, 0) for c in consts) and len(calls) + len(consts) == len(r)
        good("Fragment::line_overlap = Line::overlaps for lines, false otherwise", p) if ok else bad("Fragment::line_overlap", p, " | ".join(expr_str(x) for x in r))
    else:
        bad("Fragment::line_overlap", None, "function not found")
    p = _one(prog, "line::Line::overlaps")
    if p:
        # decided as a boolean function of the two point tests (helpers in between are inlined): overlaps = on(a) && on(b)
        def on_segment(c):
            if c[0] == "call" and c[1].endswith("PointQuery::contains_point") and len(c[2]) == 3:
                seg, iso, pt = (strip(x) for x in c[2])
                seg_ok = seg[0] == "call" and seg[1].endswith("Segment::new") and \
                    mentions(seg[2][0], lambda z: z[0] == "param" and z[1] == 1 and z[2][:1] == ("start",)) and not mentions(seg[2][0], lambda z: z[0] == "param" and z[2][:1] != ("start",)) and \
                    mentions(seg[2][1], lambda z: z[0] == "param" and z[1] == 1 and z[2][:1] == ("end",)) and not mentions(seg[2][1], lambda z: z[0] == "param" and z[2][:1] != ("end",))
                iso_ok = iso[0] == "call" and iso[1].endswith("::identity")
                if seg_ok and iso_ok and pt[0] == "param" and pt[1] in (2, 3) and tuple(f for f in pt[2] if f != "0") == ():
                    return "on_%s" % ("a" if pt[1] == 2 else "b")
            return None
        atoms, table = bool_function(prog, p, on_segment)
        if atoms is None:
            bad("Line::overlaps", p, table)
        elif atoms == ["on_a", "on_b"] and all(v == (k[0] and k[1]) for k, v in table.items()):
            good("Line::overlaps = segment(start,end) contains a and b", p)
        else:
            bad("Line::overlaps", p, "as a function of %s it is %s, expected on_a && on_b" % (atoms, {k: v for k, v in sorted(table.items())}))
    else:
        bad("Line::overlaps", None, "function not found")
    # is
    p = _one(prog, PB + "is")
    if p:
        r = _rets(prog, p)
        ok = len(r) == 1 and r[0][0] == "bin" and r[0][1] == "Eq" and {str(strip(r[0][2])), str(strip(r[0][3]))} == {str(("param", 1, ("ch",))), str(("param", 2, ()))}
        good("Property::is = (self.ch == ch)", p) if ok else bad("Property::is", p, expr_str(r[0]) if r else "?")
    else:
        bad("Property::is", None, "function not found")
    # arcs_to chain
    p = _one(prog, "arc::Arc::arcs_to")
    if p:
        b = prog.bodies[p]
        ex = Expr(prog, p)
        news = [t for _, t in prog.calls(p) if Program.callee_name(t).endswith("arc::Arc::new")]
        eqs = [t for _, t in prog.calls(p) if re.search(r"PartialEq>::eq$", Program.callee_name(t))]
        r = _rets(prog, p)
        sweep = any(x[0] == "bin" and x[1] == "Eq" and mentions(x, lambda z: z[0] == "param" and "sweep_flag" in z[2]) for x in r)
        ok = len(news) == 1 and [strip(ex.operand(a)) for a in news[0]["args"][:2]] == [("param", 2, ()), ("param", 3, ())] and len(eqs) == 2 and sweep
        if not ok and not news:
            # the normalisation written out instead of calling Arc::new: on the path where a > b the arc is compared with
            # (b, a, sweep = true), otherwise with (a, b, sweep = false); decided path by path on the true-returning paths
            from .mirlib import paths as _paths
            ps = _paths(prog, p) or []
            A, B = ("param", 2, ()), ("param", 3, ())
            seen_cases = set()
            okp = bool(ps)
            for conds, ret in ps:
                gtv, want = None, {}
                bad_path = False
                for c, tk in conds + [(ret, None)]:
                    c = strip(c)
                    truth = None if tk is None else ((tk != 0) if not isinstance(tk, tuple) else (0 in tk[1]))
                    if c[0] == "call" and re.search(r"PartialOrd(<.*>)?>?::gt$", c[1]) and [strip(x) for x in c[2]] == [A, B]:
                        gtv = truth
                    elif c[0] == "call" and re.search(r"PartialEq>::eq$", c[1]) and strip(c[2][0])[0] == "param" and strip(c[2][0])[1] == 1 and strip(c[2][0])[2] in (("start",), ("end",)):
                        if truth in (True, None):
                            want[strip(c[2][0])[2][0]] = strip(c[2][1])
                    elif c[0] == "bin" and c[1] == "Eq" and mentions(c, lambda z: z[0] == "param" and z[1] == 1 and z[2] == ("sweep_flag",)):
                        other = strip(c[3]) if mentions(c[2], lambda z: z[0] == "param" and z[2] == ("sweep_flag",)) else strip(c[2])
                        if truth in (True, None):
                            want["sweep"] = other
                    elif c[0] == "const":
                        continue
                    else:
                        bad_path = True
                r_ = strip(ret)
                returns_false = r_[0] == "const" and r_[2] in (0, False)
                if bad_path or gtv is None:
                    okp = False
                    break
                if returns_false:
                    continue
                exp = {"start": B, "end": A} if gtv else {"start": A, "end": B}
                sw = want.get("sweep")
                if want.get("start") != exp["start"] or want.get("end") != exp["end"] or not (sw is not None and sw[0] == "const" and int(bool(sw[2])) == int(gtv)):
                    okp = False
                    break
                seen_cases.add(gtv)
            ok = okp and seen_cases == {True, False}
        good("Arc::arcs_to = same normalised end points and sweep as Arc::new(a, b, _)", p) if ok else bad("Arc::arcs_to", p, "new=%d eq=%d sweep=%s" % (len(news), len(eqs), sweep))
    else:
        bad("Arc::arcs_to", None, "function not found")
    p = _one(prog, "fragment::Fragment::arcs_to")
    if p:
        r = _rets(prog, p)
        calls = [x for x in r if x[0] == "call"]
        ok = len(calls) == 1 and calls[0][1].endswith("arc::Arc::arcs_to") and all(is_const(x, 0) for x in r if x[0] != "call")
        good("Fragment::arcs_to = Arc::arcs_to for arcs, false otherwise", p) if ok else bad("Fragment::arcs_to", p, " | ".join(expr_str(x) for x in r))
    else:
        bad("Fragment::arcs_to", None, "function not found")
    p = _one(prog, PB + "arcs_to")
    if p:
        r = _rets(prog, p)
        e = r[0] if len(r) == 1 else ("unknown",)
        inner = [c for c in prog.closures_of(p) if len(_rets(prog, c)) == 1 and _rets(prog, c)[0][0] == "call" and _rets(prog, c)[0][1].endswith("Fragment::arcs_to")]
        shape = e[0] == "call" and re.search(r"Iterator>?::any$", e[1]) and not mentions(e, lambda z: z[0] == "call" and re.search(r"Iterator>?::(filter|skip|take|step_by|skip_while|take_while)\b", z[1])) and \
            mentions(e, lambda z: z[0] == "param" and z[1] == 1 and z[2] == ("signature",)) and len(inner) == 1
        why = None if shape else exists_loop(p, "Fragment::arcs_to", False)
        good("Property::arcs_to = signature.any(frags.any(arcs_to)), every signal", p, "" if shape else "loop form") if why is None else \
            bad("Property::arcs_to", p, "not `signature.iter().any(|(_, frags)| frags.iter().any(|f| f.arcs_to(a, b)))`; as a loop: %s" % why)
    else:
        bad("Property::arcs_to", None, "function not found")
    # Property::empty
    p = _one(prog, PB + "empty")
    if p:
        r = _rets(prog, p)
        vals = dict(r[0][3]) if r and r[0][0] == "agg" else {}
        ok = is_const(vals.get("ch", ("unknown",)), 32) and strip(vals.get("signature", ("unknown",)))[0] == "call" and strip(vals["signature"])[1].endswith("Vec::<T>::new")
        good("Property::empty = (' ', no signature)", p) if ok else bad("Property::empty", p, expr_str(r[0])[:120] if r else "?")
    else:
        bad("Property::empty", None, "function not found")
    # Property::fragments folds every passed entry
    p = _one(prog, PB + "fragments")
    if p:
        cl = prog.closures_of(p)
        okc = False
        for c in cl:
            calls = [(bid, t) for bid, t in prog.calls(c) if Program.callee_name(t).endswith("Extend<T>>::extend")]
            if len(calls) == 1:
                from .common import guards
                gs = guards(prog, c, calls[0][0])
                okc = any(strip(g)[0] == "param" and tk != 0 for g, tk, sw in gs)
        if not okc:
            # the same written as a loop: `for (passed, fragments) in bool_fragments { if passed { out.extend(fragments) } }`:
            # an extend in the function itself whose only non-loop guard is the first component of the iterated item
            from .common import guards
            pex = Expr(prog, p)
            calls = [(bid, t) for bid, t in prog.calls(p) if re.search(r"Extend<.*>>::extend$|::extend_from_slice$", Program.callee_name(t))]
            for bid, t in calls:
                val = strip(pex.operand(t["args"][1]))
                item = val[0] == "field" and tuple(f for f in val[2] if str(f).isdigit())[-1:] == ("1",) and mentions(val, lambda z: z[0] == "call" and z[1].endswith("Iterator>::next"))
                gs = [(strip(g), tk) for g, tk, sw in guards(prog, p, bid)]
                non_loop = [(g, tk) for g, tk in gs if not (g[0] == "discr" and mentions(g, lambda z: z[0] == "call" and z[1].endswith("Iterator>::next")))]
                flag = len(non_loop) == 1 and non_loop[0][1] != 0 and non_loop[0][0][0] == "field" and \
                    tuple(f for f in non_loop[0][0][2] if str(f).isdigit())[-1:] == ("0",) and mentions(non_loop[0][0], lambda z: z[0] == "call" and z[1].endswith("Iterator>::next"))
                if item and flag:
                    okc = True
        if not okc:
            # `bool_fragments.into_iter().filter(|(passed, _)| *passed).flat_map(|(_, fragments)| fragments).collect()`
            for r in _rets(prog, p):
                if r[0] == "call" and re.search(r"Iterator::collect$", r[1]) and r[2]:
                    fm_ = strip(r[2][0])
                    if fm_[0] == "call" and re.search(r"Iterator::flat_map$", fm_[1]) and len(fm_[2]) == 2:
                        fl_ = strip(fm_[2][0])
                        c2, _ = closure_of(strip(fm_[2][1]))
                        if fl_[0] == "call" and re.search(r"Iterator::filter$", fl_[1]) and len(fl_[2]) == 2 and c2 in prog.bodies:
                            c1, _ = closure_of(strip(fl_[2][1]))
                            src_ = strip(fl_[2][0])
                            plain_src = src_[0] == "call" and re.search(r"into_iter$|::iter$", src_[1]) and not mentions(src_, lambda z: z[0] == "call" and re.search(r"Iterator::(filter|skip|take|rev|step_by)$", z[1]))
                            r1 = _rets(prog, c1) if c1 in prog.bodies else []
                            r2 = _rets(prog, c2)
                            keeps_flag = len(r1) == 1 and r1[0][0] == "param" and r1[0][1] == 2 and tuple(f for f in r1[0][2] if str(f).isdigit())[-1:] == ("0",)
                            yields_frags = len(r2) == 1 and r2[0][0] == "param" and r2[0][1] == 2 and tuple(f for f in r2[0][2] if str(f).isdigit())[-1:] == ("1",)
                            if plain_src and keeps_flag and yields_frags:
                                okc = True
        good("Property::fragments = concatenation of the entries whose condition holds", p) if okc else bad("Property::fragments", p, "fold closure is not `if passed { acc.extend(fragments) }`")
    else:
        bad("Property::fragments", None, "function not found")
    # constructors
    for fn, variant, callee, extra in (("line", "Line", "line::Line::new", 0), ("broken_line", "Line", "line::Line::new", 1),
                                       ("arc", "Arc", "arc::Arc::new", None), ("circle", "Circle", "circle::Circle::new", None),
                                       ("polygon", "Polygon", "polygon::Polygon::new", None), ("rect", "Rect", "rect::Rect::new", None)):
        p = _one(prog, "fragment_buffer::fragment::" + fn)
        if not p:
            bad("fragment::" + fn, None, "function not found")
            continue
        r = _rets(prog, p)
        e = r[0] if len(r) == 1 else ("unknown",)
        ok = e[0] == "agg" and e[2] == variant and len(e[3]) == 1
        if ok:
            c = strip(e[3][0][1])
            ok = c[0] == "call" and c[1].endswith(callee) and [strip(a) for a in c[2][:2]] == [("param", 1, ()), ("param", 2, ())]
            if ok and extra is not None:
                ok = is_const(c[2][2], extra)
            if ok and extra is None and len(c[2]) > 2:
                ok = [strip(a) for a in c[2][2:]] == [("param", i, ()) for i in range(3, len(c[2]) + 1)]
        good("fragment::%s = Fragment::%s(%s(args..))" % (fn, variant, callee.split("::")[-2] + "::new"), p) if ok else bad("fragment::" + fn, p, expr_str(e)[:120])
    # Line::new / Arc::new normalise end points
    for ty, fn in (("line::Line", "sort_reorder_end_points"), ("arc::Arc", "sort_reorder_end_points")):
        p = _one(prog, ty + "::new")
        s = _one(prog, ty + "::" + fn)
        if not p or not s:
            bad(ty + "::new", None, "function not found")
            continue
        # directly or through other constructors of the same type (`new` -> `new_with_sweep`): on every path to the
        # return the normalisation is called (the call's block dominates the return block of its function)
        def normalises(q, seen=()):
            g = prog.cfg(q)
            rets = [i for i, blk in enumerate(prog.bodies[q]["blocks"]) if blk["term"]["k"] == "return"]
            for bid, t in prog.calls(q):
                n = Program.callee_name(t)
                if not all(g.dominates(bid, r) for r in rets):
                    continue
                if n == s:
                    return True
                if n.startswith(prog.bodies[q]["path"].rsplit("::", 1)[0] + "::") and n in prog.bodies and n not in seen and len(seen) < 3 and normalises(n, seen + (q,)):
                    return True
            return False
        ok = normalises(p)
        gt = [t for _, t in prog.calls(s) if re.search(r"PartialOrd>::gt$|PartialOrd::gt$", Program.callee_name(t))]
        ex = Expr(prog, s)
        hasf = lambda e, f: mentions(e, lambda z: z[0] in ("param", "field") and f in z[2])
        okgt = len(gt) == 1 and hasf(ex.operand(gt[0]["args"][0]), "start") and hasf(ex.operand(gt[0]["args"][1]), "end") and \
            not hasf(ex.operand(gt[0]["args"][0]), "end")
        if not okgt:
            # any spelling of the test (`if start <= end { return }`): the swap is guarded by exactly one comparison of
            # start with end whose taken edge means start > end
            from .common import guards as _g
            swaps = [(bid, t) for bid, t in prog.calls(s) if Program.callee_name(t).endswith("mem::swap")]
            if len(swaps) == 1:
                gs = [(strip(c), tk) for c, tk, sw in _g(prog, s, swaps[0][0])]
                if len(gs) == 1 and gs[0][0][0] == "call" and re.search(r"PartialOrd(<.*>)?>?::(gt|ge|lt|le)$", gs[0][0][1]):
                    c, tk = gs[0]
                    op = c[1].rsplit("::", 1)[-1]
                    a_start = hasf(c[2][0], "start") and not hasf(c[2][0], "end") and hasf(c[2][1], "end") and not hasf(c[2][1], "start")
                    a_end = hasf(c[2][0], "end") and not hasf(c[2][0], "start") and hasf(c[2][1], "start") and not hasf(c[2][1], "end")
                    truth = (tk != 0) if not isinstance(tk, tuple) else (0 in tk[1])
                    # start > end  <=>  gt(start,end) | !le(start,end) | lt(end,start) | !ge(end,start)
                    okgt = (a_start and ((op == "gt" and truth) or (op == "le" and not truth))) or (a_end and ((op == "lt" and truth) or (op == "ge" and not truth)))
        good("%s::new swaps end points when start > end" % ty.split("::")[-1], p) if ok and okgt else bad(ty + "::new", p, "normalisation call=%s, `start > end` test=%s" % (ok, okgt))
    # Point order
    p = [q for q in prog.bodies if q.endswith("point::Point as core::cmp::Ord>::cmp")]
    if len(p) == 1:
        r = _rets(prog, p[0])
        e = r[0] if len(r) == 1 else ("unknown",)
        ok = e[0] == "call" and e[1].endswith("Ordering::then") and mentions(e[2][0], lambda z: z[0] == "field" and z[2] == ("y",)) and \
            mentions(e[2][1], lambda z: z[0] == "field" and z[2] == ("x",)) and not mentions(e[2][0], lambda z: z[0] == "field" and z[2] == ("x",))
        if not ok:
            # the same written as a match on the row comparison: `match P { Equal => S, o => o }` - decided path by path
            from .mirlib import paths as _paths
            fld = lambda z, f: mentions(z, lambda y: y[0] == "field" and y[2] == (f,))
            ps = _paths(prog, p[0]) or []
            okp = bool(ps)
            for conds, ret in ps:
                ret = strip(ret)
                if len(conds) != 1:
                    okp = False
                    break
                c, tk = strip(conds[0][0]), conds[0][1]
                P = strip(c[1]) if c[0] == "discr" else None
                if P is None or P[0] != "call" or not fld(P, "y") or fld(P, "x") or [strip(a)[0] for a in P[2]] and not (mentions(P[2][0], lambda y: y == ("param", 1, ())) and mentions(P[2][1], lambda y: y == ("param", 2, ()))):
                    okp = False
                    break
                if tk == 0:
                    # rows equal: the column comparison of the same kind, self first
                    if not (ret[0] == "call" and ret[1] == P[1] and fld(ret, "x") and not fld(ret, "y") and mentions(ret[2][0], lambda y: y == ("param", 1, ())) and mentions(ret[2][1], lambda y: y == ("param", 2, ()))):
                        okp = False
                elif isinstance(tk, tuple) and 0 in tk[1] or tk in (1, 255, -1):
                    if ret != P and not (ret[0] == "agg" and ret[2] in ("Less", "Greater")):
                        okp = False
                else:
                    okp = False
            ok = okp
        good("Point order = by y, then by x", p[0]) if ok else bad("Point::cmp", p[0], expr_str(e)[:140])
    else:
        bad("Point::cmp", None, "impl not found")
    ok_all = table_construction(run, rule) and ok_all
    return ok_all


def table_construction(run, rule):
    """the character tables are exactly their literal lists (see check); usable on its own: C04 relies on
    `Property::from_char(c).ch == c` because the text fallback of a property character shows `property.ch`"""
    prog = run.prog
    ok_all = True

    def good(name, p, note=""):
        run.ok(rule, "model conformance: " + name, where(prog.bodies[p]) if p else None, note, nontrivial=True)

    def bad(name, p, msg):
        nonlocal ok_all
        ok_all = False
        run.bad(rule, "model-mismatch/%s" % name, where(prog.bodies[p]) if p in prog.bodies else None,
                "the table evaluator's model of %s no longer matches the code: %s" % (name, msg))

    # the tables are exactly their literal lists: one `insert(ch, Property::..(ch, ..))` per listed entry, key == the
    # character stored in the property (Property::from_char(c).ch == c), and no other way into the map
    for static, owner in (("map::ascii_map::ASCII_PROPERTIES", "Property::new"), ("map::unicode_map::UNICODE_PROPERTIES", "Property::with_strong_fragments")):
        init = [q for q in prog.bodies if re.search(re.escape(static) + r"::\{closure#0\}(::\{closure#\d+\})*$", q)]
        if not init:
            bad(static.split("::")[-1], None, "initialiser not found")
            continue
        muts = []
        for q in init:
            qex = None
            for bid, t in prog.calls(q):
                n = Program.callee_name(t)
                if re.search(r"(BTreeMap|HashMap|IndexMap)(::)?<[^>]*>::(insert|extend|append|entry|remove|retain|get_mut|iter_mut|values_mut|insert_full|swap_remove|shift_remove|clear|get_or_insert_with|try_insert)$", n) or \
                        (re.search(r"Extend<.*>>::extend$", n) and re.search(r"Map", n)):
                    qex = qex or Expr(prog, q)
                    muts.append((q, t, qex))
        root = [q for q in init if q.endswith(static + "::{closure#0}")][0]
        if not muts:
            # collected instead of inserted: `list.into_iter().map(|(ch, ..)| (ch, Property::new(ch, ..))).collect()`
            from .exprs import ELEM, iter_element
            okc = False
            for r in Expr(prog, root).returns():
                r = strip(r)
                if r[0] == "call" and re.search(r"FromIterator<.*>>::from_iter$|Iterator::collect$", r[1]) and r[2]:
                    el = iter_element(prog, r[2][0])
                    if el is not None and el[0] == "agg" and len(el[3]) == 2:
                        key, val = strip(el[3][0][1]), strip(el[3][1][1])
                        from_item = key == ELEM or (key[0] == "field" and strip(key[1]) == ELEM)
                        if from_item and val[0] == "call" and val[1].endswith(owner) and val[2] and strip(val[2][0]) == key:
                            okc = True
            if okc:
                good("%s[ch] = %s(ch, ..): collected from the listed entries, keyed by the property's own character" % (static.split("::")[-1], owner), root)
                continue
        ins = [(q, t, qex) for q, t, qex in muts if Program.callee_name(t).endswith("::insert")]
        if len(muts) != 1 or len(ins) != 1 or len(ins[0][1]["args"]) != 3:
            bad(static.split("::")[-1], root, "the map is written by %d calls (%s), expected exactly one insert per listed entry" % (len(muts), sorted({Program.callee_name(t).split("::")[-1] for _, t, _ in muts})))
            continue
        q, t, qex = ins[0]
        key = strip(qex.operand(t["args"][1]))
        val = strip(qex.operand(t["args"][2]))
        if val[0] == "call" and val[1].endswith(owner) and val[2] and strip(val[2][0]) == key and mentions(key, lambda z: (z[0] == "call" and z[1].endswith("Iterator>::next")) or (z[0] == "param" and z[1] >= 2)):
            good("%s[ch] = %s(ch, ..): one insert per listed entry, keyed by the property's own character" % (static.split("::")[-1], owner), q)
        else:
            bad(static.split("::")[-1], q, "entries are inserted as (`%s`, `%s`): key and the property's character differ or the property is not built by %s" % (expr_str(key)[:60], expr_str(val)[:80], owner))
    return ok_all
