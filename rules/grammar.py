"""P — pom grammar model: builds combinator trees from the syntax tree of the parser functions
(srcfacts), and interprets them: nullable / total / output character set / PEG-faithful matching of
short witness strings (pom 3.4 semantics: ordered choice, greedy repeat without backtracking,
`list` = item (sep item)* backing off before a separator that is not followed by an item,
unary `-` = and-predicate, `!` = not-predicate, `parse` does not demand end of input)."""
from .charset import CS, PredEval, Unknown, MAXC


class GrammarError(Exception):
    pass


PRIMS = {"sym", "one_of", "none_of", "is_a", "not_a", "tag", "any", "end", "empty", "list", "take", "skip", "seq"}


class Grammar:
    def __init__(self, fn_items, pred_fns):
        """fn_items: {name: srcfacts fn item} of functions returning Parser; pred_fns: char predicates"""
        self.fns = fn_items
        self.preds = PredEval(pred_fns)
        self.trees = {}
        self.map_literals = []  # string literals found inside .map closures (must be `{}` templates)
        self._pred_cache = {}

    # ------------------------------------------------------------ construction
    def tree(self, name):
        if name in self.trees:
            return self.trees[name]
        f = self.fns.get(name)
        if f is None:
            raise GrammarError("unknown grammar function " + name)
        self.trees[name] = ("ref", name)  # recursion guard
        env = {}
        stmts = f["body"]["stmts"]
        result = None
        for st in stmts:
            if st["k"] == "let":
                pn = st["pat"].get("name")
                if pn is None or "init" not in st:
                    raise GrammarError("unsupported let in %s" % name)
                env[pn] = self.build(st["init"], env, name)
            elif st["k"] == "expr_stmt" and not st["semi"]:
                result = self.build(st["expr"], env, name)
            elif st["k"] == "use":
                continue
            else:
                raise GrammarError("unsupported statement %s in %s" % (st["k"], name))
        if result is None:
            raise GrammarError("no tail expression in %s" % name)
        self.trees[name] = result
        return result

    def lit_str(self, e):
        if e.get("k") == "lit" and e.get("ty") == "str":
            return e["v"]
        raise GrammarError("expected string literal")

    def build(self, e, env, owner):
        k = e.get("k")
        if k == "path":
            n = e["path"]
            if n in env:
                return env[n]
            raise GrammarError("free variable %s in %s" % (n, owner))
        if k == "call":
            f = e["func"]
            if f.get("k") != "path":
                raise GrammarError("indirect call in %s" % owner)
            name = f["path"].split("::")[-1]
            args = e["args"]
            if name == "sym":
                a = args[0]
                if a.get("k") == "lit" and a.get("ty") == "char":
                    return ("sym", a["cp"])
                raise GrammarError("sym argument")
            if name in ("one_of", "none_of"):
                return (name, tuple(sorted(ord(c) for c in self.lit_str(args[0]))))
            if name in ("is_a", "not_a"):
                a = args[0]
                if a.get("k") == "path":
                    return (name, a["path"].split("::")[-1])
                raise GrammarError("%s with a non-function predicate" % name)
            if name == "tag":
                return ("tag", tuple(ord(c) for c in self.lit_str(args[0])))
            if name == "any":
                return ("any",)
            if name == "end":
                return ("end",)
            if name == "empty":
                return ("empty",)
            if name == "list":
                return ("list", self.build(args[0], env, owner), self.build(args[1], env, owner))
            if name in self.fns and not args:
                return self.tree(name)
            raise GrammarError("unknown combinator %s in %s" % (name, owner))
        if k == "method":
            recv = self.build(e["recv"], env, owner)
            m = e["method"]
            if m == "repeat":
                a = e["args"][0]
                if a.get("k") == "range":
                    lo = int(a["lo"]["v"]) if a.get("lo") else 0
                    hi = None
                    if a.get("hi"):
                        hi = int(a["hi"]["v"]) - (0 if a.get("inclusive") else 1)
                    return ("repeat", recv, lo, hi)
                if a.get("k") == "lit" and a.get("ty") == "int":
                    n = int(a["v"])
                    return ("repeat", recv, n, n)
                raise GrammarError("repeat range")
            if m == "opt":
                return ("opt", recv)
            if m == "discard":
                return ("discard", recv)
            if m == "pos":
                return ("pos", recv)
            if m == "collect":
                return ("collect", recv)
            if m in ("map", "convert"):
                self._scan_map(e["args"][0], owner)
                return ("map", recv)
            if m in ("name", "cache", "expect"):
                return recv
            raise GrammarError("unknown parser method %s in %s" % (m, owner))
        if k == "binary":
            op = e["op"]
            l = self.build(e["l"], env, owner)
            r = self.build(e["r"], env, owner)
            if op == "+":
                return ("seq", l, r, "both")
            if op == "*":
                return ("seq", l, r, "right")
            if op == "-":
                return ("seq", l, r, "left")
            if op == "|":
                return ("alt", l, r)
            raise GrammarError("operator %s" % op)
        if k == "unary":
            if e["op"] == "-":
                return ("and", self.build(e["e"], env, owner))
            if e["op"] == "!":
                return ("not", self.build(e["e"], env, owner))
        raise GrammarError("unsupported expression %s in %s" % (k, owner))

    def _scan_map(self, closure, owner):
        def rec(n):
            if isinstance(n, dict):
                if n.get("k") == "lit" and n.get("ty") == "str":
                    self.map_literals.append((owner, n["v"]))
                for v in n.values():
                    rec(v)
            elif isinstance(n, list):
                for v in n:
                    rec(v)
        rec(closure)

    # ------------------------------------------------------------ static properties
    def _pred(self, name):
        if name not in self._pred_cache:
            self._pred_cache[name] = self.preds.fn_set(name)
        return self._pred_cache[name]

    def nullable(self, t, seen=()):
        k = t[0]
        if k in ("sym", "one_of", "none_of", "is_a", "not_a", "any"):
            return False
        if k == "tag":
            return len(t[1]) == 0
        if k in ("end", "empty", "and", "not"):
            return True
        if k == "seq":
            return self.nullable(t[1], seen) and self.nullable(t[2], seen)
        if k == "alt":
            return self.nullable(t[1], seen) or self.nullable(t[2], seen)
        if k == "repeat":
            return t[2] == 0 or self.nullable(t[1], seen)
        if k in ("opt", "list"):
            return True
        if k in ("discard", "pos", "collect", "map"):
            return self.nullable(t[1], seen)
        if k == "ref":
            if t[1] in seen:
                return False
            return self.nullable(self.trees.get(t[1], ("any",)), seen + (t[1],))
        raise GrammarError("nullable: " + k)

    def total(self, t):
        """never fails, on any input"""
        k = t[0]
        if k in ("opt", "list", "empty"):
            return True
        if k == "repeat":
            return t[2] == 0
        if k == "seq":
            return self.total(t[1]) and self.total(t[2])
        if k == "alt":
            return self.total(t[1]) or self.total(t[2])
        if k in ("discard", "pos", "collect", "map"):
            return self.total(t[1])
        if k == "and":
            return self.total(t[1])
        return False

    def spins(self, t, path="", out=None):
        """nodes on which pom loops forever: unbounded repeat of a nullable operand; list whose item
        and separator are both nullable"""
        out = out if out is not None else []
        k = t[0]
        if k == "repeat":
            if t[3] is None and self.nullable(t[1]):
                out.append(path + "/repeat(%d..) of a nullable operand" % t[2])
            self.spins(t[1], path + "/repeat", out)
        elif k == "list":
            if self.nullable(t[1]) and self.nullable(t[2]):
                out.append(path + "/list with nullable item and separator")
            self.spins(t[1], path + "/list.item", out)
            self.spins(t[2], path + "/list.sep", out)
        elif k in ("seq", "alt"):
            self.spins(t[1], path + "/" + k + ".l", out)
            self.spins(t[2], path + "/" + k + ".r", out)
        elif k in ("opt", "discard", "pos", "collect", "map", "and", "not"):
            self.spins(t[1], path + "/" + k, out)
        return out

    def count_nodes(self, t, kind):
        n = 1 if t[0] == kind else 0
        for x in t[1:]:
            if isinstance(x, tuple) and x and isinstance(x[0], str) and x[0] in (
                    "sym", "one_of", "none_of", "is_a", "not_a", "tag", "any", "end", "empty", "seq", "alt", "and", "not",
                    "repeat", "opt", "list", "discard", "pos", "collect", "map", "ref"):
                n += self.count_nodes(x, kind)
        return n

    def matched_charset(self, t):
        """superset of the characters of any text the node can consume"""
        k = t[0]
        if k == "sym":
            return CS.of(t[1])
        if k == "one_of":
            return CS([(c, c) for c in t[1]])
        if k == "none_of":
            return ~CS([(c, c) for c in t[1]])
        if k == "is_a":
            return self._pred(t[1])
        if k == "not_a":
            return ~self._pred(t[1])
        if k == "tag":
            return CS([(c, c) for c in t[1]])
        if k == "any":
            return CS.all()
        if k in ("end", "empty", "and", "not"):
            return CS()
        if k in ("seq", "alt", "list"):
            return self.matched_charset(t[1]) | self.matched_charset(t[2])
        if k in ("repeat", "opt", "discard", "pos", "collect", "map"):
            return self.matched_charset(t[1])
        raise GrammarError("charset: " + k)

    def output_charset(self, t):
        """superset of the characters of the strings the node *outputs* (separators and discarded
        sides excluded; `map` is assumed to rearrange the characters of its input only, which is
        checked separately on the closure's literals)"""
        k = t[0]
        if k in ("sym", "one_of", "none_of", "is_a", "not_a", "tag", "any"):
            return self.matched_charset(t)
        if k in ("end", "empty", "and", "not", "discard", "pos"):
            return CS()
        if k == "seq":
            if t[3] == "both":
                return self.output_charset(t[1]) | self.output_charset(t[2])
            return self.output_charset(t[2] if t[3] == "right" else t[1])
        if k == "alt":
            return self.output_charset(t[1]) | self.output_charset(t[2])
        if k == "list":
            return self.output_charset(t[1])
        if k in ("repeat", "opt", "map"):
            return self.output_charset(t[1])
        if k == "collect":
            return self.matched_charset(t[1])
        raise GrammarError("output charset: " + k)

    # ------------------------------------------------------------ PEG interpreter (witness strings)
    def run(self, t, s, pos=0):
        """returns (ok, newpos, output); s is a list of code points"""
        k = t[0]
        n = len(s)
        if k == "sym":
            if pos < n and s[pos] == t[1]:
                return True, pos + 1, chr(s[pos])
            return False, pos, None
        if k == "one_of":
            if pos < n and s[pos] in t[1]:
                return True, pos + 1, chr(s[pos])
            return False, pos, None
        if k == "none_of":
            if pos < n and s[pos] not in t[1]:
                return True, pos + 1, chr(s[pos])
            return False, pos, None
        if k in ("is_a", "not_a"):
            if pos < n:
                inside = s[pos] in self._pred(t[1])
                if inside == (k == "is_a"):
                    return True, pos + 1, chr(s[pos])
            return False, pos, None
        if k == "tag":
            if tuple(s[pos:pos + len(t[1])]) == t[1]:
                return True, pos + len(t[1]), "".join(chr(c) for c in t[1])
            return False, pos, None
        if k == "any":
            if pos < n:
                return True, pos + 1, chr(s[pos])
            return False, pos, None
        if k == "end":
            return (pos >= n), pos, None
        if k == "empty":
            return True, pos, None
        if k == "seq":
            ok, p1, o1 = self.run(t[1], s, pos)
            if not ok:
                return False, pos, None
            ok, p2, o2 = self.run(t[2], s, p1)
            if not ok:
                return False, pos, None
            out = (o1, o2) if t[3] == "both" else (o2 if t[3] == "right" else o1)
            return True, p2, out
        if k == "alt":
            ok, p1, o1 = self.run(t[1], s, pos)
            if ok:
                return ok, p1, o1
            return self.run(t[2], s, pos)
        if k == "and":
            ok, _, _ = self.run(t[1], s, pos)
            return ok, pos, True
        if k == "not":
            ok, _, _ = self.run(t[1], s, pos)
            return (not ok), pos, True
        if k == "repeat":
            items = []
            p = pos
            lo, hi = t[2], t[3]
            guard = 0
            while hi is None or len(items) < hi:
                ok, p2, o = self.run(t[1], s, p)
                if not ok:
                    break
                items.append(o)
                if p2 == p:
                    guard += 1
                    if guard > 3:
                        raise GrammarError("pom would loop forever here (nullable operand under repeat)")
                p = p2
            if len(items) < lo:
                return False, pos, None
            return True, p, items
        if k == "opt":
            ok, p, o = self.run(t[1], s, pos)
            return True, (p if ok else pos), (o if ok else None)
        if k == "list":
            items = []
            p = pos
            ok, p1, o = self.run(t[1], s, p)
            if ok:
                items.append(o)
                p = p1
                while True:
                    ok, sp, _ = self.run(t[2], s, p)
                    if not ok:
                        break
                    ok, ip, o = self.run(t[1], s, sp)
                    if not ok:
                        break
                    if ip == p:
                        raise GrammarError("pom would loop forever here (nullable list)")
                    items.append(o)
                    p = ip
            return True, p, items
        if k == "discard":
            ok, p, _ = self.run(t[1], s, pos)
            return ok, p, None
        if k == "pos":
            ok, p, _ = self.run(t[1], s, pos)
            return ok, p, p
        if k in ("collect", "map"):
            ok, p, o = self.run(t[1], s, pos)
            if not ok:
                return False, pos, None
            return True, p, "".join(chr(c) for c in s[pos:p])
        if k == "ref":
            return self.run(self.trees[t[1]], s, pos)
        raise GrammarError("run: " + k)

    def parse(self, name, text):
        t = self.tree(name)
        return self.run(t, [ord(c) for c in text], 0)


def load_parser_module(run, file_suffix="svgbob/src/util.rs", module="parser"):
    """collect grammar fns (return type mentions Parser) and char predicates of util::parser"""
    from .common import src_file
    f, v = src_file(run, file_suffix)
    if v is None:
        return None, None, None
    mod = None
    for it in v["items"]:
        if it.get("k") == "mod" and it.get("name") == module and it.get("inline"):
            mod = it
    if mod is None:
        return None, None, f
    gfns, preds = {}, {}
    for it in mod["items"]:
        if it.get("k") != "fn" or it.get("test"):
            continue
        ret = (it["sig"].get("ret") or "").replace(" ", "")
        ins = it["sig"]["inputs"]
        if "Parser<" in ret and not ins:
            gfns[it["name"]] = it
        elif ret == "bool" and len(ins) == 1 and (ins[0].get("ty") or "").replace(" ", "") == "char":
            preds[it["name"]] = it
    return Grammar(gfns, preds), mod, f


def entry_grammar(prog, fn_suffix):
    """name of the grammar function whose parser `fn_suffix` (e.g. util::parser::parse_css_legend) runs, following
    direct calls inside the same module; None if it cannot be determined"""
    import re
    from .exprs import strip
    from .mirlib import Expr, Program
    start = [p for p in prog.bodies if p.endswith(fn_suffix)]
    if len(start) != 1:
        return None
    mod = start[0].rsplit("::", 1)[0]
    seen, work = set(), [start[0]]
    while work:
        q = work.pop()
        if q in seen or q not in prog.bodies:
            continue
        seen.add(q)
        ex = None
        for _, t in prog.calls(q):
            n = Program.callee_name(t)
            if re.search(r"pom::parser::Parser::<'a, I, O>::parse$", n):
                ex = ex or Expr(prog, q)
                ge = strip(ex.operand(t["args"][0]))
                if ge[0] == "call":
                    return ge[1].split("::")[-1]
            elif n.startswith(mod + "::") and "{closure" not in n:
                work.append(n)
    return None

