"""Check runner: loads facts, runs a property's rules, matches known findings, writes evidence."""
import importlib
import json
import os
import sys
import time
import traceback

from . import factsdb
from .mirlib import Program

VERIF = factsdb.VERIF
EVIDENCE_DIR = os.environ.get("VERIF_EVIDENCE_DIR", os.path.join(VERIF, "evidence"))
KNOWN = os.path.join(VERIF, "known_findings.json")


class SelfTestFailed(Exception):
    pass


class Run:
    def __init__(self, pid, tier="quick", seed=0, config="debug", repo=None):
        self.pid = pid
        self.tier = tier
        self.seed = seed
        self.config = config
        self.repo = repo or factsdb.REPO
        self.t0 = time.time()
        self.evals = []  # every rule instance evaluated
        self.violations = []
        self.notes = []
        self.analysed = {}
        self.assumptions = []
        self.floors = {}
        crates, src, th = factsdb.load(config, self.repo)
        self.tree_hash = th
        self.prog = Program(crates)
        self.src = src

    # ---------------------------------------------------------------- recording
    def ok(self, rule, instance, where=None, note="", nontrivial=True):
        self.evals.append({"rule": rule, "instance": instance, "where": where, "verdict": "ok",
                           "note": note, "nontrivial": bool(nontrivial)})

    def bad(self, rule, key, where, msg, instance=None):
        """a violation. `key` is the semantic key used for known-finding matching (no line numbers)"""
        full_key = "%s/%s" % (self.pid, key)
        self.evals.append({"rule": rule, "instance": instance or key, "where": where, "verdict": "VIOLATED",
                           "note": msg, "nontrivial": True})
        self.violations.append({"rule": rule, "key": full_key, "where": where, "msg": msg})

    def missing(self, rule, what):
        self.bad(rule, "ANCHOR-MISSING/%s/%s" % (rule, what), None,
                 "ANCHOR-MISSING: %s — the construct this rule is anchored in was not found; "
                 "the rule cannot be evaluated and fails closed" % what)

    def floor(self, rule, name, count, floor):
        self.floors["%s.%s" % (rule, name)] = {"count": count, "floor": floor}
        if count < floor:
            self.bad(rule, "FLOOR/%s/%s" % (rule, name), None,
                     "FLOOR: %s: %d instances found, at least %d were confirmed by hand on the pinned tree; "
                     "a rule that matches fewer sites would pass vacuously" % (name, count, floor))
            return False
        return True

    def note(self, s):
        self.notes.append(s)

    def assume(self, s):
        if s not in self.assumptions:
            self.assumptions.append(s)

    def record(self, key, value):
        self.analysed[key] = value


def load_known():
    try:
        with open(KNOWN) as fh:
            return json.load(fh)
    except FileNotFoundError:
        return []


def finish(run, module_doc, extra_cov=None):
    known = [k for k in load_known() if k.get("property") == run.pid and k.get("status") == "known"]
    known_keys = {k["key"]: k for k in known}
    real = []
    printed_known = set()
    for v in run.violations:
        if v["key"] in known_keys:
            if v["key"] not in printed_known:
                printed_known.add(v["key"])
                print("KNOWN-FINDING: property=%s %s [%s]" % (run.pid, known_keys[v["key"]]["what"], v["key"]))
        else:
            real.append(v)
    os.makedirs(EVIDENCE_DIR, exist_ok=True)
    evals = run.evals
    distinct = {(e["rule"], json.dumps(e["instance"], sort_keys=True, default=str)) for e in evals if e["nontrivial"]}
    by_rule = {}
    for e in evals:
        d = by_rule.setdefault(e["rule"], {"instances": 0, "violated": 0})
        d["instances"] += 1
        if e["verdict"] != "ok":
            d["violated"] += 1
    samples = []
    seen_rules = set()
    for e in evals:
        if e["rule"] not in seen_rules or e["verdict"] != "ok":
            seen_rules.add(e["rule"])
            samples.append({k: e[k] for k in ("rule", "instance", "where", "verdict", "note")})
        if len(samples) >= 40:
            break
    wall = time.time() - run.t0
    cov = {
        "explanation": module_doc.strip(),
        "evaluations": len(evals),
        "distinct_nontrivial": len(distinct),
        "rule": "one evaluation = one rule instance (a call site, a field, a table entry x neighbourhood, a "
                "grammar node, a static ...) decided from the current source; non-trivial = the instance "
                "needed a slice, a dominance/control-dependence query, a table fold or a set computation "
                "(instances discharged by a constant or by type alone are counted trivial)",
        "samples": samples,
        "obligations": len(evals),
        "discharged": len([e for e in evals if e["verdict"] == "ok"]),
        "checker_cmd": "./check %s --tier %s" % (run.pid, run.tier),
        "trusted_base": ["rustc nightly MIR construction + Instance::try_resolve (mirfacts driver)",
                         "syn 2 parser (srcfacts)", "python rule evaluators in /verif/rules"],
        "per_rule": by_rule,
        "floors": run.floors,
        "analysed": run.analysed,
        "notes": run.notes,
        "tree_hash": run.tree_hash,
        "mir_config": run.config,
        "known_findings_matched": sorted(printed_known),
        "exhaustive": True,
    }
    if extra_cov:
        cov.update(extra_cov)
    ev = {
        "property_id": run.pid,
        "tier": run.tier,
        "seed": run.seed,
        "level": "other",
        "coverage": cov,
        "assumptions": run.assumptions,
        "wall_s": round(wall, 3),
        "violations": len(real),
    }
    with open(os.path.join(EVIDENCE_DIR, run.pid + ".json"), "w") as fh:
        json.dump(ev, fh, indent=1, default=str)
        fh.write("\n")
    vpath = os.path.join(EVIDENCE_DIR, run.pid + ".violations.json")
    if real:
        with open(vpath, "w") as fh:
            json.dump({"property": run.pid, "tree_hash": run.tree_hash, "violations": real}, fh, indent=1)
        for v in real:
            print("%s %s %s  [key=%s]" % (v["rule"], v["where"] or "-", v["msg"], v["key"]))
        print("VIOLATION property=%s replay=%s" % (run.pid, vpath))
        return 1
    else:
        if os.path.exists(vpath):
            os.remove(vpath)
    print("OK property=%s tier=%s rules=%d instances=%d nontrivial=%d known=%d wall=%.1fs" % (
        run.pid, run.tier, len(by_rule), len(evals), len(distinct), len(printed_known), wall))
    return 0


FIXTURE = os.path.join(VERIF, "fixtures", "positive")


def fixture_selftest(run, mod):
    """zero-count rules must report their deliberate instance in the positive fixture on every run"""
    expect = getattr(mod, "FIXTURE_EXPECT", None)
    if not expect or os.environ.get("VERIF_NO_FIXTURE") == "1":
        return
    fr = Run(run.pid, run.tier, run.seed, "debug", repo=FIXTURE)
    fn = getattr(mod, "fixture", None) or mod.run
    try:
        fn(fr)
    except Exception as e:  # anchors of svgbob are naturally missing in the fixture
        fr.note("fixture run stopped: %r" % (e,))
    keys = [v["key"] for v in fr.violations]
    missing = [k for k in expect if not any(k in key for key in keys)]
    if missing:
        raise SelfTestFailed("positive fixture: deliberate instance(s) %s not reported (reported: %s)" % (missing, keys[:12]))
    run.ok("selftest", "positive fixture: all %d deliberate zero-count instances are reported" % len(expect), "fixtures/positive",
           ", ".join(expect), nontrivial=True)
    run.record("positive_fixture", {"expected": expect, "reported": len(keys)})


def run_property(pid, tier="quick", seed=0):
    mod = importlib.import_module("rules.props.%s" % pid.lower())
    configs = ["debug"] if tier == "quick" else ["debug", "release"]
    run = None
    try:
        run = Run(pid, tier, seed, "debug")
        mod.run(run)
        fixture_selftest(run, mod)
        if tier == "thorough":
            # second MIR configuration (what release ships): flow rules again
            if hasattr(mod, "run_flow"):
                r2 = Run(pid, tier, seed, "release")
                mod.run_flow(r2)
                for e in r2.evals:
                    e["rule"] = e["rule"] + "@release"
                    run.evals.append(e)
                for v in r2.violations:
                    if v["key"] not in {x["key"] for x in run.violations}:
                        run.violations.append(v)
            if hasattr(mod, "thorough"):
                mod.thorough(run)
            # checker-sensitivity corpus: every mutant of this property must be reported on a scratch copy
            if os.environ.get("VERIF_NO_MUTANTS") != "1" and factsdb.REPO == "/repo":
                import subprocess
                r = subprocess.run([os.path.join(VERIF, "tools", "run_mutants.py"), pid], capture_output=True, text=True,
                                   env=dict(os.environ, VERIF_NO_MUTANTS="1", VERIF_TIER="quick"))
                lines = [l for l in r.stdout.splitlines() if l.startswith(("CAUGHT", "MISSED", "SKIP"))]
                caught = [l.split()[1] for l in lines if l.startswith("CAUGHT")]
                missed = [l.split()[1] for l in lines if l.startswith("MISSED")]
                skipped = [l.split()[1] for l in lines if l.startswith("SKIP")]
                run.record("mutant_corpus", {"caught": caught, "missed": missed, "skipped_not_applicable": skipped})
                for m in caught:
                    run.ok("selftest", "mutant %s is reported" % m, m, "applied to a scratch copy of /repo; ./check %s exits 1 naming the mutated instance" % pid)
                if missed:
                    raise SelfTestFailed("mutant(s) not reported by %s: %s" % (pid, ", ".join(missed)))
    except factsdb.NoVerdict as e:
        print("NO-VERDICT property=%s %s" % (pid, e))
        return 2
    except SelfTestFailed as e:
        print("CHECKER-SELFTEST-FAILED property=%s %s" % (pid, e))
        return 2
    except Exception:
        # fail closed: an internal error of a rule on a changed tree means an anchor moved
        tb = traceback.format_exc()
        if run is None:
            print("NO-VERDICT property=%s internal error before analysis\n%s" % (pid, tb))
            return 2
        last = tb.strip().splitlines()[-1]
        run.bad("internal", "ANCHOR-MISSING/internal", None,
                "ANCHOR-MISSING: rule evaluation aborted (%s); the code shape the rule is anchored in changed" % last)
        sys.stderr.write(tb)
    return finish(run, mod.__doc__ or "")
