"""circle catalogue model: the entries of CIRCLE_ART_MAP read from the syntax tree; widths, radii and
centres computed by the formulas of CircleArt (which are pinned to the code by `conformance`)."""
import math
import re

from .common import src_file, src_fn, where
from .exprs import factors, is_const, mentions, strip, terms, uncast
from .mirlib import Expr, Program, expr_str
from .tae import TableError


class Catalogue:
    def __init__(self, run):
        self.run = run
        f, v = src_file(run, "svgbob/src/map/circle_map.rs")
        if v is None:
            raise TableError("circle_map.rs not found")
        self.file = f
        table = None
        for it in v["items"]:
            if it.get("k") == "static" and it.get("name") == "CIRCLE_ART_MAP":
                e = it["e"]
                if e.get("k") == "call" and e["args"] and e["args"][0].get("k") == "closure":
                    body = e["args"][0]["body"]
                    tail = body
                    if body.get("k") == "block":
                        st = [s for s in body["stmts"] if s["k"] == "expr_stmt" and not s["semi"]]
                        tail = st[-1]["expr"] if st else None
                    if tail and tail.get("k") == "macro" and "args" in tail:
                        table = tail["args"]
        if table is None:
            raise TableError("CIRCLE_ART_MAP literal not found")
        self.entries = []
        for i, ent in enumerate(table):
            if ent.get("k") != "tuple" or len(ent["elems"]) < 4:
                raise TableError("catalogue entry %d is not a tuple" % i)
            art, edge, ocx, ocy = ent["elems"][:4]
            if art.get("ty") != "str" or edge.get("k") != "path":
                raise TableError("catalogue entry %d malformed" % i)
            num = lambda e: float(e["v"]) if e.get("k") == "lit" else -float(e["e"]["v"])
            cells = {}
            for y, line in enumerate(art["v"].splitlines()):
                for x, ch in enumerate(line):
                    if not ch.isspace():
                        cells[(x, y)] = ch
            if not cells:
                raise TableError("catalogue entry %d has an empty drawing" % i)
            minx = min(x for x, y in cells)
            miny = min(y for x, y in cells)
            loc = {(x - minx, y - miny): ch for (x, y), ch in cells.items()}
            ncols = max(x for x, y in loc) + 1
            nrows = max(y for x, y in loc) + 1
            e = {"index": i, "line": ent["pos"][0], "cells": loc, "ncols": ncols, "nrows": nrows,
                 "edge": edge["path"].split("::")[-1], "ocx": num(ocx), "ocy": num(ocy)}
            # CircleArt::width / radius / center (see conformance)
            e["width"] = (ncols - 1) + (1.0 if e["edge"] == "LeftEdge" else 0.0)
            e["radius"] = e["width"] / 2.0
            inc = 0.0 if e["edge"] == "LeftEdge" else 0.5
            e["center"] = (e["radius"] + inc, e["ocy"] * 2.0)
            e["diameter"] = int(math.floor(e["radius"] * 2.0))
            e["height"] = nrows
            self.entries.append(e)

    def conformance(self, run, rule):
        """the formulas used above are the ones in the code"""
        prog = run.prog
        ok_all = True

        def bad(name, p, msg):
            nonlocal ok_all
            ok_all = False
            run.bad(rule, "model-mismatch/%s" % name, where(prog.bodies[p]) if p in prog.bodies else self.file,
                    "the catalogue model of %s no longer matches the code: %s" % (name, msg))

        from .fold import Folder
        folder = Folder(prog)

        def is_c(e, val):
            """e is the constant val, literally or after folding argument-free functions (Cell::height() == 2 ...)"""
            if is_const(e, val):
                return True
            try:
                return float(folder.eval(strip(e), ())) == float(val)
            except Exception:
                return False

        def one(sfx):
            ps = [p for p in prog.bodies if p.endswith(sfx)]
            return ps[0] if len(ps) == 1 else None

        p = one("circle_map::CircleArt::radius")
        w = one("circle_map::CircleArt::width")
        if p and w:
            r = [strip(x) for x in Expr(prog, p).returns()]
            ok = len(r) == 1 and r[0][0] == "bin" and r[0][1] == "Div" and strip(r[0][2])[0] == "call" and strip(r[0][2])[1] == w and is_c(r[0][3], 2.0)
            run.ok(rule, "model conformance: CircleArt::radius = width() / 2", where(prog.bodies[p])) if ok else bad("CircleArt::radius", p, expr_str(r[0]) if r else "?")
        else:
            bad("CircleArt::radius", None, "function not found")
        p = one("circle_map::CircleArt::center")
        inc = one("circle_map::CircleArt::edge_increment_x")
        rad = one("circle_map::CircleArt::radius")
        if p and inc and rad:
            r = [strip(x) for x in Expr(prog, p).returns()]
            ok = len(r) == 1 and r[0][0] == "call" and r[0][1].endswith("Point::new")
            if ok:
                cx, cy = strip(r[0][2][0]), strip(r[0][2][1])
                tx = [strip(t) for t in terms(cx)]
                okx = len(tx) == 2 and {t[1] for t in tx if t[0] == "call"} == {inc, rad}
                fy = [strip(f) for f in factors(cy)]
                oky = len(fy) == 2 and any(is_c(f, 2.0) for f in fy) and any(f == ("param", 1, ("offset_center_y",)) for f in fy)
                ok = okx and oky
            run.ok(rule, "model conformance: CircleArt::center = (radius + edge_increment, offset_center_y * 2)", where(prog.bodies[p])) if ok else bad("CircleArt::center", p, expr_str(r[0])[:160] if r else "?")
        else:
            bad("CircleArt::center", None, "function not found")
        # match tables from the syntax tree
        it = src_fn(run, "map/circle_map.rs", "edge_increment_x", impl_self="CircleArt")
        vals = {}
        if it:
            m = it["body"]["stmts"][0]["expr"] if it["body"]["stmts"] else {}
            for arm in m.get("arms", []):
                if arm["body"].get("ty") == "float":
                    vals[arm["pat"].get("path", "").split("::")[-1]] = float(arm["body"]["v"])
        if vals != {"LeftEdge": 0.0, "Half": 0.5}:
            # not a plain match with literal arms: decided path by path (`if self.start_edge == Horizontal::Half { 0.5 } else { 0.0 }`)
            ep = one("circle_map::CircleArt::edge_increment_x")
            hadt_ = prog.adts.get("svgbob::map::circle_map::Horizontal")
            if ep and hadt_:
                got = {}
                for var, ret in paths_by_variant(prog, ep, [v_["name"] for v_ in hadt_["variants"]]):
                    got.setdefault(var, set()).add(float(ret[2]) if ret[0] == "const" and ret[1] == "float" else None)
                if all(len(v_) == 1 and None not in v_ for v_ in got.values()) and None not in got:
                    vals = {k: list(v_)[0] for k, v_ in got.items()}
        if vals == {"LeftEdge": 0.0, "Half": 0.5}:
            run.ok(rule, "model conformance: edge_increment_x = {LeftEdge: 0, Half: 0.5}", "%s:%d" % (self.file, it["pos"][0]))
        else:
            bad("CircleArt::edge_increment_x", None, "arms are %r" % vals)
        # CircleArt::width, path by path (any of match / if let / early return): on the path of each variant of
        # start_edge the result is (bounds.1.x - bounds.0.x) as f32 plus the model's increment for that variant
        from .mirlib import paths as mir_paths
        okw = False
        wp = one("circle_map::CircleArt::width")
        hadt = prog.adts.get("svgbob::map::circle_map::Horizontal")
        it = {"pos": [prog.bodies[wp]["span"]["line"]]} if wp else None
        if wp and hadt:
            names = [v_["name"] for v_ in hadt["variants"]]
            ps = mir_paths(prog, wp) or []
            seen_v = {}
            for conds, ret in ps:
                var = None
                for c, tk in conds:
                    c = strip(c)
                    if c[0] == "discr" and strip(c[1])[0] == "param" and strip(c[1])[2][-1:] == ("start_edge",):
                        if isinstance(tk, tuple):
                            rest = [i for i in range(len(names)) if i not in tk[1]]
                            var = names[rest[0]] if len(rest) == 1 else None
                        elif 0 <= tk < len(names):
                            var = names[tk]
                    # `self.start_edge == Horizontal::V` with the derived (discriminant) equality of the field-less enum
                    if c[0] == "call" and re.search(r"Horizontal as core::cmp::PartialEq>::eq$", c[1]) and len(c[2]) == 2 and len(names) == 2 and \
                            c[1].endswith("::eq") and c[1] in prog.bodies and \
                            [strip(r_) for r_ in Expr(prog, c[1]).returns()] == [("bin", "Eq", ("discr", ("param", 1, ())), ("discr", ("param", 2, ())))]:
                        a0, a1 = strip(c[2][0]), strip(c[2][1])
                        if a1[0] == "param":
                            a0, a1 = a1, a0
                        if a0[0] == "param" and a0[2][-1:] == ("start_edge",) and a1[0] == "agg" and a1[2] in names:
                            truth = tk != 0
                            var = a1[2] if truth else [n for n in names if n != a1[2]][0]
                if var is None:
                    seen_v["?"] = None
                    continue
                ts = [strip(t) for t in terms(strip(ret))]
                plus = sum(float(t[2]) for t in ts if t[0] == "const")
                rest = [t for t in ts if t[0] != "const"]
                good = len(rest) == 1
                if good:
                    d = uncast(rest[0])
                    good = d[0] == "bin" and d[1] == "Sub"
                    if good:
                        hi, lo = strip(d[2]), strip(d[3])
                        from_bounds = lambda z: z[0] == "field" and mentions(z, lambda y: y[0] == "call" and y[1].endswith("CellBuffer::bounds")) and \
                            mentions(z, lambda y: y[0] == "call" and re.search(r"CellBuffer as core::convert::From<&str>>::from$", y[1])) and \
                            mentions(z, lambda y: y[0] == "param" and y[2][-1:] == ("ascii_art",))
                        good = from_bounds(hi) and from_bounds(lo) and tuple(hi[2])[-2:] == ("1", "x") and tuple(lo[2])[-2:] == ("0", "x")
                seen_v[var] = plus if good else None
            okw = seen_v == {"LeftEdge": 1.0, "Half": 0.0}
        if okw:
            run.ok(rule, "model conformance: CircleArt::width = columns spanned - 1 (+1 when flush with the left edge)", "%s:%d" % (self.file, it["pos"][0]))
        else:
            bad("CircleArt::width", None, "match arms / bounds source not recognised")
        p = one("circle_map::CircleArt::diameter")
        if p and rad:
            r = [strip(x) for x in Expr(prog, p).returns()]
            ok = len(r) == 1 and mentions(r[0], lambda z: z[0] == "call" and z[1] == rad) and mentions(r[0], lambda z: z[0] == "const" and z[2] == 2.0) and \
                mentions(r[0], lambda z: z[0] == "call" and "floor" in z[1])
            run.ok(rule, "model conformance: CircleArt::diameter = floor(radius * 2)", where(prog.bodies[p])) if ok else bad("CircleArt::diameter", p, expr_str(r[0])[:120] if r else "?")
        return ok_all



def paths_by_variant(prog, p, names, field="start_edge"):
    """the paths of a function that dispatches on the field-less enum stored in self.<field> - by `match`, `if let`, or
    `== Variant` with the derived equality - as [(variant name | None, return expression)]"""
    from .mirlib import paths as mir_paths
    out = []
    for conds, ret in (mir_paths(prog, p) or []):
        var = None
        for c, tk in conds:
            c = strip(c)
            if c[0] == "discr" and strip(c[1])[0] == "param" and strip(c[1])[2][-1:] == (field,):
                if isinstance(tk, tuple):
                    rest = [i for i in range(len(names)) if i not in tk[1]]
                    var = names[rest[0]] if len(rest) == 1 else None
                elif 0 <= tk < len(names):
                    var = names[tk]
            if c[0] == "call" and re.search(r" as core::cmp::PartialEq>::eq$", c[1]) and len(c[2]) == 2 and len(names) == 2 and c[1] in prog.bodies and \
                    [strip(r_) for r_ in Expr(prog, c[1]).returns()] == [("bin", "Eq", ("discr", ("param", 1, ())), ("discr", ("param", 2, ())))]:
                a0, a1 = strip(c[2][0]), strip(c[2][1])
                if a1[0] == "param":
                    a0, a1 = a1, a0
                if a0[0] == "param" and a0[2][-1:] == (field,) and a1[0] == "agg" and a1[2] in names:
                    var = a1[2] if tk != 0 else [n for n in names if n != a1[2]][0]
        out.append((var, strip(ret)))
    return out


def gap_to_circle(cell, center, radius):
    """distance between the circle (curve) and the rectangle of a cell (x: 1 wide, y: 2 high)"""
    x0, y0 = cell[0] * 1.0, cell[1] * 2.0
    x1, y1 = x0 + 1.0, y0 + 2.0
    cx, cy = center
    dx = max(x0 - cx, 0, cx - x1)
    dy = max(y0 - cy, 0, cy - y1)
    dmin = math.hypot(dx, dy)
    dmax = max(math.hypot(px - cx, py - cy) for px in (x0, x1) for py in (y0, y1))
    if dmin <= radius <= dmax:
        return 0.0
    if dmax < radius:
        return radius - dmax
    return dmin - radius
