#!/bin/sh
# builds the two fact extractors offline and warms the analysis target directory
set -e
cd "$(dirname "$0")"
export CARGO_NET_OFFLINE=true
(cd tools/mirfacts && cargo build --offline 2>&1 | tail -2)
(cd tools/srcfacts && cargo build --offline 2>&1 | tail -2)
python3 -m rules.factsdb debug
python3 -m rules.factsdb release
VERIF_REPO=fixtures/positive python3 -m rules.factsdb debug
echo setup-ok
