//! deliberate violations, one per zero-count rule (see /verif/fixtures/positive/Cargo.toml)
use std::collections::HashMap;

pub struct Settings {
    pub scale: f32,
}

static mut LAST_LEN: usize = 0; // C07.D2 static mut

thread_local! {
    static CALLS: std::cell::Cell<u32> = std::cell::Cell::new(0); // C07.D2 thread local / interior mutability
}

static COUNTER: std::sync::atomic::AtomicUsize = std::sync::atomic::AtomicUsize::new(0); // C07.D2 interior-mutable static

fn order_escapes(m: &HashMap<u32, String>) -> Vec<String> {
    let mut out = vec![];
    for (_k, v) in m {
        out.push(v.clone()); // C07.D4 hash order escapes into a Vec
    }
    out
}

fn spin(mut n: u32) -> u32 {
    while n > 1 {
        // C01.R2 while loop
        n = if n % 2 == 0 { n / 2 } else { 3 * n + 1 };
    }
    let mut k = 0;
    for i in std::iter::repeat(1u32) {
        // C01.R2 unbounded iterator source
        k += i;
        if k > 3 {
            break;
        }
    }
    k
}

fn near(a: f32, b: f32) -> bool {
    (a - b).abs() <= f32::EPSILON // C06.P4 absolute machine-epsilon tolerance
}

pub mod util {
    use std::cmp::Ordering;
    /// total order on coordinates
    pub fn ord(a: f32, b: f32) -> Ordering {
        if a < b {
            Ordering::Less
        } else if a > b {
            Ordering::Greater
        } else if a == b {
            Ordering::Equal
        } else {
            unreachable!("comparison with NaN")
        }
    }
}

fn half_chord(r: f32, q: f32) -> f32 {
    (r * r - q * q).sqrt() // may be NaN
}

fn nan_order(r: f32, q: f32) -> bool {
    util::ord(half_chord(r, q), 0.0) == std::cmp::Ordering::Less // C01.R5 NaN-capable value reaches the total order
}

fn recurse(n: u32) -> u32 {
    if n == 0 {
        0
    } else {
        recurse(n) // C01.R2 recursion without variant
    }
}

pub fn to_svg(ascii: &str) -> String {
    to_svg_string_pretty(ascii)
}

pub fn to_svg_string_pretty(ascii: &str) -> String {
    let t = std::time::Instant::now(); // C07.D3 ambient API
    unsafe {
        LAST_LEN = ascii.len(); // C07.D1 user unsafe
    }
    CALLS.with(|c| c.set(c.get() + 1));
    COUNTER.fetch_add(1, std::sync::atomic::Ordering::SeqCst);
    let mut m = HashMap::new();
    m.insert(1u32, ascii.to_string());
    m.insert(2u32, format!("{:?}", t.elapsed()));
    println!("converting"); // C19.X6 library print
    let first = ascii.chars().next().unwrap(); // C01.R1 undischarged unwrap
    if ascii.len() > 1_000_000 {
        std::process::exit(3); // C20.Y5 exit reachable from the handler
    }
    format!(
        "{}{}{}{}{}{}",
        order_escapes(&m).join(""),
        spin(3),
        recurse(0),
        first,
        near(ascii.len() as f32, 1.0),
        nan_order(ascii.len() as f32, 2.0)
    )
}

pub fn to_svg_string_compressed(ascii: &str) -> String {
    to_svg_string_pretty(ascii)
}

pub fn to_svg_with_settings(ascii: &str, _settings: &Settings) -> String {
    to_svg_string_pretty(ascii)
}

pub fn to_svg_with_override_size(ascii: &str, _settings: &Settings, _w: f32, _h: f32) -> String {
    to_svg_string_pretty(ascii)
}

pub mod point {
    #[derive(Clone, Copy, PartialEq)]
    pub struct Point {
        pub x: f32,
        pub y: f32,
    }
    impl Point {
        /// the cell a point falls into
        pub fn cell(&self) -> (i32, i32) {
            ((self.x / 1.0).floor() as i32, (self.y / 2.0).floor() as i32)
        }
    }
}

pub mod buffer {
    pub mod string_buffer {
        pub struct StringBuffer(pub Vec<Vec<char>>);
        impl From<&str> for StringBuffer {
            /// C06.P5: a tab stop makes the columns depend on the absolute column
            fn from(s: &str) -> Self {
                let mut rows = vec![];
                for line in s.lines() {
                    let mut row: Vec<char> = vec![];
                    for ch in line.chars() {
                        if ch == '\t' {
                            while row.len() % 4 != 0 {
                                row.push(' ');
                            }
                            continue;
                        }
                        row.push(ch);
                    }
                    rows.push(row);
                }
                StringBuffer(rows)
            }
        }
    }
    pub mod cell_buffer {
        pub struct Frag(pub i32);
        impl Frag {
            pub fn merge(&self, other: &Frag) -> Option<Frag> {
                if self.0 + 1 == other.0 {
                    Some(Frag(other.0))
                } else {
                    None
                }
            }
        }
        pub struct CellBuffer(pub Vec<Vec<Frag>>);
        impl CellBuffer {
            /// C10.I3: a relation between fragments applied to the flattened per-span results
            fn join(all: &mut Vec<Frag>, extra: Frag) {
                for f in all.iter_mut() {
                    if let Some(j) = f.merge(&extra) {
                        *f = j;
                        return;
                    }
                }
                all.push(extra);
            }
            pub fn get_fragment_spans(self) -> Vec<Frag> {
                let mut all: Vec<Frag> = self.0.into_iter().flatten().collect();
                Self::join(&mut all, Frag(0));
                all
            }
            pub fn endorse_to_fragment_spans(self) -> Vec<Frag> {
                self.0.into_iter().flatten().collect()
            }
            pub fn group_nodes_and_fragments(self) -> usize {
                self.0.len()
            }
        }
        pub mod endorse {
            use crate::point::Point;
            /// C05.R3: corner test on quantised end points
            fn is_rect(a: &Point, b: &Point) -> bool {
                a.cell() == b.cell()
            }
            fn is_rounded_rect(a: &Point, b: &Point) -> bool {
                a.cell().0 == b.cell().0
            }
            pub fn endorse_rect(a: &Point, b: &Point) -> Option<(Point, Point)> {
                if is_rect(a, b) {
                    Some((*a, *b))
                } else {
                    None
                }
            }
            pub fn endorse_rounded_rect(a: &Point, b: &Point) -> Option<(Point, Point)> {
                if is_rounded_rect(a, b) {
                    Some((*a, *b))
                } else {
                    None
                }
            }
        }
    }
}
