fn main() {
    println!("{}", svgbob::to_svg("x"));
}
