async fn hello() -> String {
    String::new()
}
async fn text_to_svgbob(body: Vec<u8>) -> Result<String, u16> {
    Ok(svgbob::to_svg(&String::from_utf8_lossy(&body)))
}
fn main() {
    let _ = (hello(), text_to_svgbob(vec![]));
}
