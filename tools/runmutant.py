#!/usr/bin/env python3
"""runmutant.py <patch> <PROP>... [--keep] [--test]
applies a patch to a scratch copy of /repo (under /var/tmp), runs the named checks against the copy
(VERIF_REPO), prints their verdicts, removes the copy.  --test additionally runs the repo's test suite on the copy."""
import os, shutil, subprocess, sys, tempfile, time


def touch_all(root):
    """cargo's freshness check is mtime based and its unit hashes are workspace-relative: a scratch copy that
    shares a target dir with an earlier (differently patched) copy must look newer than every cached artifact"""
    now = time.time()
    for d, _, fs in os.walk(root):
        for f in fs:
            if f.endswith((".rs", ".toml")):
                os.utime(os.path.join(d, f), (now, now))

args = [a for a in sys.argv[1:] if not a.startswith("--")]
flags = [a for a in sys.argv[1:] if a.startswith("--")]
patch, props = args[0], args[1:]
verif = os.path.dirname(os.path.dirname(os.path.abspath(__file__)))
scratch = tempfile.mkdtemp(prefix="svgbob-mut-", dir="/var/tmp")
rc_all = 0
try:
    for item in ("Cargo.toml", "Cargo.lock", "crates"):
        src = os.path.join("/repo", item)
        dst = os.path.join(scratch, item)
        if os.path.isdir(src):
            shutil.copytree(src, dst, ignore=shutil.ignore_patterns("target"))
        else:
            shutil.copy2(src, dst)
    if patch != "none":
        r = subprocess.run(["patch", "-p1", "-s", "-i", os.path.abspath(patch)], cwd=scratch, capture_output=True, text=True)
        if r.returncode != 0:
            print("PATCH-DOES-NOT-APPLY", r.stdout, r.stderr)
            sys.exit(3)
    touch_all(scratch)
    env = dict(os.environ, VERIF_REPO=scratch, VERIF_EVIDENCE_DIR=os.path.join(scratch, "evidence"))
    if "--test" in flags:
        tenv = dict(os.environ, CARGO_TARGET_DIR=os.path.join(verif, ".work", "target-test"), CARGO_NET_OFFLINE="true")
        r = subprocess.run(["cargo", "test", "--workspace", "--offline", "--no-fail-fast"], cwd=scratch, env=tenv, capture_output=True, text=True)
        res = [l for l in r.stdout.splitlines() if l.startswith("test result") ]
        failed = [l for l in r.stdout.splitlines() if l.endswith("FAILED") or "error[" in l]
        print("TESTS rc=%d" % r.returncode, "; ".join(res[:6]))
        if r.returncode != 0:
            print("\n".join(failed[:10])); print(r.stderr[-1500:])
    for p in props:
        tier = "quick"
        r = subprocess.run([os.path.join(verif, "check"), p, "--tier", tier], env=env, capture_output=True, text=True, cwd=verif)
        out = r.stdout.strip().splitlines()
        print("== %s rc=%d" % (p, r.returncode))
        for l in out[-12:]:
            print("   " + l.replace(scratch + "/", ""))
        if r.returncode not in (0, 1):
            print(r.stderr[-1500:])
        rc_all = max(rc_all, r.returncode)
finally:
    if "--keep" in flags:
        print("kept", scratch)
    else:
        shutil.rmtree(scratch, ignore_errors=True)
sys.exit(rc_all)
