#!/usr/bin/env python3
"""keep_seed.py <seed dir /tmp/seed/Cxx-n> <property> [other props to run...]
confirms the seeded change independently (tools/confirm_seed.py), runs the named checks against a scratch copy with
the patch applied (tools/runmutant.py) and, if confirmed, stores it as /verif/seeded/<Cxx-n>/ {patch.diff, demo.*,
notes.md, meta.json}."""
import json, os, shutil, subprocess, sys
seed = os.path.abspath(sys.argv[1]); prop = sys.argv[2]; props = [prop] + sys.argv[3:]
V = os.path.dirname(os.path.dirname(os.path.abspath(__file__)))
out = os.path.join(seed, "out")
name = os.path.basename(seed)
r = subprocess.run([os.path.join(V, "tools/confirm_seed.py"), out], capture_output=True, text=True)
try:
    conf = json.loads(r.stdout[r.stdout.index("{"):])
except Exception:
    print("confirm failed", r.stdout[-500:], r.stderr[-500:]); sys.exit(2)
print("confirmed:", conf.get("confirmed"), {k: (v if not isinstance(v, dict) else v.get("rc")) for k, v in conf.items()})
checks = {}
for p in props:
    rr = subprocess.run([os.path.join(V, "tools/runmutant.py"), os.path.join(out, "patch.diff"), p], capture_output=True, text=True)
    lines = [l.strip() for l in rr.stdout.splitlines() if l.strip().startswith(p + ".")]
    checks[p] = {"rc": rr.returncode, "reported": [l[:300] for l in lines[:6]]}
    print(p, "rc=%d" % rr.returncode, *[l[:200] for l in lines[:3]], sep="\n    ")
if not conf.get("confirmed"):
    print("NOT KEPT (not confirmed)"); sys.exit(1)
dst = os.path.join(V, "seeded", name)
os.makedirs(dst, exist_ok=True)
for f in ("patch.diff", "demo.rs", "demo.sh", "notes.md"):
    if os.path.exists(os.path.join(out, f)):
        shutil.copy2(os.path.join(out, f), os.path.join(dst, f))
caught_by = [p for p in props if checks[p]["rc"] == 1]
meta = {
    "id": name, "property": prop,
    "needs_to_manifest": "see notes.md",
    "produced_by": "independent sub-agent given only the property text and a scratch worktree",
    "confirmed": conf,
    "ran": ["tools/confirm_seed.py %s" % out] + ["tools/runmutant.py seeded/%s/patch.diff %s" % (name, p) for p in props],
    "checks": checks, "caught_by": caught_by, "expect_caught": bool(caught_by),
}
json.dump(meta, open(os.path.join(dst, "meta.json"), "w"), indent=1)
print("kept as", dst, "caught_by", caught_by)
