#!/usr/bin/env python3
"""run_mutants.py [PROP...]  — checker-sensitivity corpus: applies each /verif/mutants/<PROP>/*.patch (and
/verif/seeded/<id>/patch.diff whose meta names PROP) to a scratch copy of /repo, runs ./check PROP on the copy and
expects exit 1 (violation reported).  Prints one line per mutant; exit 0 iff every applicable mutant is caught."""
import glob, json, os, subprocess, sys
V = os.path.dirname(os.path.dirname(os.path.abspath(__file__)))
props = [a.upper() for a in sys.argv[1:] if not a.startswith("--")]
if not props:
    props = sorted(os.path.basename(d) for d in glob.glob(os.path.join(V, "mutants", "C*")))
missed, skipped, caught = [], [], []
for p in props:
    pats = sorted(glob.glob(os.path.join(V, "mutants", p, "*.patch")))
    for sd in sorted(glob.glob(os.path.join(V, "seeded", "*"))):
        try:
            meta = json.load(open(os.path.join(sd, "meta.json")))
        except Exception:
            continue
        cb = meta.get("caught_by", [])
        if meta.get("property") == p and cb and p not in cb:
            print("OTHER  %-60s reported by %s (the changed code is that property's anchor), not by %s" % (os.path.relpath(sd, V), ",".join(cb), p))
            continue
        if p in cb or (meta.get("property") == p and meta.get("expect_caught", True)):
            if os.path.exists(os.path.join(sd, "patch.diff")):
                pats.append(os.path.join(sd, "patch.diff"))
    for pat in pats:
        r = subprocess.run([os.path.join(V, "tools", "runmutant.py"), pat, p], capture_output=True, text=True)
        name = os.path.relpath(pat, V)
        if "PATCH-DOES-NOT-APPLY" in r.stdout:
            skipped.append(name)
            print("SKIP   %-60s patch does not apply to the current tree" % name)
        elif r.returncode == 1 and "VIOLATION property=%s" % p in r.stdout:
            caught.append(name)
            rule = [l.strip().split(" ")[0] for l in r.stdout.splitlines() if l.strip().startswith(p + ".")]
            print("CAUGHT %-60s %s" % (name, ",".join(sorted(set(rule)))))
        else:
            missed.append(name)
            print("MISSED %-60s rc=%d %s" % (name, r.returncode, r.stdout.strip().splitlines()[-1:] ))
print("caught=%d missed=%d skipped=%d" % (len(caught), len(missed), len(skipped)))
sys.exit(1 if missed else 0)
