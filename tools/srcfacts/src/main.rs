//! srcfacts — dumps the syntax trees of rust source files as generic JSON (syn 2).
//!
//! usage: srcfacts <out.json> <root-dir> <file.rs>...
//! Macro invocations whose token body parses as a comma-separated expression list (vec!, format!,
//! write!, println!, matches!, assert!…) carry the parsed arguments; others carry their tokens.
use proc_macro2::{Span, TokenStream, TokenTree};
use quote::ToTokens;
use serde_json::{json, Map, Value};
use syn::parse::Parser;
use syn::punctuated::Punctuated;
use syn::spanned::Spanned;
use syn::*;

fn pos(sp: Span) -> Value {
    let s = sp.start();
    let e = sp.end();
    json!([s.line, s.column + 1, e.line, e.column + 1])
}

fn toks<T: ToTokens>(t: &T) -> String {
    // compact token string without the spaces quote inserts around punctuation
    let s = t.to_token_stream().to_string();
    s
}

fn node(k: &str, sp: Span) -> Map<String, Value> {
    let mut m = Map::new();
    m.insert("k".into(), Value::String(k.into()));
    m.insert("pos".into(), pos(sp));
    m
}

fn path_str(p: &Path) -> String {
    let mut s = String::new();
    if p.leading_colon.is_some() {
        s.push_str("::");
    }
    for (i, seg) in p.segments.iter().enumerate() {
        if i > 0 {
            s.push_str("::");
        }
        s.push_str(&seg.ident.to_string());
    }
    s
}

fn path_generics(p: &Path) -> Vec<Value> {
    let mut out = Vec::new();
    for seg in &p.segments {
        if let PathArguments::AngleBracketed(ab) = &seg.arguments {
            for a in &ab.args {
                out.push(Value::String(toks(a)));
            }
        }
    }
    out
}

fn lit(l: &Lit) -> Value {
    let mut m = node("lit", l.span());
    match l {
        Lit::Str(s) => {
            m.insert("ty".into(), "str".into());
            m.insert("v".into(), Value::String(s.value()));
        }
        Lit::ByteStr(s) => {
            m.insert("ty".into(), "bytestr".into());
            m.insert("v".into(), Value::String(String::from_utf8_lossy(&s.value()).to_string()));
        }
        Lit::Byte(b) => {
            m.insert("ty".into(), "byte".into());
            m.insert("v".into(), json!(b.value()));
        }
        Lit::Char(c) => {
            m.insert("ty".into(), "char".into());
            m.insert("v".into(), Value::String(c.value().to_string()));
            m.insert("cp".into(), json!(c.value() as u32));
        }
        Lit::Int(i) => {
            m.insert("ty".into(), "int".into());
            m.insert("v".into(), Value::String(i.base10_digits().to_string()));
            m.insert("suffix".into(), Value::String(i.suffix().to_string()));
        }
        Lit::Float(f) => {
            m.insert("ty".into(), "float".into());
            m.insert("v".into(), Value::String(f.base10_digits().to_string()));
            m.insert("suffix".into(), Value::String(f.suffix().to_string()));
        }
        Lit::Bool(b) => {
            m.insert("ty".into(), "bool".into());
            m.insert("v".into(), json!(b.value));
        }
        other => {
            m.insert("ty".into(), "other".into());
            m.insert("v".into(), Value::String(toks(other)));
        }
    }
    Value::Object(m)
}

fn pat(p: &Pat) -> Value {
    let mut m = node("pat", p.span());
    m.insert("src".into(), Value::String(toks(p)));
    match p {
        Pat::Lit(l) => {
            m.insert("pk".into(), "lit".into());
            m.insert("lit".into(), lit(&l.lit));
        }
        Pat::Range(r) => {
            m.insert("pk".into(), "range".into());
            m.insert("lo".into(), r.start.as_ref().map(|e| expr(e)).unwrap_or(Value::Null));
            m.insert("hi".into(), r.end.as_ref().map(|e| expr(e)).unwrap_or(Value::Null));
            m.insert(
                "inclusive".into(),
                json!(matches!(r.limits, RangeLimits::Closed(_))),
            );
        }
        Pat::Or(o) => {
            m.insert("pk".into(), "or".into());
            m.insert("cases".into(), Value::Array(o.cases.iter().map(pat).collect()));
        }
        Pat::Wild(_) => {
            m.insert("pk".into(), "wild".into());
        }
        Pat::Ident(i) => {
            m.insert("pk".into(), "ident".into());
            m.insert("name".into(), Value::String(i.ident.to_string()));
            m.insert("by_ref".into(), json!(i.by_ref.is_some()));
            m.insert("mut".into(), json!(i.mutability.is_some()));
            if let Some((_, sub)) = &i.subpat {
                m.insert("sub".into(), pat(sub));
            }
        }
        Pat::Tuple(t) => {
            m.insert("pk".into(), "tuple".into());
            m.insert("elems".into(), Value::Array(t.elems.iter().map(pat).collect()));
        }
        Pat::TupleStruct(t) => {
            m.insert("pk".into(), "tuple_struct".into());
            m.insert("path".into(), Value::String(path_str(&t.path)));
            m.insert("elems".into(), Value::Array(t.elems.iter().map(pat).collect()));
        }
        Pat::Struct(s) => {
            m.insert("pk".into(), "struct".into());
            m.insert("path".into(), Value::String(path_str(&s.path)));
            m.insert(
                "fields".into(),
                Value::Array(
                    s.fields
                        .iter()
                        .map(|f| json!({"member": toks(&f.member), "pat": pat(&f.pat)}))
                        .collect(),
                ),
            );
            m.insert("rest".into(), json!(s.rest.is_some()));
        }
        Pat::Path(p) => {
            m.insert("pk".into(), "path".into());
            m.insert("path".into(), Value::String(path_str(&p.path)));
        }
        Pat::Reference(r) => {
            m.insert("pk".into(), "ref".into());
            m.insert("inner".into(), pat(&r.pat));
        }
        Pat::Paren(p) => return pat(&p.pat),
        Pat::Type(t) => {
            m.insert("pk".into(), "typed".into());
            m.insert("inner".into(), pat(&t.pat));
            m.insert("ty".into(), Value::String(toks(&t.ty)));
        }
        Pat::Slice(s) => {
            m.insert("pk".into(), "slice".into());
            m.insert("elems".into(), Value::Array(s.elems.iter().map(pat).collect()));
        }
        Pat::Rest(_) => {
            m.insert("pk".into(), "rest".into());
        }
        _ => {
            m.insert("pk".into(), "other".into());
        }
    }
    Value::Object(m)
}

fn parse_macro_args(ts: TokenStream) -> Option<Vec<Value>> {
    let parser = Punctuated::<Expr, Token![,]>::parse_terminated;
    match parser.parse2(ts) {
        Ok(p) => Some(p.iter().map(expr).collect()),
        Err(_) => None,
    }
}

/// `vec![elem; n]`
fn parse_repeat_args(ts: TokenStream) -> Option<(Value, Value)> {
    let parser = |input: parse::ParseStream| -> Result<(Expr, Expr)> {
        let a: Expr = input.parse()?;
        let _: Token![;] = input.parse()?;
        let b: Expr = input.parse()?;
        Ok((a, b))
    };
    match parser.parse2(ts) {
        Ok((a, b)) => Some((expr(&a), expr(&b))),
        Err(_) => None,
    }
}

/// `matches!(expr, pat)` / `matches!(expr, pat if guard)`
fn parse_matches_args(ts: TokenStream) -> Option<Value> {
    let parser = |input: parse::ParseStream| -> Result<(Expr, Pat, Option<Expr>)> {
        let a: Expr = input.parse()?;
        let _: Token![,] = input.parse()?;
        let p = Pat::parse_multi_with_leading_vert(input)?;
        let g = if input.peek(Token![if]) {
            let _: Token![if] = input.parse()?;
            Some(input.parse::<Expr>()?)
        } else {
            None
        };
        let _ = input.parse::<Option<Token![,]>>()?;
        Ok((a, p, g))
    };
    match parser.parse2(ts) {
        Ok((a, p, g)) => Some(json!({
            "expr": expr(&a),
            "pat": pat(&p),
            "guard": g.map(|g| expr(&g)).unwrap_or(Value::Null)
        })),
        Err(_) => None,
    }
}

fn token_tree_json(ts: TokenStream) -> Value {
    let mut out = Vec::new();
    for tt in ts {
        match tt {
            TokenTree::Group(g) => {
                out.push(json!({"g": format!("{:?}", g.delimiter()), "pos": pos(g.span()), "inner": token_tree_json(g.stream())}));
            }
            TokenTree::Ident(i) => out.push(json!({"i": i.to_string(), "pos": pos(i.span())})),
            TokenTree::Punct(p) => out.push(json!({"p": p.as_char().to_string()})),
            TokenTree::Literal(l) => {
                let s = l.to_string();
                let parsed: Option<Lit> = syn::parse_str(&s).ok();
                match parsed {
                    Some(li) => {
                        let mut v = lit(&li);
                        v["pos"] = pos(l.span());
                        out.push(json!({"l": v}))
                    }
                    None => out.push(json!({"l": s})),
                }
            }
        }
    }
    Value::Array(out)
}

fn mac(m_: &Macro, sp: Span) -> Value {
    let mut m = node("macro", sp);
    let name = path_str(&m_.path);
    m.insert("name".into(), Value::String(name.clone()));
    let short = name.rsplit("::").next().unwrap_or("").to_string();
    if short == "matches" {
        if let Some(v) = parse_matches_args(m_.tokens.clone()) {
            m.insert("matches".into(), v);
            return Value::Object(m);
        }
    }
    if let Some(args) = parse_macro_args(m_.tokens.clone()) {
        m.insert("args".into(), Value::Array(args));
    } else if let Some((a, b)) = parse_repeat_args(m_.tokens.clone()) {
        m.insert("repeat".into(), json!([a, b]));
    } else {
        m.insert("tokens".into(), Value::String(m_.tokens.to_string()));
        m.insert("tt".into(), token_tree_json(m_.tokens.clone()));
    }
    Value::Object(m)
}

fn block(b: &Block) -> Value {
    let mut m = node("block", b.span());
    m.insert("stmts".into(), Value::Array(b.stmts.iter().map(stmt).collect()));
    Value::Object(m)
}

fn stmt(s: &Stmt) -> Value {
    match s {
        Stmt::Local(l) => {
            let mut m = node("let", l.span());
            m.insert("pat".into(), pat(&l.pat));
            if let Some(init) = &l.init {
                m.insert("init".into(), expr(&init.expr));
                if let Some((_, d)) = &init.diverge {
                    m.insert("else".into(), expr(d));
                }
            }
            Value::Object(m)
        }
        Stmt::Item(i) => item(i),
        Stmt::Expr(e, semi) => {
            let mut m = node("expr_stmt", e.span());
            m.insert("expr".into(), expr(e));
            m.insert("semi".into(), json!(semi.is_some()));
            Value::Object(m)
        }
        Stmt::Macro(sm) => {
            let mut m = node("expr_stmt", sm.span());
            m.insert("expr".into(), mac(&sm.mac, sm.span()));
            m.insert("semi".into(), json!(sm.semi_token.is_some()));
            Value::Object(m)
        }
    }
}

fn expr(e: &Expr) -> Value {
    let sp = e.span();
    match e {
        Expr::Lit(l) => lit(&l.lit),
        Expr::Paren(p) => expr(&p.expr),
        Expr::Group(g) => expr(&g.expr),
        Expr::Path(p) => {
            let mut m = node("path", sp);
            m.insert("path".into(), Value::String(path_str(&p.path)));
            let g = path_generics(&p.path);
            if !g.is_empty() {
                m.insert("generics".into(), Value::Array(g));
            }
            if let Some(q) = &p.qself {
                m.insert("qself".into(), Value::String(toks(&q.ty)));
            }
            Value::Object(m)
        }
        Expr::Call(c) => {
            let mut m = node("call", sp);
            m.insert("func".into(), expr(&c.func));
            m.insert("args".into(), Value::Array(c.args.iter().map(expr).collect()));
            Value::Object(m)
        }
        Expr::MethodCall(c) => {
            let mut m = node("method", sp);
            m.insert("recv".into(), expr(&c.receiver));
            m.insert("method".into(), Value::String(c.method.to_string()));
            m.insert("mpos".into(), pos(c.method.span()));
            if let Some(tf) = &c.turbofish {
                m.insert(
                    "turbofish".into(),
                    Value::Array(tf.args.iter().map(|a| Value::String(toks(a))).collect()),
                );
            }
            m.insert("args".into(), Value::Array(c.args.iter().map(expr).collect()));
            Value::Object(m)
        }
        Expr::Binary(b) => {
            let mut m = node("binary", sp);
            m.insert("op".into(), Value::String(toks(&b.op)));
            m.insert("l".into(), expr(&b.left));
            m.insert("r".into(), expr(&b.right));
            Value::Object(m)
        }
        Expr::Unary(u) => {
            let mut m = node("unary", sp);
            m.insert("op".into(), Value::String(toks(&u.op)));
            m.insert("e".into(), expr(&u.expr));
            Value::Object(m)
        }
        Expr::Reference(r) => {
            let mut m = node("ref", sp);
            m.insert("mut".into(), json!(r.mutability.is_some()));
            m.insert("e".into(), expr(&r.expr));
            Value::Object(m)
        }
        Expr::Field(f) => {
            let mut m = node("field", sp);
            m.insert("base".into(), expr(&f.base));
            m.insert("member".into(), Value::String(toks(&f.member)));
            Value::Object(m)
        }
        Expr::Index(i) => {
            let mut m = node("index", sp);
            m.insert("base".into(), expr(&i.expr));
            m.insert("index".into(), expr(&i.index));
            Value::Object(m)
        }
        Expr::Closure(c) => {
            let mut m = node("closure", sp);
            m.insert("params".into(), Value::Array(c.inputs.iter().map(pat).collect()));
            m.insert("move".into(), json!(c.capture.is_some()));
            m.insert("body".into(), expr(&c.body));
            Value::Object(m)
        }
        Expr::Block(b) => {
            let mut v = block(&b.block);
            if let Some(l) = &b.label {
                v["label"] = Value::String(l.name.ident.to_string());
            }
            v
        }
        Expr::Unsafe(u) => {
            let mut v = block(&u.block);
            v["unsafe"] = json!(true);
            v
        }
        Expr::If(i) => {
            let mut m = node("if", sp);
            m.insert("cond".into(), expr(&i.cond));
            m.insert("then".into(), block(&i.then_branch));
            m.insert(
                "else".into(),
                i.else_branch.as_ref().map(|(_, e)| expr(e)).unwrap_or(Value::Null),
            );
            Value::Object(m)
        }
        Expr::Let(l) => {
            let mut m = node("let_cond", sp);
            m.insert("pat".into(), pat(&l.pat));
            m.insert("e".into(), expr(&l.expr));
            Value::Object(m)
        }
        Expr::Match(mt) => {
            let mut m = node("match", sp);
            m.insert("e".into(), expr(&mt.expr));
            m.insert(
                "arms".into(),
                Value::Array(
                    mt.arms
                        .iter()
                        .map(|a| {
                            json!({
                                "pat": pat(&a.pat),
                                "guard": a.guard.as_ref().map(|(_, g)| expr(g)).unwrap_or(Value::Null),
                                "body": expr(&a.body),
                                "pos": pos(a.span()),
                            })
                        })
                        .collect(),
                ),
            );
            Value::Object(m)
        }
        Expr::Tuple(t) => {
            let mut m = node("tuple", sp);
            m.insert("elems".into(), Value::Array(t.elems.iter().map(expr).collect()));
            Value::Object(m)
        }
        Expr::Array(a) => {
            let mut m = node("array", sp);
            m.insert("elems".into(), Value::Array(a.elems.iter().map(expr).collect()));
            Value::Object(m)
        }
        Expr::Repeat(r) => {
            let mut m = node("array_repeat", sp);
            m.insert("e".into(), expr(&r.expr));
            m.insert("len".into(), expr(&r.len));
            Value::Object(m)
        }
        Expr::Struct(s) => {
            let mut m = node("struct", sp);
            m.insert("path".into(), Value::String(path_str(&s.path)));
            m.insert(
                "fields".into(),
                Value::Array(
                    s.fields
                        .iter()
                        .map(|f| json!({"member": toks(&f.member), "e": expr(&f.expr), "shorthand": f.colon_token.is_none()}))
                        .collect(),
                ),
            );
            m.insert("rest".into(), s.rest.as_ref().map(|r| expr(r)).unwrap_or(Value::Null));
            Value::Object(m)
        }
        Expr::Range(r) => {
            let mut m = node("range", sp);
            m.insert("lo".into(), r.start.as_ref().map(|e| expr(e)).unwrap_or(Value::Null));
            m.insert("hi".into(), r.end.as_ref().map(|e| expr(e)).unwrap_or(Value::Null));
            m.insert("inclusive".into(), json!(matches!(r.limits, RangeLimits::Closed(_))));
            Value::Object(m)
        }
        Expr::Return(r) => {
            let mut m = node("return", sp);
            m.insert("e".into(), r.expr.as_ref().map(|e| expr(e)).unwrap_or(Value::Null));
            Value::Object(m)
        }
        Expr::Macro(mc) => mac(&mc.mac, sp),
        Expr::ForLoop(f) => {
            let mut m = node("for", sp);
            m.insert("pat".into(), pat(&f.pat));
            m.insert("iter".into(), expr(&f.expr));
            m.insert("body".into(), block(&f.body));
            Value::Object(m)
        }
        Expr::While(w) => {
            let mut m = node("while", sp);
            m.insert("cond".into(), expr(&w.cond));
            m.insert("body".into(), block(&w.body));
            Value::Object(m)
        }
        Expr::Loop(l) => {
            let mut m = node("loop", sp);
            m.insert("body".into(), block(&l.body));
            Value::Object(m)
        }
        Expr::Cast(c) => {
            let mut m = node("cast", sp);
            m.insert("e".into(), expr(&c.expr));
            m.insert("ty".into(), Value::String(toks(&c.ty)));
            Value::Object(m)
        }
        Expr::Assign(a) => {
            let mut m = node("assign", sp);
            m.insert("l".into(), expr(&a.left));
            m.insert("r".into(), expr(&a.right));
            Value::Object(m)
        }
        Expr::Try(t) => {
            let mut m = node("try", sp);
            m.insert("e".into(), expr(&t.expr));
            Value::Object(m)
        }
        Expr::Break(b) => {
            let mut m = node("break", sp);
            m.insert("e".into(), b.expr.as_ref().map(|e| expr(e)).unwrap_or(Value::Null));
            Value::Object(m)
        }
        Expr::Continue(_) => Value::Object(node("continue", sp)),
        Expr::Await(a) => {
            let mut m = node("await", sp);
            m.insert("e".into(), expr(&a.base));
            Value::Object(m)
        }
        Expr::Async(a) => {
            let mut v = block(&a.block);
            v["async"] = json!(true);
            v
        }
        other => {
            let mut m = node("other", sp);
            m.insert("src".into(), Value::String(toks(other)));
            Value::Object(m)
        }
    }
}

fn attrs(a: &[Attribute]) -> Value {
    Value::Array(a.iter().map(|x| Value::String(toks(&x.meta))).collect())
}

fn is_cfg_test(a: &[Attribute]) -> bool {
    a.iter().any(|x| {
        let s = toks(&x.meta).replace(' ', "");
        s == "cfg(test)" || s == "test"
    })
}

fn sig(s: &Signature) -> Value {
    let inputs: Vec<Value> = s
        .inputs
        .iter()
        .map(|a| match a {
            FnArg::Receiver(r) => json!({"self": true, "src": toks(r)}),
            FnArg::Typed(t) => json!({"pat": pat(&t.pat), "ty": toks(&t.ty)}),
        })
        .collect();
    let ret = match &s.output {
        ReturnType::Default => Value::Null,
        ReturnType::Type(_, t) => Value::String(toks(t)),
    };
    json!({"inputs": inputs, "ret": ret, "async": s.asyncness.is_some(), "unsafe": s.unsafety.is_some(),
           "generics": toks(&s.generics)})
}

fn fields(f: &Fields) -> Value {
    Value::Array(
        f.iter()
            .enumerate()
            .map(|(i, fd)| {
                json!({
                    "name": fd.ident.as_ref().map(|x| x.to_string()).unwrap_or_else(|| i.to_string()),
                    "ty": toks(&fd.ty),
                    "vis": toks(&fd.vis),
                    "pos": pos(fd.span()),
                })
            })
            .collect(),
    )
}

fn item(i: &Item) -> Value {
    let sp = i.span();
    match i {
        Item::Fn(f) => {
            let mut m = node("fn", sp);
            m.insert("name".into(), Value::String(f.sig.ident.to_string()));
            m.insert("sig".into(), sig(&f.sig));
            m.insert("vis".into(), Value::String(toks(&f.vis)));
            m.insert("attrs".into(), attrs(&f.attrs));
            m.insert("test".into(), json!(is_cfg_test(&f.attrs)));
            m.insert("body".into(), block(&f.block));
            Value::Object(m)
        }
        Item::Impl(im) => {
            let mut m = node("impl", sp);
            m.insert("self_ty".into(), Value::String(toks(&im.self_ty)));
            m.insert(
                "trait".into(),
                im.trait_.as_ref().map(|(_, p, _)| Value::String(toks(p))).unwrap_or(Value::Null),
            );
            m.insert("unsafe".into(), json!(im.unsafety.is_some()));
            m.insert("generics".into(), Value::String(toks(&im.generics)));
            m.insert("test".into(), json!(is_cfg_test(&im.attrs)));
            let mut items = Vec::new();
            for it in &im.items {
                match it {
                    ImplItem::Fn(f) => {
                        let mut fm = node("fn", f.span());
                        fm.insert("name".into(), Value::String(f.sig.ident.to_string()));
                        fm.insert("sig".into(), sig(&f.sig));
                        fm.insert("vis".into(), Value::String(toks(&f.vis)));
                        fm.insert("attrs".into(), attrs(&f.attrs));
                        fm.insert("test".into(), json!(is_cfg_test(&f.attrs)));
                        fm.insert("body".into(), block(&f.block));
                        items.push(Value::Object(fm));
                    }
                    ImplItem::Const(c) => {
                        let mut cm = node("const", c.span());
                        cm.insert("name".into(), Value::String(c.ident.to_string()));
                        cm.insert("ty".into(), Value::String(toks(&c.ty)));
                        cm.insert("e".into(), expr(&c.expr));
                        items.push(Value::Object(cm));
                    }
                    ImplItem::Type(t) => {
                        let mut tm = node("type", t.span());
                        tm.insert("name".into(), Value::String(t.ident.to_string()));
                        tm.insert("ty".into(), Value::String(toks(&t.ty)));
                        items.push(Value::Object(tm));
                    }
                    other => {
                        let mut om = node("other_item", other.span());
                        om.insert("src".into(), Value::String(toks(other)));
                        items.push(Value::Object(om));
                    }
                }
            }
            m.insert("items".into(), Value::Array(items));
            Value::Object(m)
        }
        Item::Static(s) => {
            let mut m = node("static", sp);
            m.insert("name".into(), Value::String(s.ident.to_string()));
            m.insert("ty".into(), Value::String(toks(&s.ty)));
            m.insert("mut".into(), json!(matches!(s.mutability, StaticMutability::Mut(_))));
            m.insert("e".into(), expr(&s.expr));
            m.insert("test".into(), json!(is_cfg_test(&s.attrs)));
            Value::Object(m)
        }
        Item::Const(c) => {
            let mut m = node("const", sp);
            m.insert("name".into(), Value::String(c.ident.to_string()));
            m.insert("ty".into(), Value::String(toks(&c.ty)));
            m.insert("e".into(), expr(&c.expr));
            m.insert("test".into(), json!(is_cfg_test(&c.attrs)));
            Value::Object(m)
        }
        Item::Mod(md) => {
            let mut m = node("mod", sp);
            m.insert("name".into(), Value::String(md.ident.to_string()));
            m.insert("test".into(), json!(is_cfg_test(&md.attrs)));
            m.insert("attrs".into(), attrs(&md.attrs));
            match &md.content {
                Some((_, items)) => {
                    m.insert("items".into(), Value::Array(items.iter().map(item).collect()));
                    m.insert("inline".into(), json!(true));
                }
                None => {
                    m.insert("inline".into(), json!(false));
                }
            }
            Value::Object(m)
        }
        Item::Struct(s) => {
            let mut m = node("struct_def", sp);
            m.insert("name".into(), Value::String(s.ident.to_string()));
            m.insert("fields".into(), fields(&s.fields));
            m.insert("attrs".into(), attrs(&s.attrs));
            Value::Object(m)
        }
        Item::Enum(e) => {
            let mut m = node("enum_def", sp);
            m.insert("name".into(), Value::String(e.ident.to_string()));
            m.insert(
                "variants".into(),
                Value::Array(
                    e.variants
                        .iter()
                        .map(|v| json!({"name": v.ident.to_string(), "fields": fields(&v.fields)}))
                        .collect(),
                ),
            );
            m.insert("attrs".into(), attrs(&e.attrs));
            Value::Object(m)
        }
        Item::Use(u) => {
            let mut m = node("use", sp);
            m.insert("src".into(), Value::String(toks(&u.tree)));
            Value::Object(m)
        }
        Item::Macro(mc) => {
            let mut v = mac(&mc.mac, sp);
            v["item_macro"] = json!(true);
            v
        }
        Item::Trait(t) => {
            let mut m = node("trait", sp);
            m.insert("name".into(), Value::String(t.ident.to_string()));
            let mut items = Vec::new();
            for it in &t.items {
                if let TraitItem::Fn(f) = it {
                    let mut fm = node("fn", f.span());
                    fm.insert("name".into(), Value::String(f.sig.ident.to_string()));
                    fm.insert("sig".into(), sig(&f.sig));
                    fm.insert(
                        "body".into(),
                        f.default.as_ref().map(block).unwrap_or(Value::Null),
                    );
                    items.push(Value::Object(fm));
                }
            }
            m.insert("items".into(), Value::Array(items));
            Value::Object(m)
        }
        other => {
            let mut m = node("other_item", sp);
            m.insert("src".into(), Value::String(toks(other).chars().take(200).collect()));
            Value::Object(m)
        }
    }
}

fn main() {
    let args: Vec<String> = std::env::args().collect();
    if args.len() < 4 {
        eprintln!("usage: srcfacts <out.json> <root> <file.rs>...");
        std::process::exit(2);
    }
    let out = &args[1];
    let root = std::path::Path::new(&args[2]);
    let mut files = Map::new();
    for f in &args[3..] {
        let p = root.join(f);
        let src = match std::fs::read_to_string(&p) {
            Ok(s) => s,
            Err(e) => {
                eprintln!("srcfacts: cannot read {}: {}", p.display(), e);
                std::process::exit(2);
            }
        };
        match syn::parse_file(&src) {
            Ok(file) => {
                let items: Vec<Value> = file.items.iter().map(item).collect();
                files.insert(
                    f.clone(),
                    json!({"items": items, "attrs": attrs(&file.attrs), "lines": src.lines().count()}),
                );
            }
            Err(e) => {
                eprintln!("srcfacts: parse error in {}: {}", p.display(), e);
                std::process::exit(3);
            }
        }
    }
    let v = json!({"files": files});
    std::fs::write(out, serde_json::to_string(&v).unwrap()).expect("write");
}
