#!/usr/bin/env python3
"""regenerates /verif/MANIFEST.json from rules/manifest_data.py and validates it against the schema"""
import json, os, sys
V = os.path.dirname(os.path.dirname(os.path.abspath(__file__)))
sys.path.insert(0, V)
sys.dont_write_bytecode = True
from rules import manifest_data as md

checks = []
for pid in sorted(md.CLAIMS):
    c = md.CLAIMS[pid]
    checks.append({
        "property_id": pid,
        "quick_cmd": "./check %s --tier quick" % pid,
        "thorough_cmd": "./check %s --tier thorough" % pid,
        "evidence_file": "/verif/evidence/%s.json" % pid,
        "replay_cmd_template": "./check %s --explain {path}" % pid,
        "engine": c.get("engine", "rules"),
        "level_claimed": {"category": "other", "text": c["text"], "design_ref": c["design_ref"]},
        "level_note": c["note"],
        "technique": c["technique"],
    })
na = [{"property_id": p, "reason": r} for p, r in sorted(md.NOT_APPLICABLE.items())]
m = {
    "version": 1,
    "setup_cmd": md.SETUP_CMD,
    "hooks": md.HOOKS,
    "engines": md.ENGINES,
    "checks": checks,
    "notes": md.NOTES,
    "not_applicable": na,
}
ids = {c["property_id"] for c in checks} | {n["property_id"] for n in na}
props = [json.loads(l)["id"] for l in open(os.path.join(V, "properties.jsonl"))]
assert ids == set(props), (sorted(set(props) - ids), sorted(ids - set(props)))
assert not ({c["property_id"] for c in checks} & {n["property_id"] for n in na})
try:
    import jsonschema
    jsonschema.validate(m, json.load(open("/root/.vp/MANIFEST.schema.json")))
except ImportError:
    pass
json.dump(m, open(os.path.join(V, "MANIFEST.json"), "w"), indent=1)
print("MANIFEST.json: %d checks, %d not_applicable" % (len(checks), len(na)))
