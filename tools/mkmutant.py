#!/usr/bin/env python3
"""mkmutant.py <PROP> <name> <file-relative-to-repo> <<< JSON [{"old":..., "new":...}, ...]
creates /verif/mutants/<PROP>/<name>.patch from exact string replacements (each `old` must occur exactly once,
unless "count" given). Several files: pass file as '-' and put "file" in each edit.
BASE_PATCH=<patch>: the edits are made on top of that (behaviour-preserving) patch; the mutant is base + edits."""
import json, os, subprocess, sys, tempfile, shutil
prop, name, file = sys.argv[1:4]
edits = json.load(sys.stdin)
repo = os.environ.get("VERIF_REPO", "/repo")
tmp = tempfile.mkdtemp(prefix="mkmut")
try:
    byfile = {}
    for e in edits:
        byfile.setdefault(e.get("file", file), []).append(e)
    diff = ""
    for f, es in byfile.items():
        src = open(os.path.join(repo, f)).read()
        new = src
        if os.environ.get("BASE_PATCH"):
            bd = os.path.join(tmp, "base"); shutil.rmtree(bd, ignore_errors=True)
            os.makedirs(os.path.dirname(os.path.join(bd, f)), exist_ok=True)
            open(os.path.join(bd, f), "w").write(src)
            r = subprocess.run(["patch", "-p1", "-s", "-f", "-i", os.path.abspath(os.environ["BASE_PATCH"])], cwd=bd, capture_output=True, text=True)
            new = open(os.path.join(bd, f)).read()
            if new == src:
                sys.exit("base patch does not change %s: %s" % (f, r.stdout[-300:]))
        for e in es:
            n = new.count(e["old"])
            if n != e.get("count", 1):
                sys.exit("edit does not match exactly %d time(s) (found %d): %r" % (e.get("count", 1), n, e["old"][:80]))
            new = new.replace(e["old"], e["new"])
        a = os.path.join(tmp, "a", f); b = os.path.join(tmp, "b", f)
        os.makedirs(os.path.dirname(a), exist_ok=True); os.makedirs(os.path.dirname(b), exist_ok=True)
        open(a, "w").write(src); open(b, "w").write(new)
        r = subprocess.run(["diff", "-u", "--label", "a/" + f, "--label", "b/" + f, a, b], capture_output=True, text=True)
        diff += r.stdout
    out = os.path.join(os.path.dirname(os.path.dirname(os.path.abspath(__file__))), "mutants", prop)
    os.makedirs(out, exist_ok=True)
    open(os.path.join(out, name + ".patch"), "w").write(diff)
    print(os.path.join(out, name + ".patch"), len(diff.splitlines()), "lines")
finally:
    shutil.rmtree(tmp)
