#!/usr/bin/env python3
"""run_benign.py — behaviour-preserving edits (/verif/benign/<PROP>/*.patch) must NOT raise an alarm: ./check exits 0"""
import glob, os, subprocess, sys
V = os.path.dirname(os.path.dirname(os.path.abspath(__file__)))
bad = 0
for pat in sorted(glob.glob(os.path.join(V, "benign", "C*", "*.patch"))):
    p = os.path.basename(os.path.dirname(pat))
    r = subprocess.run([os.path.join(V, "tools", "runmutant.py"), pat, p], capture_output=True, text=True)
    ok = r.returncode == 0 and "VIOLATION" not in r.stdout
    print("%s %-55s %s" % ("QUIET " if ok else "ALARM ", os.path.relpath(pat, V), "" if ok else [l.strip()[:160] for l in r.stdout.splitlines() if l.strip().startswith(p + ".")][:2]))
    bad += 0 if ok else 1
print("alarms=%d" % bad)
sys.exit(1 if bad else 0)
