#!/usr/bin/env python3
"""run_benign.py [--own] [--props=C01,C05] — behaviour-preserving edits (/verif/benign/<PROP>/*.patch) must NOT raise an alarm in ANY
check: each patch is applied to a scratch copy and all 20 checks run against it (--own: only the check of the
directory the patch lives in)."""
import glob, os, subprocess, sys
V = os.path.dirname(os.path.dirname(os.path.abspath(__file__)))
ALL = ["C%02d" % i for i in range(1, 21)]
own = "--own" in sys.argv
sel = [a.split("=", 1)[1].split(",") for a in sys.argv if a.startswith("--props=")]
if sel:
    ALL = sel[0]
bad = 0
for pat in sorted(glob.glob(os.path.join(V, "benign", "*", "*.patch"))):
    p = os.path.basename(os.path.dirname(pat))
    props = [p] if own else ALL
    r = subprocess.run([os.path.join(V, "tools", "runmutant.py"), pat] + props, capture_output=True, text=True)
    alarms = []
    cur = None
    for l in r.stdout.splitlines():
        if l.startswith("== "):
            cur = l.split()[1]
            if "rc=0" not in l:
                alarms.append(l.strip())
        elif cur and l.strip().startswith(cur + ".") and alarms and alarms[-1].startswith("== " + cur):
            alarms.append("      " + l.strip()[:200])
    ok = not alarms and "PATCH-DOES-NOT-APPLY" not in r.stdout
    print("%s %-55s %s" % ("QUIET " if ok else "ALARM ", os.path.relpath(pat, V), "(%d checks)" % len(props) if ok else ""))
    for a in alarms[:6]:
        print("      " + a)
    if "PATCH-DOES-NOT-APPLY" in r.stdout:
        print("      patch does not apply")
    bad += 0 if ok else 1
print("alarms=%d" % bad)
sys.exit(1 if bad else 0)
