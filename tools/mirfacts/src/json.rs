//! minimal JSON value + writer (the driver has no cargo dependencies)
pub enum Json {
    Null,
    Bool(bool),
    Num(i64),
    Str(String),
    Arr(Vec<Json>),
    Obj(Vec<(String, Json)>),
}

fn esc(s: &str, out: &mut String) {
    out.push('"');
    for c in s.chars() {
        match c {
            '"' => out.push_str("\\\""),
            '\\' => out.push_str("\\\\"),
            '\n' => out.push_str("\\n"),
            '\r' => out.push_str("\\r"),
            '\t' => out.push_str("\\t"),
            c if (c as u32) < 0x20 => out.push_str(&format!("\\u{:04x}", c as u32)),
            c => out.push(c),
        }
    }
    out.push('"');
}

impl Json {
    pub fn write(&self, out: &mut String) {
        match self {
            Json::Null => out.push_str("null"),
            Json::Bool(b) => out.push_str(if *b { "true" } else { "false" }),
            Json::Num(n) => out.push_str(&n.to_string()),
            Json::Str(s) => esc(s, out),
            Json::Arr(v) => {
                out.push('[');
                for (i, x) in v.iter().enumerate() {
                    if i > 0 {
                        out.push(',');
                    }
                    x.write(out);
                }
                out.push(']');
            }
            Json::Obj(v) => {
                out.push('{');
                for (i, (k, x)) in v.iter().enumerate() {
                    if i > 0 {
                        out.push(',');
                    }
                    esc(k, out);
                    out.push(':');
                    x.write(out);
                }
                out.push('}');
            }
        }
    }
}
