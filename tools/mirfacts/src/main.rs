//! mirfacts — rustc_private driver that dumps a "MIR-lite" JSON fact file per crate.
//!
//! Usage: injected via RUSTC_WORKSPACE_WRAPPER (argv[1] is the real rustc path and is dropped).
//! Output: $MIRFACTS_OUT/<crate_name>.<crate_type>.json, written once per process.
#![feature(rustc_private)]
#![allow(clippy::all)]

extern crate rustc_abi;
extern crate rustc_driver;
extern crate rustc_hir;
extern crate rustc_interface;
extern crate rustc_middle;
extern crate rustc_session;
extern crate rustc_span;

mod json;
use json::Json;

use rustc_driver::{Callbacks, Compilation};
use rustc_hir::def::DefKind;
use rustc_hir::def_id::{DefId, LocalDefId, LOCAL_CRATE};
use rustc_hir::intravisit::{self, Visitor};
use rustc_middle::mir::{
    self, AggregateKind, BasicBlock, Body, Operand, Place, ProjectionElem, Rvalue, StatementKind,
    TerminatorKind,
};
use rustc_middle::ty::print::{
    with_no_trimmed_paths, with_no_visible_paths, with_resolve_crate_name, PrintTraitRefExt,
};

macro_rules! pp {
    ($e:expr) => {
        with_resolve_crate_name!(with_no_visible_paths!(with_no_trimmed_paths!($e)))
    };
}
use rustc_middle::ty::{self, Instance, Ty, TyCtxt, TypingEnv};
use rustc_span::Span;

struct Facts;

fn jstr<S: Into<String>>(s: S) -> Json {
    Json::Str(s.into())
}

fn path_of(tcx: TyCtxt<'_>, def_id: DefId) -> String {
    pp!((tcx.def_path_str(def_id)))
}

fn ty_str<'tcx>(ty: Ty<'tcx>) -> String {
    pp!((format!("{}", ty)))
}

fn span_json(tcx: TyCtxt<'_>, span: Span) -> Json {
    let sm = tcx.sess.source_map();
    let sp = span.source_callsite();
    if sp.is_dummy() {
        return Json::Null;
    }
    let lo = sm.lookup_char_pos(sp.lo());
    let hi = sm.lookup_char_pos(sp.hi());
    let file = match &lo.file.name {
        rustc_span::FileName::Real(r) => match r.local_path() {
            Some(p) => p.display().to_string(),
            None => format!("{:?}", lo.file.name),
        },
        other => format!("{:?}", other),
    };
    Json::Obj(vec![
        ("file".into(), jstr(file)),
        ("line".into(), Json::Num(lo.line as i64)),
        ("col".into(), Json::Num(lo.col.0 as i64 + 1)),
        ("eline".into(), Json::Num(hi.line as i64)),
        ("ecol".into(), Json::Num(hi.col.0 as i64 + 1)),
        ("exp".into(), Json::Bool(span.from_expansion())),
    ])
}

/// the innermost (un-expanded-to-callsite) position: where in a macro definition or in the
/// user's macro arguments the code really is
fn raw_span_json(tcx: TyCtxt<'_>, span: Span) -> Json {
    let sm = tcx.sess.source_map();
    if span.is_dummy() {
        return Json::Null;
    }
    let lo = sm.lookup_char_pos(span.lo());
    let file = match &lo.file.name {
        rustc_span::FileName::Real(r) => match r.local_path() {
            Some(p) => p.display().to_string(),
            None => format!("{:?}", lo.file.name),
        },
        other => format!("{:?}", other),
    };
    Json::Obj(vec![
        ("file".into(), jstr(file)),
        ("line".into(), Json::Num(lo.line as i64)),
        ("col".into(), Json::Num(lo.col.0 as i64 + 1)),
    ])
}

fn ty_class<'tcx>(tcx: TyCtxt<'tcx>, ty: Ty<'tcx>) -> String {
    match ty.kind() {
        ty::Bool => "bool".into(),
        ty::Char => "char".into(),
        ty::Int(_) | ty::Uint(_) => "int".into(),
        ty::Float(_) => "float".into(),
        ty::Str => "str".into(),
        ty::Adt(def, _) => format!("adt:{}", path_of(tcx, def.did())),
        ty::Ref(_, inner, m) => {
            format!("{}{}", if m.is_mut() { "&mut " } else { "&" }, ty_class(tcx, *inner))
        }
        ty::RawPtr(inner, _) => format!("*{}", ty_class(tcx, *inner)),
        ty::Tuple(ts) => {
            if ts.is_empty() {
                "unit".into()
            } else {
                "tuple".into()
            }
        }
        ty::Closure(d, _) => format!("closure:{}", path_of(tcx, *d)),
        ty::FnDef(d, _) => format!("fndef:{}", path_of(tcx, *d)),
        ty::FnPtr(..) => "fnptr".into(),
        ty::Slice(inner) => format!("[{}]", ty_class(tcx, *inner)),
        ty::Array(inner, _) => format!("[{};N]", ty_class(tcx, *inner)),
        ty::Dynamic(..) => "dyn".into(),
        ty::Never => "never".into(),
        ty::Param(_) => "param".into(),
        ty::Coroutine(d, _) => format!("coroutine:{}", path_of(tcx, *d)),
        _ => "other".into(),
    }
}

struct BodyCx<'a, 'tcx> {
    tcx: TyCtxt<'tcx>,
    body: &'a Body<'tcx>,
    def: DefId,
    tenv: TypingEnv<'tcx>,
}

impl<'a, 'tcx> BodyCx<'a, 'tcx> {
    fn place(&self, p: &Place<'tcx>) -> Json {
        let mut projs = Vec::new();
        for (i, elem) in p.projection.iter().enumerate() {
            let j = match elem {
                ProjectionElem::Deref => jstr("*"),
                ProjectionElem::Field(f, fty) => {
                    let base = Place::ty_from(p.local, &p.projection[..i], self.body, self.tcx);
                    let mut o = vec![("f".to_string(), Json::Num(f.as_usize() as i64))];
                    match base.ty.kind() {
                        ty::Adt(adt, _) => {
                            let vi = base.variant_index.unwrap_or(rustc_abi::FIRST_VARIANT);
                            o.push(("adt".into(), jstr(path_of(self.tcx, adt.did()))));
                            if adt.is_enum() {
                                o.push((
                                    "variant".into(),
                                    jstr(adt.variant(vi).name.as_str().to_string()),
                                ));
                            }
                            if let Some(fd) = adt.variant(vi).fields.get(f) {
                                o.push(("name".into(), jstr(fd.name.as_str().to_string())));
                            }
                        }
                        ty::Closure(d, _) => {
                            o.push(("closure".into(), jstr(path_of(self.tcx, *d))));
                        }
                        ty::Tuple(_) => {
                            o.push(("tuple".into(), Json::Bool(true)));
                        }
                        _ => {}
                    }
                    o.push(("ty".into(), jstr(ty_str(fty))));
                    Json::Obj(o)
                }
                ProjectionElem::Downcast(name, vi) => Json::Obj(vec![
                    ("d".into(), Json::Num(vi.as_usize() as i64)),
                    (
                        "name".into(),
                        match name {
                            Some(n) => jstr(n.as_str().to_string()),
                            None => Json::Null,
                        },
                    ),
                ]),
                ProjectionElem::Index(l) => {
                    Json::Obj(vec![("i".into(), Json::Num(l.as_usize() as i64))])
                }
                ProjectionElem::ConstantIndex { offset, from_end, .. } => Json::Obj(vec![
                    ("ci".into(), Json::Num(offset as i64)),
                    ("from_end".into(), Json::Bool(from_end)),
                ]),
                ProjectionElem::Subslice { .. } => jstr("subslice"),
                _ => jstr("other"),
            };
            projs.push(j);
        }
        Json::Obj(vec![
            ("l".into(), Json::Num(p.local.as_usize() as i64)),
            ("p".into(), Json::Arr(projs)),
        ])
    }

    fn operand(&self, op: &Operand<'tcx>) -> Json {
        match op {
            Operand::Copy(p) => Json::Obj(vec![("copy".into(), self.place(p))]),
            Operand::Move(p) => Json::Obj(vec![("move".into(), self.place(p))]),
            Operand::Constant(c) => {
                let ty = c.const_.ty();
                let mut o = vec![("ty".to_string(), jstr(ty_str(ty)))];
                let disp = pp!((format!("{}", c.const_)));
                o.push(("val".into(), jstr(disp)));
                if let ty::FnDef(d, _) = ty.kind() {
                    o.push(("fn".into(), jstr(path_of(self.tcx, *d))));
                }
                if let ty::Closure(d, _) = ty.kind() {
                    o.push(("closure".into(), jstr(path_of(self.tcx, *d))));
                }
                if let Some(d) = c.check_static_ptr(self.tcx) {
                    o.push(("static".into(), jstr(path_of(self.tcx, d))));
                }
                if ty.is_integral() || ty.is_bool() || ty.is_char() {
                    if let Some(si) = c.const_.try_eval_scalar_int(self.tcx, self.tenv) {
                        let size = si.size();
                        let bits = si.to_bits(size);
                        let v: i128 = if ty.is_signed() {
                            size.sign_extend(bits) as i128
                        } else {
                            bits as i128
                        };
                        o.push(("int".into(), Json::Num(v as i64)));
                    }
                }
                if ty.is_floating_point() {
                    if let Some(si) = c.const_.try_eval_scalar_int(self.tcx, self.tenv) {
                        let size = si.size();
                        let bits = si.to_bits(size);
                        let f = if size.bytes() == 4 {
                            f32::from_bits(bits as u32) as f64
                        } else {
                            f64::from_bits(bits as u64)
                        };
                        o.push(("float".into(), jstr(format!("{:?}", f))));
                    }
                }
                // string literal contents
                if let ty::Ref(_, inner, _) = ty.kind() {
                    if inner.is_str() {
                        if let mir::Const::Val(cv, _) = c.const_ {
                            if let Some(bytes) = cv.try_get_slice_bytes_for_diagnostics(self.tcx) {
                                o.push((
                                    "str".into(),
                                    jstr(String::from_utf8_lossy(bytes).to_string()),
                                ));
                            }
                        }
                    }
                }
                o.push(("span".into(), span_json(self.tcx, c.span)));
                Json::Obj(vec![("const".into(), Json::Obj(o))])
            }
            #[allow(unreachable_patterns)]
            _ => jstr("other"),
        }
    }

    fn rvalue(&self, rv: &Rvalue<'tcx>) -> Json {
        let mut o: Vec<(String, Json)> = Vec::new();
        macro_rules! k {
            ($s:expr) => {
                o.push(("k".into(), jstr($s)))
            };
        }
        match rv {
            Rvalue::Use(op, ..) => {
                k!("use");
                o.push(("ops".into(), Json::Arr(vec![self.operand(op)])));
            }
            Rvalue::Repeat(op, _) => {
                k!("repeat");
                o.push(("ops".into(), Json::Arr(vec![self.operand(op)])));
            }
            Rvalue::Ref(_, bk, p) => {
                k!(if matches!(bk, mir::BorrowKind::Mut { .. }) { "refmut" } else { "ref" });
                o.push(("place".into(), self.place(p)));
            }
            Rvalue::ThreadLocalRef(d) => {
                k!("tlsref");
                o.push(("static".into(), jstr(path_of(self.tcx, *d))));
            }
            Rvalue::RawPtr(kind, p) => {
                k!("rawptr");
                o.push(("mutability".into(), jstr(format!("{:?}", kind))));
                o.push(("place".into(), self.place(p)));
            }
            Rvalue::Cast(kind, op, ty) => {
                k!("cast");
                o.push(("cast".into(), jstr(format!("{:?}", kind))));
                o.push(("ops".into(), Json::Arr(vec![self.operand(op)])));
                o.push(("ty".into(), jstr(ty_str(*ty))));
                o.push(("from_ty".into(), jstr(ty_str(op.ty(self.body, self.tcx)))));
            }
            Rvalue::BinaryOp(bop, ab) => {
                k!("bin");
                o.push(("op".into(), jstr(format!("{:?}", bop))));
                o.push((
                    "ops".into(),
                    Json::Arr(vec![self.operand(&ab.0), self.operand(&ab.1)]),
                ));
            }
            Rvalue::UnaryOp(uop, a) => {
                k!("un");
                o.push(("op".into(), jstr(format!("{:?}", uop))));
                o.push(("ops".into(), Json::Arr(vec![self.operand(a)])));
            }
            Rvalue::Discriminant(p) => {
                k!("discr");
                o.push(("place".into(), self.place(p)));
                let pty = p.ty(self.body, self.tcx).ty;
                if let ty::Adt(adt, _) = pty.kind() {
                    o.push(("adt".into(), jstr(path_of(self.tcx, adt.did()))));
                }
            }
            Rvalue::Aggregate(kind, fields) => {
                k!("agg");
                match &**kind {
                    AggregateKind::Array(_) => o.push(("agg".into(), jstr("array"))),
                    AggregateKind::Tuple => o.push(("agg".into(), jstr("tuple"))),
                    AggregateKind::Adt(d, vi, _, _, _) => {
                        o.push(("agg".into(), jstr("adt")));
                        o.push(("adt".into(), jstr(path_of(self.tcx, *d))));
                        let adt = self.tcx.adt_def(*d);
                        let v = adt.variant(*vi);
                        o.push(("variant".into(), jstr(v.name.as_str().to_string())));
                        o.push((
                            "fields".into(),
                            Json::Arr(
                                v.fields.iter().map(|f| jstr(f.name.as_str().to_string())).collect(),
                            ),
                        ));
                    }
                    AggregateKind::Closure(d, _) => {
                        o.push(("agg".into(), jstr("closure")));
                        o.push(("closure".into(), jstr(path_of(self.tcx, *d))));
                    }
                    AggregateKind::Coroutine(d, _) => {
                        o.push(("agg".into(), jstr("coroutine")));
                        o.push(("closure".into(), jstr(path_of(self.tcx, *d))));
                    }
                    AggregateKind::CoroutineClosure(d, _) => {
                        o.push(("agg".into(), jstr("coroutine_closure")));
                        o.push(("closure".into(), jstr(path_of(self.tcx, *d))));
                    }
                    AggregateKind::RawPtr(..) => o.push(("agg".into(), jstr("rawptr"))),
                }
                o.push((
                    "ops".into(),
                    Json::Arr(fields.iter().map(|f| self.operand(f)).collect()),
                ));
            }
            Rvalue::CopyForDeref(p) => {
                k!("use");
                o.push((
                    "ops".into(),
                    Json::Arr(vec![Json::Obj(vec![("copy".into(), self.place(p))])]),
                ));
            }
            _ => {
                k!("other");
                o.push(("dbg".into(), jstr(format!("{:?}", rv))));
            }
        }
        Json::Obj(o)
    }

    fn callee(&self, func: &Operand<'tcx>) -> Json {
        let fty = func.ty(self.body, self.tcx);
        let mut o: Vec<(String, Json)> = Vec::new();
        match fty.kind() {
            ty::FnDef(d, args) => {
                o.push(("path".into(), jstr(path_of(self.tcx, *d))));
                o.push(("krate".into(), jstr(self.tcx.crate_name(d.krate).as_str().to_string())));
                o.push((
                    "generics".into(),
                    Json::Arr(
                        args.iter()
                            .map(|a| {
                                jstr(pp!((format!(
                                    "{}",
                                    a
                                ))))
                            })
                            .collect(),
                    ),
                ));
                // trait method?
                if let Some(assoc) = self.tcx.opt_associated_item(*d) {
                    if let Some(tr) = assoc.trait_container(self.tcx) {
                        o.push(("trait".into(), jstr(path_of(self.tcx, tr))));
                    }
                    if let Some(impl_did) = assoc.impl_container(self.tcx) {
                        let self_ty = self.tcx.type_of(impl_did).instantiate_identity().skip_norm_wip();
                        o.push(("impl_self".into(), jstr(ty_str(self_ty))));
                    }
                }
                // resolution
                let resolved = std::panic::catch_unwind(std::panic::AssertUnwindSafe(|| {
                    Instance::try_resolve(self.tcx, self.tenv, *d, args)
                }));
                match resolved {
                    Ok(Ok(Some(inst))) => {
                        let rd = inst.def_id();
                        o.push(("resolved".into(), jstr(path_of(self.tcx, rd))));
                        o.push((
                            "resolved_krate".into(),
                            jstr(self.tcx.crate_name(rd.krate).as_str().to_string()),
                        ));
                        let kind = match inst.def {
                            ty::InstanceKind::Item(_) => "item",
                            ty::InstanceKind::Virtual(..) => "virtual",
                            ty::InstanceKind::Intrinsic(_) => "intrinsic",
                            ty::InstanceKind::ClosureOnceShim { .. } => "closure_once_shim",
                            ty::InstanceKind::FnPtrShim(..) => "fnptr_shim",
                            ty::InstanceKind::CloneShim(..) => "clone_shim",
                            ty::InstanceKind::DropGlue(..) => "drop_glue",
                            _ => "other",
                        };
                        o.push(("inst".into(), jstr(kind)));
                        if let Some(assoc) = self.tcx.opt_associated_item(rd) {
                            if let Some(impl_did) = assoc.impl_container(self.tcx) {
                                let self_ty =
                                    self.tcx.type_of(impl_did).instantiate_identity().skip_norm_wip();
                                o.push(("resolved_impl_self".into(), jstr(ty_str(self_ty))));
                            }
                        }
                    }
                    _ => {
                        o.push(("resolved".into(), Json::Null));
                    }
                }
            }
            ty::FnPtr(..) => {
                o.push(("indirect".into(), jstr("fnptr")));
                o.push(("op".into(), self.operand(func)));
            }
            _ => {
                o.push(("indirect".into(), jstr(ty_class(self.tcx, fty))));
                o.push(("op".into(), self.operand(func)));
            }
        }
        Json::Obj(o)
    }

    fn bb(b: BasicBlock) -> Json {
        Json::Num(b.as_usize() as i64)
    }

    fn terminator(&self, t: &mir::Terminator<'tcx>) -> Json {
        let mut o: Vec<(String, Json)> = Vec::new();
        let unwind_json = |u: &mir::UnwindAction| match u {
            mir::UnwindAction::Cleanup(b) => Self::bb(*b),
            _ => Json::Null,
        };
        match &t.kind {
            TerminatorKind::Goto { target } => {
                o.push(("k".into(), jstr("goto")));
                o.push(("targets".into(), Json::Arr(vec![Self::bb(*target)])));
            }
            TerminatorKind::SwitchInt { discr, targets } => {
                o.push(("k".into(), jstr("switch")));
                o.push(("on".into(), self.operand(discr)));
                o.push(("on_ty".into(), jstr(ty_str(discr.ty(self.body, self.tcx)))));
                let mut vals = Vec::new();
                let mut tg = Vec::new();
                for (v, b) in targets.iter() {
                    vals.push(Json::Num(v as i64));
                    tg.push(Self::bb(b));
                }
                tg.push(Self::bb(targets.otherwise()));
                o.push(("values".into(), Json::Arr(vals)));
                o.push(("targets".into(), Json::Arr(tg)));
            }
            TerminatorKind::Return => o.push(("k".into(), jstr("return"))),
            TerminatorKind::Unreachable => o.push(("k".into(), jstr("unreachable"))),
            TerminatorKind::UnwindResume => o.push(("k".into(), jstr("resume"))),
            TerminatorKind::UnwindTerminate(_) => o.push(("k".into(), jstr("terminate"))),
            TerminatorKind::Drop { place, target, unwind, .. } => {
                o.push(("k".into(), jstr("drop")));
                o.push(("place".into(), self.place(place)));
                o.push(("targets".into(), Json::Arr(vec![Self::bb(*target)])));
                o.push(("unwind".into(), unwind_json(unwind)));
            }
            TerminatorKind::Call { func, args, destination, target, unwind, fn_span, .. } => {
                o.push(("k".into(), jstr("call")));
                o.push(("callee".into(), self.callee(func)));
                o.push((
                    "args".into(),
                    Json::Arr(args.iter().map(|a| self.operand(&a.node)).collect()),
                ));
                o.push((
                    "arg_tys".into(),
                    Json::Arr(
                        args.iter().map(|a| jstr(ty_str(a.node.ty(self.body, self.tcx)))).collect(),
                    ),
                ));
                o.push(("dst".into(), self.place(destination)));
                o.push((
                    "dst_ty".into(),
                    jstr(ty_str(destination.ty(self.body, self.tcx).ty)),
                ));
                o.push((
                    "targets".into(),
                    Json::Arr(target.iter().map(|b| Self::bb(*b)).collect()),
                ));
                o.push(("unwind".into(), unwind_json(unwind)));
                o.push(("fn_span".into(), span_json(self.tcx, *fn_span)));
            }
            TerminatorKind::TailCall { func, args, .. } => {
                o.push(("k".into(), jstr("tailcall")));
                o.push(("callee".into(), self.callee(func)));
                o.push((
                    "args".into(),
                    Json::Arr(args.iter().map(|a| self.operand(&a.node)).collect()),
                ));
            }
            TerminatorKind::Assert { cond, expected, msg, target, unwind } => {
                o.push(("k".into(), jstr("assert")));
                o.push(("cond".into(), self.operand(cond)));
                o.push(("expected".into(), Json::Bool(*expected)));
                let kind = match &**msg {
                    mir::AssertKind::BoundsCheck { .. } => "BoundsCheck".to_string(),
                    mir::AssertKind::Overflow(op, ..) => format!("Overflow({:?})", op),
                    mir::AssertKind::OverflowNeg(_) => "OverflowNeg".to_string(),
                    mir::AssertKind::DivisionByZero(_) => "DivisionByZero".to_string(),
                    mir::AssertKind::RemainderByZero(_) => "RemainderByZero".to_string(),
                    other => {
                        let s = format!("{:?}", other);
                        s.split(|c: char| !c.is_alphanumeric()).next().unwrap_or("").to_string()
                    }
                };
                o.push(("assert".into(), jstr(kind)));
                if let mir::AssertKind::BoundsCheck { len, index } = &**msg {
                    o.push(("len".into(), self.operand(len)));
                    o.push(("index".into(), self.operand(index)));
                }
                o.push(("targets".into(), Json::Arr(vec![Self::bb(*target)])));
                o.push(("unwind".into(), unwind_json(unwind)));
            }
            TerminatorKind::Yield { resume, drop, .. } => {
                o.push(("k".into(), jstr("yield")));
                let mut tg = vec![Self::bb(*resume)];
                if let Some(d) = drop {
                    tg.push(Self::bb(*d));
                }
                o.push(("targets".into(), Json::Arr(tg)));
            }
            TerminatorKind::CoroutineDrop => o.push(("k".into(), jstr("coroutine_drop"))),
            TerminatorKind::FalseEdge { real_target, .. } => {
                o.push(("k".into(), jstr("goto")));
                o.push(("targets".into(), Json::Arr(vec![Self::bb(*real_target)])));
            }
            TerminatorKind::FalseUnwind { real_target, .. } => {
                o.push(("k".into(), jstr("goto")));
                o.push(("targets".into(), Json::Arr(vec![Self::bb(*real_target)])));
            }
            TerminatorKind::InlineAsm { .. } => o.push(("k".into(), jstr("asm"))),
        }
        o.push(("span".into(), span_json(self.tcx, t.source_info.span)));
        o.push(("raw".into(), raw_span_json(self.tcx, t.source_info.span)));
        Json::Obj(o)
    }

    fn dump(&self) -> Json {
        let body = self.body;
        let tcx = self.tcx;
        let mut o: Vec<(String, Json)> = Vec::new();
        o.push(("argc".into(), Json::Num(body.arg_count as i64)));
        let mut dbg: std::collections::HashMap<usize, String> = Default::default();
        let mut dbg_places = Vec::new();
        for vdi in &body.var_debug_info {
            if let mir::VarDebugInfoContents::Place(p) = &vdi.value {
                if p.projection.is_empty() {
                    dbg.entry(p.local.as_usize()).or_insert_with(|| vdi.name.as_str().to_string());
                } else {
                    dbg_places.push(Json::Obj(vec![
                        ("name".into(), jstr(vdi.name.as_str().to_string())),
                        ("place".into(), self.place(p)),
                    ]));
                }
            }
        }
        o.push(("debug_places".into(), Json::Arr(dbg_places)));
        let locals: Vec<Json> = body
            .local_decls
            .iter_enumerated()
            .map(|(l, d)| {
                Json::Obj(vec![
                    ("id".into(), Json::Num(l.as_usize() as i64)),
                    ("ty".into(), jstr(ty_str(d.ty))),
                    ("class".into(), jstr(ty_class(tcx, d.ty))),
                    (
                        "name".into(),
                        match dbg.get(&l.as_usize()) {
                            Some(n) => jstr(n.clone()),
                            None => Json::Null,
                        },
                    ),
                    ("mut".into(), Json::Bool(d.mutability.is_mut())),
                ])
            })
            .collect();
        o.push(("locals".into(), Json::Arr(locals)));
        let mut blocks = Vec::new();
        for (bb, data) in body.basic_blocks.iter_enumerated() {
            let mut stmts = Vec::new();
            for st in &data.statements {
                match &st.kind {
                    StatementKind::Assign(bx) => {
                        let (p, rv) = &**bx;
                        stmts.push(Json::Obj(vec![
                            ("dst".into(), self.place(p)),
                            ("rv".into(), self.rvalue(rv)),
                            ("span".into(), span_json(tcx, st.source_info.span)),
                        ]));
                    }
                    StatementKind::SetDiscriminant { place, variant_index } => {
                        stmts.push(Json::Obj(vec![
                            ("dst".into(), self.place(place)),
                            (
                                "rv".into(),
                                Json::Obj(vec![
                                    ("k".into(), jstr("setdiscr")),
                                    ("variant".into(), Json::Num(variant_index.as_usize() as i64)),
                                ]),
                            ),
                            ("span".into(), span_json(tcx, st.source_info.span)),
                        ]));
                    }
                    StatementKind::Intrinsic(i) => {
                        stmts.push(Json::Obj(vec![
                            ("intrinsic".into(), jstr(format!("{:?}", i))),
                            ("span".into(), span_json(tcx, st.source_info.span)),
                        ]));
                    }
                    _ => {}
                }
            }
            let term = data.terminator();
            blocks.push(Json::Obj(vec![
                ("id".into(), Json::Num(bb.as_usize() as i64)),
                ("cleanup".into(), Json::Bool(data.is_cleanup)),
                ("stmts".into(), Json::Arr(stmts)),
                ("term".into(), self.terminator(term)),
            ]));
        }
        o.push(("blocks".into(), Json::Arr(blocks)));
        let _ = self.def;
        Json::Obj(o)
    }
}

struct HirCensus<'tcx> {
    tcx: TyCtxt<'tcx>,
    loops: Vec<Json>,
    unsafe_blocks: Vec<Json>,
}

impl<'tcx> Visitor<'tcx> for HirCensus<'tcx> {
    type NestedFilter = rustc_middle::hir::nested_filter::OnlyBodies;
    fn maybe_tcx(&mut self) -> Self::MaybeTyCtxt {
        self.tcx
    }
    fn visit_expr(&mut self, ex: &'tcx rustc_hir::Expr<'tcx>) {
        match &ex.kind {
            rustc_hir::ExprKind::Loop(_, _, src, _) => {
                let owner = self.tcx.hir_enclosing_body_owner(ex.hir_id);
                self.loops.push(Json::Obj(vec![
                    ("source".into(), jstr(format!("{:?}", src))),
                    ("owner".into(), jstr(path_of(self.tcx, owner.to_def_id()))),
                    ("span".into(), span_json(self.tcx, ex.span)),
                ]));
            }
            rustc_hir::ExprKind::Block(b, _) => {
                if let rustc_hir::BlockCheckMode::UnsafeBlock(src) = b.rules {
                    let owner = self.tcx.hir_enclosing_body_owner(ex.hir_id);
                    self.unsafe_blocks.push(Json::Obj(vec![
                        ("source".into(), jstr(format!("{:?}", src))),
                        ("owner".into(), jstr(path_of(self.tcx, owner.to_def_id()))),
                        ("span".into(), span_json(self.tcx, ex.span)),
                    ]));
                }
            }
            _ => {}
        }
        intravisit::walk_expr(self, ex);
    }
}

fn dump_crate(tcx: TyCtxt<'_>) -> Json {
    let mut bodies: Vec<(String, Json)> = Vec::new();
    let mut promoted: Vec<(String, Json)> = Vec::new();
    let mut statics: Vec<(String, Json)> = Vec::new();
    let mut adts: Vec<(String, Json)> = Vec::new();
    let mut impls: Vec<Json> = Vec::new();
    let mut unsafe_items: Vec<Json> = Vec::new();

    for local in tcx.hir_body_owners() {
        let def_id = local.to_def_id();
        let kind = tcx.def_kind(def_id);
        let path = path_of(tcx, def_id);
        let body: &Body<'_> = match kind {
            DefKind::Fn | DefKind::AssocFn | DefKind::Closure | DefKind::SyntheticCoroutineBody => {
                tcx.optimized_mir(def_id)
            }
            DefKind::Static { .. } | DefKind::Const { .. } | DefKind::AssocConst { .. } | DefKind::AnonConst
            | DefKind::InlineConst => {
                if matches!(kind, DefKind::AnonConst | DefKind::InlineConst) {
                    continue;
                }
                tcx.mir_for_ctfe(def_id)
            }
            _ => continue,
        };
        let tenv = TypingEnv::post_analysis(tcx, def_id);
        // promoted constants of a function (`&Enum::Variant`, `&[..]` literals): operands name them as
        // `<path>::promoted[i]`; their bodies let a rule see the value instead of an opaque constant
        if matches!(kind, DefKind::Fn | DefKind::AssocFn | DefKind::Closure | DefKind::SyntheticCoroutineBody) {
            for (i, pb) in tcx.promoted_mir(def_id).iter_enumerated() {
                let pcx = BodyCx { tcx, body: pb, def: def_id, tenv };
                promoted.push((format!("{}::promoted[{}]", path, i.index()), pcx.dump()));
            }
        }
        let cx = BodyCx { tcx, body, def: def_id, tenv };
        let mut o = match cx.dump() {
            Json::Obj(v) => v,
            _ => unreachable!(),
        };
        o.insert(0, ("kind".into(), jstr(format!("{:?}", kind))));
        o.insert(1, ("span".into(), span_json(tcx, tcx.def_span(def_id))));
        let parent = tcx.opt_parent(def_id).map(|p| path_of(tcx, p));
        o.insert(2, ("parent".into(), parent.map(jstr).unwrap_or(Json::Null)));
        if matches!(kind, DefKind::Fn | DefKind::AssocFn) {
            o.push(("vis".into(), jstr(format!("{:?}", tcx.visibility(def_id)))));
            let sig = tcx.fn_sig(def_id).instantiate_identity().skip_norm_wip();
            o.push(("sig".into(), jstr(pp!((format!("{}", sig))))));
            o.push(("unsafe_fn".into(), Json::Bool(!sig.safety().is_safe())));
            o.push(("is_async".into(), Json::Bool(tcx.asyncness(def_id).is_async())));
        }
        if let Some(assoc) = tcx.opt_associated_item(def_id) {
            if let Some(impl_did) = assoc.impl_container(tcx) {
                let self_ty = tcx.type_of(impl_did).instantiate_identity().skip_norm_wip();
                o.push(("impl_self".into(), jstr(ty_str(self_ty))));
                if let Some(tr) = tcx.impl_opt_trait_ref(impl_did) {
                    let tr = tr.instantiate_identity().skip_norm_wip();
                    o.push((
                        "impl_trait".into(),
                        jstr(pp!((format!(
                            "{}",
                            tr.print_only_trait_path()
                        )))),
                    ));
                }
            }
            o.push(("assoc_name".into(), jstr(assoc.name().as_str().to_string())));
        }
        // is this body inside a #[cfg(test)] / #[test] item?  (check builds have none, kept for safety)
        o.push(("in_test".into(), Json::Bool(false)));
        bodies.push((path, Json::Obj(o)));
    }

    // statics + ADTs + impls
    for id in tcx.hir_crate_items(()).definitions() {
        let def_id = id.to_def_id();
        let kind = tcx.def_kind(def_id);
        match kind {
            DefKind::Static { mutability, nested, .. } => {
                let ty = tcx.type_of(def_id).instantiate_identity().skip_norm_wip();
                let tenv = TypingEnv::post_analysis(tcx, def_id);
                statics.push((
                    path_of(tcx, def_id),
                    Json::Obj(vec![
                        ("ty".into(), jstr(ty_str(ty))),
                        ("mutable".into(), Json::Bool(mutability.is_mut())),
                        ("nested".into(), Json::Bool(nested)),
                        ("freeze".into(), Json::Bool(ty.is_freeze(tcx, tenv))),
                        ("thread_local".into(), Json::Bool(tcx.is_thread_local_static(def_id))),
                        ("span".into(), span_json(tcx, tcx.def_span(def_id))),
                    ]),
                ));
            }
            DefKind::Struct | DefKind::Enum | DefKind::Union => {
                let adt = tcx.adt_def(def_id);
                let mut variants = Vec::new();
                for v in adt.variants() {
                    let fields: Vec<Json> = v
                        .fields
                        .iter()
                        .map(|f| {
                            let fty = tcx.type_of(f.did).instantiate_identity().skip_norm_wip();
                            Json::Obj(vec![
                                ("name".into(), jstr(f.name.as_str().to_string())),
                                ("ty".into(), jstr(ty_str(fty))),
                                ("class".into(), jstr(ty_class(tcx, fty))),
                                ("vis".into(), jstr(format!("{:?}", f.vis))),
                            ])
                        })
                        .collect();
                    variants.push(Json::Obj(vec![
                        ("name".into(), jstr(v.name.as_str().to_string())),
                        ("fields".into(), Json::Arr(fields)),
                    ]));
                }
                adts.push((
                    path_of(tcx, def_id),
                    Json::Obj(vec![
                        ("kind".into(), jstr(format!("{:?}", kind))),
                        ("variants".into(), Json::Arr(variants)),
                        ("span".into(), span_json(tcx, tcx.def_span(def_id))),
                    ]),
                ));
            }
            DefKind::Impl { of_trait } => {
                let self_ty = tcx.type_of(def_id).instantiate_identity().skip_norm_wip();
                let mut o = vec![
                    ("self_ty".to_string(), jstr(ty_str(self_ty))),
                    ("span".into(), span_json(tcx, tcx.def_span(def_id))),
                ];
                if of_trait {
                    if let Some(tr) = tcx.impl_opt_trait_ref(def_id) {
                        let tr = tr.instantiate_identity().skip_norm_wip();
                        o.push((
                            "trait".into(),
                            jstr(pp!((format!(
                                "{}",
                                tr.print_only_trait_path()
                            )))),
                        ));
                        let safety = tcx.impl_trait_header(def_id).safety;
                        if !safety.is_safe() {
                            unsafe_items.push(Json::Obj(vec![
                                ("what".into(), jstr("unsafe impl")),
                                ("span".into(), span_json(tcx, tcx.def_span(def_id))),
                            ]));
                        }
                    }
                }
                let items: Vec<Json> = tcx
                    .associated_item_def_ids(def_id)
                    .iter()
                    .map(|d| jstr(path_of(tcx, *d)))
                    .collect();
                o.push(("items".into(), Json::Arr(items)));
                impls.push(Json::Obj(o));
            }
            _ => {}
        }
    }

    let mut census = HirCensus { tcx, loops: Vec::new(), unsafe_blocks: Vec::new() };
    tcx.hir_visit_all_item_likes_in_crate(&mut census);

    let crate_name = tcx.crate_name(LOCAL_CRATE).as_str().to_string();
    Json::Obj(vec![
        ("crate".into(), jstr(crate_name)),
        ("rustc".into(), jstr(rustc_interface::util::rustc_version_str().unwrap_or("?"))),
        ("bodies".into(), Json::Obj(bodies)),
        ("promoted".into(), Json::Obj(promoted)),
        ("statics".into(), Json::Obj(statics)),
        ("adts".into(), Json::Obj(adts)),
        ("impls".into(), Json::Arr(impls)),
        ("loops".into(), Json::Arr(census.loops)),
        ("unsafe_blocks".into(), Json::Arr(census.unsafe_blocks)),
        ("unsafe_items".into(), Json::Arr(unsafe_items)),
    ])
}

impl Callbacks for Facts {
    fn after_analysis<'tcx>(
        &mut self,
        _compiler: &rustc_interface::interface::Compiler,
        tcx: TyCtxt<'tcx>,
    ) -> Compilation {
        let out_dir = match std::env::var("MIRFACTS_OUT") {
            Ok(d) => d,
            Err(_) => return Compilation::Continue,
        };
        let j = dump_crate(tcx);
        let crate_name = tcx.crate_name(LOCAL_CRATE).as_str().to_string();
        let ctype = tcx
            .crate_types()
            .first()
            .map(|c| format!("{:?}", c).to_lowercase())
            .unwrap_or_else(|| "unknown".into());
        let mut s = String::new();
        j.write(&mut s);
        let _ = std::fs::create_dir_all(&out_dir);
        let path = format!("{}/{}.{}.mir.json", out_dir, crate_name, ctype);
        let tmp = format!("{}.tmp{}", path, std::process::id());
        std::fs::write(&tmp, s).expect("write facts");
        std::fs::rename(&tmp, &path).expect("rename facts");
        Compilation::Continue
    }
}

fn main() {
    let mut args: Vec<String> = std::env::args().collect();
    // RUSTC_WORKSPACE_WRAPPER: argv[1] is the path of the real rustc
    if args.len() > 1 && (args[1].ends_with("rustc") || args[1].contains("/rustc")) {
        args.remove(1);
    }
    let mut cb = Facts;
    rustc_driver::run_compiler(&args, &mut cb);
}

#[allow(dead_code)]
fn _unused(_: LocalDefId) {}
