#!/usr/bin/env python3
"""eval_benign_batch.py <dir with out/benign-*.diff> <label> — behaviour-preserving refactorings produced by an
independent sub-agent: each is applied to a scratch copy (tests must pass) and ALL checks must stay silent.  Quiet
patches are stored as /verif/benign/<label>/<n>.patch; alarms are printed for triage (false alarm -> fix the rule)."""
import glob, os, shutil, subprocess, sys
V = os.path.dirname(os.path.dirname(os.path.abspath(__file__)))
src, label = sys.argv[1], sys.argv[2]
ALL = ["C%02d" % i for i in range(1, 21)]
dst = os.path.join(V, "benign", label)
os.makedirs(dst, exist_ok=True)
for pat in sorted(glob.glob(os.path.join(src, "out", "benign-*.diff"))):
    name = os.path.basename(pat).replace(".diff", "")
    r = subprocess.run([os.path.join(V, "tools", "runmutant.py"), pat, "--test"] + ALL, capture_output=True, text=True)
    out = r.stdout
    tests_ok = "TESTS rc=0" in out
    alarms, cur = [], None
    for l in out.splitlines():
        if l.startswith("== "):
            cur = l.split()[1]
            if "rc=0" not in l:
                alarms.append(l.strip())
        elif cur and l.strip().startswith(cur + ".") and alarms and alarms[-1].split()[1:2] == [cur] or (cur and alarms and l.strip().startswith(cur + ".")):
            alarms.append("      " + l.strip()[:260])
    if "PATCH-DOES-NOT-APPLY" in out:
        print("NOAPPLY", name); continue
    if not tests_ok:
        print("TESTS-FAIL", name, [l for l in out.splitlines() if l.startswith("TESTS")][:1]); continue
    shutil.copy(pat, os.path.join(dst, name + ".patch"))
    if alarms:
        print("ALARM ", label, name)
        for a in alarms[:8]:
            print("      " + a)
    else:
        print("QUIET ", label, name)
